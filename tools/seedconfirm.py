#!/usr/bin/env python3
"""seedconfirm.py <src dir of one seeded change> <dest name>
Confirms a seeded change in a scratch worktree (/tmp/confirm, created from /repo HEAD and removed by the caller):
 1. the patch applies to clean HEAD and touches no test file;
 2. the demo passes on clean HEAD and fails on the patched tree;
 3. the patched tree builds and the repository's own suite passes on it.
On success copies patch.diff, the demo and meta.json (+ confirmation record) to /verif/seeded/<dest name>/.
"""
import json, os, subprocess, sys, shutil, glob
src, dest = sys.argv[1], sys.argv[2]
WT = os.environ.get('CONFIRM_WT', '/tmp/confirm')
RACE = '-race' if os.environ.get('CONFIRM_RACE') else ''  # concurrency demos are run under the race detector
env = dict(os.environ, GOFLAGS='-mod=mod', GOPROXY='off', GOSUMDB='off', GOTOOLCHAIN='local')
def sh(cmd, **kw):
    return subprocess.run(cmd, shell=True, cwd=WT, env=env, capture_output=True, text=True, **kw)
if not os.path.isdir(WT):
    subprocess.run(f'git -C /repo worktree add -q --detach {WT} HEAD', shell=True, check=True)
sh('git checkout -q -- . && git clean -fdq')
meta = json.load(open(f'{src}/meta.json'))
patch = f'{src}/patch.diff'
files = [l[6:].strip() for l in open(patch) if l.startswith('+++ b/')]
rec = {'files_in_patch': files}
if any(f.endswith('_test.go') for f in files):
    print('REJECT: patch touches a test file', files); sys.exit(1)
if sh(f'git apply --check {patch}').returncode != 0:
    print('REJECT: patch does not apply'); sys.exit(1)
loc = meta.get('demo_location') or ''
demos = [f for f in glob.glob(f'{src}/*_test.go')]
if not demos:
    print('REJECT: no demo test file'); sys.exit(1)
demo = demos[0]
if isinstance(loc, dict): loc = loc.get('path', '')
loc = loc.split()[0] if loc else ''
if loc.endswith('.go'): pkgdir = os.path.dirname(loc)
else: pkgdir = loc.rstrip('/')
if not pkgdir or not os.path.isdir(f'{WT}/{pkgdir}'):
    print('REJECT: cannot determine demo package dir from', meta.get('demo_location')); sys.exit(1)
target = f'{WT}/{pkgdir}/{os.path.basename(demo)}'
shutil.copy(demo, target)
r = sh(f'go test {RACE} -vet=off -count=1 ./{pkgdir}/', timeout=1500)
rec['demo_clean'] = 'pass' if r.returncode == 0 else 'FAIL'
if r.returncode != 0:
    print('REJECT: demo fails on clean HEAD\n', r.stdout[-1500:], r.stderr[-500:]); sys.exit(1)
sh(f'git apply {patch}')
r = sh('go build ./...')
if r.returncode != 0:
    print('REJECT: patched tree does not build', r.stderr[-800:]); sys.exit(1)
r = sh(f'go test {RACE} -vet=off -count=1 ./{pkgdir}/', timeout=1500)
rec['demo_patched'] = 'pass' if r.returncode == 0 else 'fail'
rec['demo_patched_output_tail'] = (r.stdout + r.stderr)[-1200:]
if r.returncode == 0:
    print('REJECT: demo passes on the patched tree'); sys.exit(1)
os.remove(target)
r = sh('go test -vet=off -count=1 ./...', timeout=3000)
rec['suite_patched'] = 'pass' if r.returncode == 0 else 'FAIL'
if r.returncode != 0:
    bad = [l for l in r.stdout.splitlines() if l.startswith('FAIL') or l.startswith('--- FAIL')]
    print('REJECT: existing suite fails on the patched tree', bad[:10]); sys.exit(1)
sh('git checkout -q -- . && git clean -fdq')
out = f'/verif/seeded/{dest}'
os.makedirs(out, exist_ok=True)
shutil.copy(patch, f'{out}/patch.diff')
shutil.copy(demo, f'{out}/{os.path.basename(demo)}.txt')  # .txt: not compiled as part of /verif
meta['confirmed'] = rec
meta['demo_package_dir'] = pkgdir
meta['demo_file'] = os.path.basename(demo) + '.txt'
json.dump(meta, open(f'{out}/meta.json', 'w'), indent=1)
print('CONFIRMED', dest, files)
