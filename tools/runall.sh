#!/bin/bash
# runall.sh [quick|thorough] [ids...] — runs the registered checks one after the other against /repo, rewriting evidence/.
cd "$(dirname "$0")/.."
tier=${1:-quick}; shift
ids=${@:-c01 c02 c03 c04 c05 c06 c07 c08 c09 c10 c11 c12 c13 c14 c15 c16 c17 c18 c19 c20}
for id in $ids; do
  s=$(date +%s)
  ./run.sh $id $tier > .build/runall-$id-$tier.log 2>&1; rc=$?
  echo "$id $tier rc=$rc $(( $(date +%s) - s ))s $(grep -c '^VIOLATION' .build/runall-$id-$tier.log) violations; $(grep -c '^KNOWN-FINDING' .build/runall-$id-$tier.log) known; $(tail -1 .build/runall-$id-$tier.log | cut -c1-160)"
done
