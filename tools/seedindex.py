#!/usr/bin/env python3
"""seedindex.py <results file> — writes seeded/INDEX.md and records caught_by / missed_by in each seeded/<name>/meta.json."""
import json, sys, collections, os, glob
res = collections.defaultdict(dict)
for l in open(sys.argv[1]):
    p = l.split()
    if len(p) < 5 or not p[0].startswith('C'): continue
    name, chk, tier = p[0], p[1], p[2]
    rc = int(p[3].split('=')[1]); n = int(p[4].split('=')[1])
    first = l.split('first=', 1)[1].strip() if 'first=' in l else ''
    res[name][chk] = (rc, n, first)
rows = []
for d in sorted(glob.glob('/verif/seeded/C*-*')):
    name = os.path.basename(d)
    m = json.load(open(d + '/meta.json'))
    own = name[:3].lower()
    caught = {c: r[2] for c, r in res[name].items() if r[0] == 1 and r[1] > 0}
    missed = [c for c, r in res[name].items() if r[0] == 0]
    broken = [c for c, r in res[name].items() if r[0] not in (0, 1) or (r[0] == 1 and r[1] == 0)]
    m['checks_run'] = {c: {'exit': r[0], 'violations': r[1], 'first_signature': r[2]} for c, r in res[name].items()}
    m['caught_by'] = sorted(caught)
    m['not_caught_by'] = sorted(missed)
    json.dump(m, open(d + '/meta.json', 'w'), indent=1)
    desc = (m.get('description') or '').replace('\n', ' ')
    rows.append((name, ', '.join(m.get('files_changed') if isinstance(m.get('files_changed'), list) else [str(m.get('files_changed'))]), desc[:230],
                 'yes: ' + caught[own] if own in caught else 'NO', ', '.join(f'{c}' for c in sorted(caught) if c != own) or '-', ', '.join(sorted(missed)) or '-', ', '.join(broken)))
with open('/verif/seeded/INDEX.md', 'w') as f:
    f.write('# Seeded property-breaking changes (written by independent sub-agents, confirmed in a scratch worktree)\n\n')
    f.write('Each directory: `patch.diff` (against /repo HEAD at seeding time), the demonstration test (`*_test.go.txt`; passes on the clean tree, fails on the patched one), `meta.json` (description, trigger, confirmation record, which checks were run against it and what they reported). All of them compile and pass the repository\'s own suite.\n\n')
    f.write('| change | file | what | caught by own check (quick): first signature | also caught by | run but silent |\n|---|---|---|---|---|---|\n')
    for r in rows:
        f.write('| %s | %s | %s | %s | %s | %s |\n' % r[:6])
    n_own = sum(1 for r in rows if r[3].startswith('yes'))
    f.write(f'\n{n_own} of {len(rows)} changes are reported by the quick tier of the check of the property they were written against.\n')
print('rows', len(rows), 'own-caught', sum(1 for r in rows if r[3].startswith('yes')))
