#!/usr/bin/env python3
"""seedtable.py — adds to the table of DESIGN.md §9.5 one row per seeded change that has none yet (from seeded/<name>/meta.json)."""
import json, glob, os, re
p = '/verif/DESIGN.md'; lines = open(p).read().split('\n')
have = {m.group(1) for l in lines if (m := re.match(r'^\| (C\d\d-[a-z]) \|', l))}
for d in sorted(glob.glob('/verif/seeded/C*-*')):
    name = os.path.basename(d)
    if name in have: continue
    m = json.load(open(d + '/meta.json')); own = name[:3].lower(); cr = m.get('checks_run', {})
    first = cr.get(own, {}).get('first_signature') or 'not reported by the own check'
    also = ', '.join(c for c in m.get('caught_by', []) if c != own) or '–'
    f = m.get('files_changed'); f = f if isinstance(f, list) else [str(f)]
    row = f"| {name} | `{os.path.basename(f[0])}` | {first} | {also} |"
    idx = max(i for i, l in enumerate(lines) if re.match(r'^\| %s-[a-z] \|' % name[:3], l))
    lines.insert(idx + 1, row); print(row)
open(p, 'w').write('\n'.join(lines))
