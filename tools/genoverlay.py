#!/usr/bin/env python3
"""Generate a `go build -overlay` file from the CURRENT /repo sources.

 * every non-test .go file under /repo/eth2 that imports "sync" is replaced by a copy whose
   import is rewritten to the shim package github.com/protolambda/zrnt/eth2/verifsync;
 * the shim package itself is supplied as a virtual directory /repo/eth2/verifsync;
 * VERIF_OVERLAY_EXTRA (json file {"Replace":{...}}) is merged last (deliberate mutants /
   candidate fixes under test, never used by registered checks).
/repo is not modified.
usage: genoverlay.py <outdir>  -> writes <outdir>/overlay.json
"""
import json, os, re, sys

REPO = os.environ.get("VERIF_REPO", "/repo")
out = sys.argv[1]
os.makedirs(out, exist_ok=True)
here = os.path.dirname(os.path.abspath(__file__))
replace = {}
imp = re.compile(r'^(\s*)(?:sync\s+)?"sync"\s*$', re.M)
n = 0
for root, dirs, files in os.walk(os.path.join(REPO, "eth2")):
    dirs.sort()
    for f in sorted(files):
        if not f.endswith(".go") or f.endswith("_test.go"):
            continue
        p = os.path.join(root, f)
        src = open(p, encoding="utf-8").read()
        if not imp.search(src):
            continue
        new = imp.sub(r'\1sync "github.com/protolambda/zrnt/eth2/verifsync"', src)
        rel = os.path.relpath(p, REPO).replace("/", "__")
        dst = os.path.join(out, rel)
        open(dst, "w", encoding="utf-8").write(new)
        replace[p] = dst
        n += 1
replace[os.path.join(REPO, "eth2/verifsync/vsync.go")] = os.path.join(here, "shim", "vsync.go")
extra = os.environ.get("VERIF_OVERLAY_EXTRA")
if extra:
    replace.update(json.load(open(extra))["Replace"])
json.dump({"Replace": replace}, open(os.path.join(out, "overlay.json"), "w"), indent=1)
print("overlay: %d files rewritten to the sync shim" % n, file=sys.stderr)
