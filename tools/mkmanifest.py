#!/usr/bin/env python3
"""Regenerates /verif/MANIFEST.json from the table below (kept valid at all times)."""
import json
checks = []
def add(pid, cat, text, note, tech, design):
    checks.append({
        "property_id": pid,
        "quick_cmd": "./run.sh %s quick" % pid,
        "thorough_cmd": "./run.sh %s thorough" % pid,
        "evidence_file": "/verif/evidence/%s.json" % pid,
        "replay_cmd_template": "./run.sh replay {path}",
        "engine": "vcheck",
        "level_claimed": {"category": cat, "text": text, "design_ref": design},
        "level_note": note,
        "technique": tech})

fcnote = ("Trusted: the reference model reffc (internal/fcx/model.go), written from the property statement and the doc comments of "
          "eth2/forkchoice; SLOTS_PER_EPOCH=2 spec; root names from an 8-name pool; 2-3 validators. Inputs the statement does not define "
          "(justified not descending from the new finalized checkpoint, stores left without any viable node, nodes carrying epochs above the store's) are not offered.")
add("C09", "model_checking",
    "Explicit-state BFS over all operation sequences (blocks incl. forks/late/double proposals/gaps, empty slots, votes for known/unknown/older/same-epoch targets, block+justified/finalized updates with balance changes, pins, Head) up to the stated depth from four start states on the REAL ProtoForkChoice; every step compared with a naive LMD-GHOST model (head from every node, status classes).",
    fcnote, "explicit-state model checking of the implementation (BFS, exact state merging, lock-step reference model)", "DESIGN.md 3/C09")
add("C10", "model_checking",
    "Same explorer; every UpdateJustified candidate (ahead/equal/behind/unknown/conflicting/outside pin, block-node and gap-slot anchors) x sink behaviours (accepting, nil, failing at call 0/1/2: a node whose report failed must not have been dropped) followed by every follow-up op; oracle clauses: returns (self-deadlock detected by the sequential lock shim, no wall clock), exact prune set with canonical flags, retained nodes answer all queries, later votes/blocks work, older/equal change nothing, outside finalized/pinned subtree refused.",
    fcnote + " One recorded known finding (index-based pruning).", "explicit-state model checking of the implementation + sequential lock shim for blocking", "DESIGN.md 3/C10")
add("C11", "model_checking",
    "Same explorer; in every reached state (before and after pruning) all navigation queries for all anchors x slots x filters are compared with direct walks of the model tree; unknown/pruned roots must be reported unknown; a panic is a violation.",
    fcnote, "explicit-state model checking of the implementation (all queries evaluated in every state)", "DESIGN.md 3/C11")
add("C16", "model_checking",
    "Explicit-state BFS over all AddValidator sequences (any live handle x index 0..len+1 x 4 keys; plus an arbitrary-argument run) on real PubkeyCache handles; after every step EVERY live handle answers Pubkey(i) for all i and ValidatorIndex(k) for all keys exactly per its own explicit history; no-op/append/fork/error classes; non-termination observed deterministically through the lock shim (acquisition budget), not by wall clock.",
    "Trusted: per-handle history lists (internal/pkx). A key duplicated at an earlier index of the same history (never produced by deposit processing) only asserts termination / no panic / other handles undisturbed.",
    "explicit-state model checking of the implementation (BFS, exact state merging)", "DESIGN.md 3/C16")
add("C20", "model_checking",
    "Explicit-state BFS over add/query/prune/reset sequences on the real attestation, exit, slashing and sync-committee pools (sync pool: the three unexported slot buffers are read by reflection after every step and must hold exactly the items added for the slots still inside the window; committees of 3, all single and aggregate bit patterns, two data roots in one epoch, malformed bitfields, duplicates, same-key-different-content, fresh sync pool before any Reset); oracle is exactly the statement: no panic, nil-or-error, double single vote reported, duplicate changes no result, every returned item was added unaltered and matches the filter, accepted aggregates stay covered / slashings and exits stay returned until pruned, pruning removes exactly the too-old items.",
    "Trusted: multiset models in internal/poolx. 'stored' is read as 'add returned nil'. Retention of aggregates is asserted as participant coverage (the pool may drop redundant subsets).",
    "explicit-state model checking of the implementation (BFS, lock-step multiset model)", "DESIGN.md 3/C20")

add("C06", "exploration",
    "Bounded-exhaustive enumeration: (1) real SHA-256, every list size 0..600 (quick) / 0..2100 (thorough) x rounds {0,1,2,3,10,90,255} x 3 seeds; (2) an OWNED hash installed through the hashing.Hash/GetHashFn seams: for sizes <= 10 (1 round) and <= 6 (2 rounds) EVERY pivot x EVERY position-bit pattern, i.e. every behaviour any seed can induce; for sizes 1..40, 250..265, 505..520 every pivot x every single-set/single-clear bit pattern (8- and 256-position refresh boundaries, both mirror segments). Per case PermuteIndex/UnpermuteIndex at every position, ShuffleList, UnshuffleList and the round trip are compared with the spec's per-index function.",
    "Trusted: verbatim transliteration of compute_shuffled_index (internal/shufx); crypto/sha256. Not every 2^256 seed: the owned hash covers all seed-induced behaviours only on the small sizes.",
    "bounded exhaustive enumeration of inputs (all pivots x all bit patterns via an owned hash) against the spec function", "DESIGN.md 3/C06")
add("C19", "exploration",
    "Bounded-exhaustive enumeration against exact 128-bit arithmetic: IntegerSquareroot on every n < 2^30 (quick) / 2^32 (thorough) plus both edges of every step of the floor function (all k < 2^32 in the thorough tier) and neighbourhoods of 2^64-1 and every 2^j; power-of-two helpers on dense ranges and all 2^j +-3; time/slot/epoch/churn/committee-count/slot-span helpers on full products over a 36-value structured set x parameter sets (exact value when representable, error result otherwise, never a wrapped value); VerifyMerkleBranch on every index of every full tree up to depth 6/9 with every single corruption, plus the depth-33 deposit shape.",
    "Trusted: math/bits 128-bit arithmetic, crypto/sha256. Structured exhaustive sub-domains, not all 2^64 points per argument.",
    "bounded exhaustive enumeration of inputs against exact reference arithmetic", "DESIGN.md 3/C19")

chnote = ("Trusted: the reference transition internal/refspec (phase0..deneb, a direct transliteration of the specification with no caches, "
          "symbolic signatures) and internal/refssz; SHA-256; the BLS library (signing on the harness side). Tiny presets: 4 slots/epoch, 16 validators, "
          "forks at epochs 1-4 and variants (phase0-only, two upgrades in one epoch, ...). Histories up to the stated length and deviation bound.")
add("C01", "model_checking",
    "Deviation-bounded exhaustive exploration of beacon-chain histories: every history of N slots that deviates from a base scenario (healthy, ~50% participation/leak, deposits with eth1 votes incl. undecodable signatures and sibling histories that give the same validator indices other keys, phase0-only, mass ejection of the whole registry through the exit queue, withdrawals with every payload full and the sweep wrapping around the registry, ...) in at most k slots (k<=1 quick on the full ~35-entry per-slot menu of operation mixes; k<=2 thorough on the interacting sub-menu). Blocks are produced from the REFERENCE state with the reference state root and real BLS signatures, travel as bytes through zrnt's decoder and StateTransition(validateResult=true); zrnt must accept and the post-state bytes and cached root must equal the reference's.",
    chnote, "bounded exhaustive exploration of operation histories on the implementation, lock-step with a reference model (explicit-state, deviation bound)", "DESIGN.md 3/C01")
add("C02", "model_checking",
    "Same explorer with per-slot observation: the state is advanced slot by slot on both sides and compared after EVERY slot (root caching, every epoch sub-transition, each in-place upgrade individually), with and without blocks in between (base scenarios: no blocks at all, one block per epoch, healthy, leak, deposits/activations, phase0-only; deviations: gaps, missing/wrong-target attestations, mass exits and slashings).",
    chnote, "bounded exhaustive exploration of histories on the implementation, lock-step with a reference model (per-slot comparison)", "DESIGN.md 3/C02")

add("C07", "model_checking",
    "The C01 exploration (same histories, same bounds) with a committee hook evaluated in EVERY reached state: GetBeaconCommittee for every slot of the previous/current/next epoch x every committee index (+ the first out-of-range index), GetCommitteeCountPerSlot, GetBeaconProposer for every slot of the current epoch, current and next sync-committee indices and cached pubkeys vs the specification functions evaluated on the reference state (per-index compute_shuffled_index, spec slicing, balance-weighted sampling); partition invariant (every active validator in exactly one committee, sizes differ by at most 1). Also evaluated on every genesis state of the C13 enumeration.",
    chnote, "bounded exhaustive exploration of histories on the implementation with a per-state oracle (reference model)", "DESIGN.md 3/C07")
add("C08", "model_checking",
    "The C01 exploration with a context hook in EVERY reached state: all exported parts of the long-lived EpochsContext (three shufflings incl. committees, proposers, effective balances, total active stake and root, both sync committees' indices and pubkeys, pubkey<->index look-ups for every validator and every known key) vs NewEpochsContext on the state re-read from its own bytes; a step that fails on the long-lived pair is retried on the reloaded state with a from-scratch context (success there = the context was the cause); plus a differential continuation: the next default block applied to (copy of the long-lived pair) and to (reloaded state, fresh context) must give the same error/post-state bytes. Branching uses CopyState + Clone like a client.",
    chnote + " EffectiveBalances is documented as 'at the start of the epoch': compared on the indices the epoch-start registry had.", "bounded exhaustive exploration of histories on the implementation with a differential (from-scratch / reloaded) oracle", "DESIGN.md 3/C08")
add("C12", "exploration",
    "Per chain view (8 views thorough: heads in every fork phase0..deneb of the tiny preset, built from real transitions: main chain with a gap slot, an old branch that conflicts with finality once finality moves, a sibling of the head; head on either sibling) and per gossip topic: the honest message plus every single-condition corruption of it from a condition table written from the networking specification (signature by another key / under another domain / fork version, selection proofs, subnet, committee index, bit counts and lengths, unknown / non-descendant / finality-conflicting roots, flagged-bad blocks, duplicates via each seen-cache), and a full clock grid (every slot of the propagation window +-2, x 10 offsets around both 500 ms disparity edges). Expected class (ACCEPT / not ACCEPT / IGNORE) from the table; verdict and every Mark* call from zrnt; after each refusal the honest message is validated on the same session and must be accepted.",
    chnote + " Trusted additionally: the condition tables in internal/chainh/p2pcases.go and the View backend (explicit block tree, recorded seen-caches). Blob sidecar and BLS-change topics have no validator in this library.",
    "bounded exhaustive enumeration of (chain view x message x single-condition corruption x clock position x seen-cache content) on the implementation against a condition-table oracle", "DESIGN.md 3/C12")
add("C13", "exploration",
    "Every deposit sequence of length <= 3 (quick) / 4 (thorough) over a 16-entry alphabet (amounts on both sides of every threshold, invalid proof-of-possession, non-curve pubkey, signatures that are not a point encoding (new validator and top-up), top-ups with valid/invalid signatures pushing across MAX, same key with other credentials) appended to / inserted into a base of valid deposits, with real Merkle proofs from an independent deposit tree, x 3 eth1 timestamps: genesis state bytes and root vs the reference initialize_beacon_state_from_eth1, returned context vs from-scratch, committees vs the specification, IsValidGenesisState on both sides of both thresholds; KickStartState on 6 validator sets.",
    chnote, "bounded exhaustive enumeration of input sequences against a reference model", "DESIGN.md 3/C13")
add("C14", "exploration",
    "Finite exhaustive comparisons: all 462 non-decreasing fork schedules over {1..5,never} x epochs 0..7 x first/last slot x 2 genesis validators roots for Spec.ForkVersion / ForkDecoder.ForkDigest / BlockAllocator; all 70 phase0..deneb schedules as real chains (state type, state.Fork(), full state vs the reference after every slot; block<->envelope round trip; signature under the slot's version verifies through the envelope, under each other version it does not); every key of the built-in mainnet and minimal configurations and 30 spec-level Go constants against a pinned, reviewed table.",
    "Trusted: the pinned table internal/forkx/refconsts.json (reviewed against the published presets/configs), the reference ForkData root, the chain harness. Electra/fulu: look-ups only (no transition in this library).",
    "finite exhaustive enumeration of configurations x epochs, chains replayed on the implementation", "DESIGN.md 3/C14")

add("C03", "model_checking",
    "At every state of the base histories (all forks), every single-rule corruption from a 117-entry mutator table written rule by rule from the specification (header, randao, attestations, proposer/attester slashings, exits incl. exits added to exit-free blocks and exits dated before the latest fork (signed for that epoch = valid, signed for the current epoch = invalid), deposits, BLS changes, sync aggregate, payload/withdrawals/blob commitments; signature replays under every other domain type, fork version and chain) of every base block (default and operation-carrying blocks), in two forms: (a) original proposer signature, validateResult=true; (b) proposer signature redone, validateResult=false so that the rule under test is the only thing that can reject. The reference model decides: rejects => zrnt must return an error; still valid => zrnt must accept with an identical post-state; a panic is a violation in every case.",
    chnote, "bounded exhaustive enumeration of single-rule corruptions over explored chain states, verdict by a reference model", "DESIGN.md 3/C03")
add("C18", "fault_enumeration",
    "For every transition (StateTransition of a block, or ProcessSlots) of the base histories and one-deviation variants: a counting run learns the P context polls (with their call sites) and the E engine calls; then EVERY cancellation point (context cancelled from poll i on, i = 0..P-1) and EVERY non-trivial engine verdict vector in {valid, invalid, error}^E is executed on the real transition and must surface as an error (no panic); the undisturbed instrumented run must reproduce the plain post-state; recorded engine arguments (payload root, versioned hashes in commitment order, parent beacon block root) are compared with what the specification prescribes, and the set of engine queries made must be exactly the fork's verify_and_notify_new_payload sequence (block hash, versioned hashes from deneb on, notify), each once.",
    chnote + " A cancellation after the last poll of a transition is unobservable by any caller and not claimed.", "exhaustive fault-point enumeration (every context poll x every engine verdict vector) on the implementation", "DESIGN.md 3/C18")

add("C17", "model_checking",
    "Controlled cooperative scheduler over the REAL components (every Lock/RLock of the sync shim and every operation boundary is a scheduling point) + stateless DFS over all interleavings of 17 three-thread harnesses (fork-choice wrapper, pubkey cache incl. lazily decompressed keys and forked handles, the five pools; 1-2 colliding calls per thread) with iterative preemption bounding (<=2 quick, <=3 thorough); per complete schedule: deadlock check and brute-force linearizability of the recorded call/return history against the same object run sequentially (all orders consistent with real time); the same exploration is repeated in a -race build whose token hand-off creates NO happens-before edge, so that the race verdict covers every explored schedule and sees exactly the program's own synchronisation.",
    "Trusted: the Go race detector and memory model; sequential behaviour of the components (tied to their models by C09/C16/C20). RWMutex writer preference not modelled (superset of real schedules). Unsynchronised code has no scheduling points inside: its races are found by the race pass.",
    "stateless model checking of the implementation under a controlled scheduler (iterative preemption bounding) + happens-before race detection per explored schedule", "DESIGN.md 3/C17")

ssznote = ("Trusted: internal/refssz (independent reflection-driven SSZ codec, strict decoder, merkleizer) and the refspec structs = the specification's schema "
           "(written from the specification, not derived from zrnt's field lists). Values up to the stated deviation bound per type; presets T4, odd (non-power-of-two) limits, minimal, mainnet.")
add("C04", "exploration",
    "Registry of 148 exported SSZ types (8 helper types listed as not covered) x 4 presets: the zero value, every single deviation (each leaf: 1 / max / position-unique pattern; each list length 1, 2, limit; each bitlist length 1,7,8,9,limit with all-0/all-1 bits), every pair of deviations for small types, three all-leaves-distinct values; bytes from the reference codec -> zrnt decodes, re-encodes identically, ByteLength = bytes written, FixedLength agrees with fixed/variable size, JSON and YAML round trips; malformed inputs (every proper prefix, offset fields rewritten to 0/-1/+1/len/len+1/max, limit+1 elements) must be refused wherever the strict reference decoder refuses them. Two recorded known findings (both in the ztyp dependency).",
    ssznote + " Only the three malformation classes named in the statement are demanded (trailing bytes are not).", "bounded exhaustive enumeration of values/encodings per type against a reference codec", "DESIGN.md 3/C04")
add("C05", "exploration",
    "(a) for every value of the C04 enumeration: struct HashTreeRoot = root of the tree view built from the bytes = SSZ merkleization of the specification schema (and the view re-serialises to the same bytes). (b) on the tree-backed state of each of the 6 forks: every sequence of <= 2 (quick) / 3 (thorough) mutations out of ~60 (setters, sub-view element writes, appends, resets, whole-subtree replacements, AddValidator) x every pattern of intermediate HashTreeRoot queries x root cached or not before the first mutation: cached root = root of the same content rebuilt from bytes = SSZ root. (c) every state reached by the C01/C02 explorations passes the same root comparison (chainh.Diff).",
    ssznote, "bounded exhaustive enumeration of values and of mutation sequences on the implementation against a reference merkleizer", "DESIGN.md 3/C05")
add("C15", "model_checking",
    "(a) accessor table (~65 setters / element writes / appends per fork) x 6 fork state types x 3 presets on the all-leaves-distinct state: after each call the state's bytes equal the model edited BY FIELD NAME (exactly the named field changed, nothing else) and every getter / typed sub-view read returns the model's value; getters after loading bytes likewise. (b) copy independence: state0, state1 = Copy(state0), state2 = Copy(state1); every sequence (depth bound 2 quick / 3 thorough) of mutations on any live state; after EVERY step every live state must equal its never-shared twin. Every pointer/slice argument handed to a setter is overwritten by the caller afterwards (the state must have copied it). Typed container sub-views obtained from the state's own tree (checkpoints, fork, eth1 data, block header, execution payload header): every reader method vs the model field of the same name, Raw() vs the model's bytes. (c) sibling copies: at every state of three base chain histories two copies (CopyState + Clone); one is advanced by each menu deviation and two epoch transitions; original and untouched sibling are re-checked (state bytes, cached root, whole context vs from-scratch), then vice versa.",
    ssznote, "explicit enumeration of operation sequences on the implementation, lock-step with a reference model (twin states)", "DESIGN.md 3/C15")

claimed = {c["property_id"] for c in checks}
na = [{"property_id": "C%02d" % i, "reason": "check not built yet (work in progress; same technique planned, see DESIGN.md section 3)"}
      for i in range(1, 21) if "C%02d" % i not in claimed]
m = {"version": 1,
     "setup_cmd": "./setup.sh",
     "hooks": {"guard": "verif",
               "enable": "go build -overlay /verif/.build/overlay/overlay.json (generated from the current /repo sources by tools/genoverlay.py: rewrites the \"sync\" import of 7 files to a shim package supplied as a virtual directory; nothing is committed to /repo)",
               "baseline_off_cmd": "cd /repo && go test -mod=mod -vet=off -count=1 ./...",
               "source_commits": [], "add_only": True},
     "engines": [
         {"name": "seqx", "path": "internal/seqx", "serves_properties": ["C09", "C10", "C11", "C16", "C20"],
          "kind_free_text": "explicit-state BFS over operation sequences on the real object, replay-from-root, exact state merging on (model state, full private-state dump)"},
         {"name": "chainx", "path": "internal/chainx, internal/chainh, internal/refspec, internal/refssz", "serves_properties": ["C01", "C02", "C03", "C07", "C08", "C12", "C13", "C14", "C18"],
          "kind_free_text": "deviation-bounded exhaustive explorer over beacon-chain histories; real zrnt transition vs reference specification model on every step"},
         {"name": "schedx", "path": "internal/schedx, internal/concx, tools/shim", "serves_properties": ["C17"],
          "kind_free_text": "controlled scheduler + DFS over thread interleavings with preemption bounding; linearizability by brute force; -race pass with HB-free hand-off"},
         {"name": "enumx", "path": "internal/numx, internal/shufx, internal/sszx, internal/statex, internal/forkx", "serves_properties": ["C04", "C05", "C06", "C13", "C14", "C15", "C19"],
          "kind_free_text": "bounded exhaustive enumeration of input shapes/values against reference implementations"}],
     "checks": checks,
     "not_applicable": na,
     "notes": "See DESIGN.md. Known findings and fixed defects: known_findings.json."}
json.dump(m, open('/verif/MANIFEST.json', 'w'), indent=1)
print("claimed:", sorted(claimed))
