// Package verifsync is a drop-in replacement for the parts of "sync" that zrnt uses.
// It is supplied to the build as a *virtual* package through `go build -overlay`
// (see tools/genoverlay.py); nothing of it is committed to /repo.
//
// Every lock operation is announced to Hook before it is performed (acquire) or after
// it is performed (release).  Hook == nil  =>  plain stdlib behaviour.
package verifsync

import (
	"sync"
	"unsafe"
)

const (
	OpLock = iota
	OpUnlock
	OpRLock
	OpRUnlock
)

// Hooker is implemented by the harness (sequential would-block detector, or the
// cooperative scheduler of schedx).
type Hooker interface {
	// Acquire is called BEFORE a Lock/RLock is performed on the real mutex. It returns when the
	// operation may proceed without blocking (scheduler), or panics (sequential detector).
	Acquire(m unsafe.Pointer, op int)
	// Release is called AFTER an Unlock/RUnlock has been performed on the real mutex.
	Release(m unsafe.Pointer, op int)
}

// Hook is set by the harness before any instrumented code runs, and never concurrently with it.
var Hook Hooker

type Locker = sync.Locker
type Once = sync.Once
type WaitGroup = sync.WaitGroup
type Pool = sync.Pool
type Map = sync.Map
type Cond = sync.Cond

func NewCond(l Locker) *Cond { return sync.NewCond(l) }

type Mutex struct {
	mu sync.Mutex
}

func (m *Mutex) Lock() {
	if h := Hook; h != nil {
		h.Acquire(unsafe.Pointer(m), OpLock)
	}
	m.mu.Lock()
}

func (m *Mutex) Unlock() {
	m.mu.Unlock()
	if h := Hook; h != nil {
		h.Release(unsafe.Pointer(m), OpUnlock)
	}
}

func (m *Mutex) TryLock() bool { return m.mu.TryLock() }

type RWMutex struct {
	mu sync.RWMutex
}

func (m *RWMutex) Lock() {
	if h := Hook; h != nil {
		h.Acquire(unsafe.Pointer(m), OpLock)
	}
	m.mu.Lock()
}

func (m *RWMutex) Unlock() {
	m.mu.Unlock()
	if h := Hook; h != nil {
		h.Release(unsafe.Pointer(m), OpUnlock)
	}
}

func (m *RWMutex) RLock() {
	if h := Hook; h != nil {
		h.Acquire(unsafe.Pointer(m), OpRLock)
	}
	m.mu.RLock()
}

func (m *RWMutex) RUnlock() {
	m.mu.RUnlock()
	if h := Hook; h != nil {
		h.Release(unsafe.Pointer(m), OpRUnlock)
	}
}

func (m *RWMutex) TryLock() bool  { return m.mu.TryLock() }
func (m *RWMutex) TryRLock() bool { return m.mu.TryRLock() }

type rlocker RWMutex

func (r *rlocker) Lock()   { (*RWMutex)(r).RLock() }
func (r *rlocker) Unlock() { (*RWMutex)(r).RUnlock() }

func (m *RWMutex) RLocker() Locker { return (*rlocker)(m) }
