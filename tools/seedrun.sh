#!/bin/bash
# seedrun.sh <seed dir> <tier> <check id>...
# Runs the given checks against /repo HEAD + <seed dir>/patch.diff. The patch is applied in a scratch worktree of /repo
# (outside /repo and /verif, removed afterwards) and the checks are built against it (VERIF_REPO), so several seeded
# changes can be evaluated in parallel and /repo's own working tree is never touched. Evidence and replays of these
# runs go to .build/seedout/<name>/ (VERIF_OUT), never to evidence/.
# Prints one line per check: "<seed> <id> <tier> rc=<n> violations=<k> first=<signature>".
set -u
VR="$(cd "$(dirname "$0")/.." && pwd)"
d="$(cd "$1" && pwd)"; tier="$2"; shift 2
name="$(basename "$d")"
WT="/tmp/seedrun.$name.$$"
git -C /repo worktree add -q --detach "$WT" HEAD || exit 2
trap 'git -C /repo worktree remove --force "$WT" 2>/dev/null; git -C /repo worktree prune' EXIT
git -C "$WT" apply "$d/patch.diff" || { echo "$name: patch does not apply"; exit 2; }
export VERIF_REPO="$WT" VERIF_OUT="$VR/.build/seedout/$name"
mkdir -p "$VERIF_OUT"
for id in "$@"; do
  out="$VERIF_OUT/$id-$tier.log"
  "$VR/run.sh" "$id" "$tier" > "$out" 2>&1; rc=$?
  n=$(grep -c '^VIOLATION' "$out")
  first=$(grep -m1 'signature:' "$out" | sed 's/^ *signature: //')
  echo "$name $id $tier rc=$rc violations=$n first=$first"
done
