#!/bin/bash
# seedmatrix.sh [tier] — every seeded change against its own property's check and the related checks; 3 in parallel.
cd "$(dirname "$0")/.."
tier=${1:-quick}
rel() { case $1 in
 C01) echo c01 c02;; C02) echo c02 c01;; C03) echo c03 c01;; C04) echo c04 c05;; C05) echo c05 c15;; C06) echo c06 c07;;
 C07) echo c07 c01;; C08) echo c08 c01 c16;; C09) echo c09 c11;; C10) echo c10 c09 c17;; C11) echo c11 c10;; C12) echo c12;;
 C13) echo c13 c01;; C14) echo c14 c12;; C15) echo c15 c08;; C16) echo c16 c08;; C17) echo c17 c10 c20;; C18) echo c18 c01;;
 C19) echo c19;; C20) echo c20 c17;; esac; }
for d in seeded/C*-${SEEDSET:-*}; do n=$(basename $d); echo "$n $(rel ${n%%-*})"; done | xargs -P ${SEEDPAR:-3} -L1 sh -c 'tools/seedrun.sh seeded/$0 '$tier' "$@"'
