#!/bin/bash
# tools/mut.sh <file-relative-to-/repo> <python-regex-old> <new> <property> : apply a one-off textual mutant to /repo,
# run the quick check, print the verdict lines, ALWAYS restore /repo.
set -u
f=/repo/$1; old=$2; new=$3; prop=$4
cd /repo || exit 2
if ! git diff --quiet; then echo "/repo has uncommitted changes, refusing"; exit 2; fi
python3 - "$f" "$old" "$new" <<'P'
import sys,re
f,old,new=sys.argv[1:4]
s=open(f).read()
if old not in s:
    print("MUTANT PATTERN NOT FOUND"); sys.exit(3)
open(f,'w').write(s.replace(old,new,1))
P
rc=$?
if [ $rc -ne 0 ]; then git checkout -- .; exit $rc; fi
( . /verif/env.sh; cd /repo && go build ./... 2>&1 | head -5 )
( cd /verif && VERIF_BUDGET_S=${VERIF_BUDGET_S:-120} ./run.sh $prop 2>&1 | grep -A2 "^VIOLATION\|^KNOWN\|violation(s)\|BUILD" | head -${LINES_OUT:-12} )
cd /repo && git checkout -- .
