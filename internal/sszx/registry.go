// Package sszx: C04 / C05 — registry of zrnt's exported SSZ types paired with the specification's
// schema (refspec structs / refssz tags), bounded-exhaustive value enumeration, codec and root checks.
package sszx

import (
	"github.com/protolambda/zrnt/eth2/beacon/altair"
	"github.com/protolambda/zrnt/eth2/beacon/bellatrix"
	"github.com/protolambda/zrnt/eth2/beacon/capella"
	"github.com/protolambda/zrnt/eth2/beacon/common"
	"github.com/protolambda/zrnt/eth2/beacon/deneb"
	"github.com/protolambda/zrnt/eth2/beacon/electra"
	"github.com/protolambda/zrnt/eth2/beacon/phase0"
	"github.com/protolambda/ztyp/view"

	r "verif/internal/refspec"
)

type Row struct {
	Name string
	New  func() interface{} // pointer to a fresh zrnt value
	Ref  interface{}        // pointer to a value of the reference (schema) type
	Tag  string             // refssz tag for non-struct top-level types
	View func(spec *common.Spec) view.TypeDef
}

type u64 = uint64

func vt(t view.TypeDef) func(*common.Spec) view.TypeDef {
	return func(*common.Spec) view.TypeDef { return t }
}

// Registry: one row per exported SSZ type (types with a Deserialize method under eth2/beacon).
func Registry() []Row {
	return []Row{
		// ---- common basic / fixed types
		{"common.Slot", func() interface{} { return new(common.Slot) }, new(u64), "", nil},
		{"common.Epoch", func() interface{} { return new(common.Epoch) }, new(u64), "", nil},
		{"common.Gwei", func() interface{} { return new(common.Gwei) }, new(u64), "", nil},
		{"common.ValidatorIndex", func() interface{} { return new(common.ValidatorIndex) }, new(u64), "", nil},
		{"common.CommitteeIndex", func() interface{} { return new(common.CommitteeIndex) }, new(u64), "", nil},
		{"common.DepositIndex", func() interface{} { return new(common.DepositIndex) }, new(u64), "", nil},
		{"common.WithdrawalIndex", func() interface{} { return new(common.WithdrawalIndex) }, new(u64), "", nil},
		{"common.Timestamp", func() interface{} { return new(common.Timestamp) }, new(u64), "", nil},
		{"common.SeqNr", func() interface{} { return new(common.SeqNr) }, new(u64), "", nil},
		{"common.Ping", func() interface{} { return new(common.Ping) }, new(u64), "", nil},
		{"common.Pong", func() interface{} { return new(common.Pong) }, new(u64), "", nil},
		{"common.Goodbye", func() interface{} { return new(common.Goodbye) }, new(u64), "", nil},
		{"common.Version", func() interface{} { return new(common.Version) }, new([4]byte), "", nil},
		{"common.ForkDigest", func() interface{} { return new(common.ForkDigest) }, new([4]byte), "", nil},
		{"common.BLSDomainType", func() interface{} { return new(common.BLSDomainType) }, new([4]byte), "", nil},
		{"common.NetworkMessageDomain", func() interface{} { return new(common.NetworkMessageDomain) }, new([4]byte), "", nil},
		{"common.BLSDomain", func() interface{} { return new(common.BLSDomain) }, new([32]byte), "", nil},
		{"common.BLSPubkey", func() interface{} { return new(common.BLSPubkey) }, new([48]byte), "", vt(common.BLSPubkeyType)},
		{"common.BLSSignature", func() interface{} { return new(common.BLSSignature) }, new([96]byte), "", vt(common.BLSSignatureType)},
		{"common.KZGCommitment", func() interface{} { return new(common.KZGCommitment) }, new([48]byte), "", vt(common.KZGCommitmentType)},
		{"common.Eth1Address", func() interface{} { return new(common.Eth1Address) }, new([20]byte), "", nil},
		{"common.LogsBloom", func() interface{} { return new(common.LogsBloom) }, new([256]byte), "", vt(common.LogsBloomType)},
		{"common.JustificationBits", func() interface{} { return new(common.JustificationBits) }, new([]bool), "bitvector,len=4", vt(common.JustificationBitsType)},
		{"common.AttnetBits", func() interface{} { return new(common.AttnetBits) }, new([]bool), "bitvector,len=64", nil},
		{"common.SyncnetBits", func() interface{} { return new(common.SyncnetBits) }, new([]bool), "bitvector,len=4", nil},
		{"common.ExtraData", func() interface{} { return new(common.ExtraData) }, new([]byte), "bytelist,limit=32", vt(common.ExtraDataType)},
		{"common.DepositProof", func() interface{} { return new(common.DepositProof) }, new([]r.Root), "vector,len=33", vt(common.DepositProofType)},
		// ---- common containers
		{"common.Fork", func() interface{} { return new(common.Fork) }, new(r.Fork), "", vt(common.ForkType)},
		{"common.ForkData", func() interface{} { return new(common.ForkData) }, new(r.ForkData), "", vt(common.ForkDataType)},
		{"common.SigningData", func() interface{} { return new(common.SigningData) }, new(r.SigningData), "", vt(common.SigningDataType)},
		{"common.Checkpoint", func() interface{} { return new(common.Checkpoint) }, new(r.Checkpoint), "", vt(common.CheckpointType)},
		{"common.Eth1Data", func() interface{} { return new(common.Eth1Data) }, new(r.Eth1Data), "", vt(common.Eth1DataType)},
		{"common.BeaconBlockHeader", func() interface{} { return new(common.BeaconBlockHeader) }, new(r.BeaconBlockHeader), "", vt(common.BeaconBlockHeaderType)},
		{"common.SignedBeaconBlockHeader", func() interface{} { return new(common.SignedBeaconBlockHeader) }, new(r.SignedBeaconBlockHeader), "", vt(common.SignedBeaconBlockHeaderType)},
		{"common.DepositMessage", func() interface{} { return new(common.DepositMessage) }, new(r.DepositMessage), "", vt(common.DepositMessageType)},
		{"common.DepositData", func() interface{} { return new(common.DepositData) }, new(r.DepositData), "", vt(common.DepositDataType)},
		{"common.Deposit", func() interface{} { return new(common.Deposit) }, new(r.Deposit), "", vt(common.DepositType)},
		{"common.Withdrawal", func() interface{} { return new(common.Withdrawal) }, new(r.Withdrawal), "", vt(common.WithdrawalType)},
		{"common.Withdrawals", func() interface{} { return new(common.Withdrawals) }, new([]r.Withdrawal), "list,limit=MAX_WITHDRAWALS_PER_PAYLOAD", func(s *common.Spec) view.TypeDef { return common.WithdrawalsType(s) }},
		{"common.BLSToExecutionChange", func() interface{} { return new(common.BLSToExecutionChange) }, new(r.BLSToExecutionChange), "", vt(common.BLSToExecutionChangeType)},
		{"common.SignedBLSToExecutionChange", func() interface{} { return new(common.SignedBLSToExecutionChange) }, new(r.SignedBLSToExecutionChange), "", vt(common.SignedBLSToExecutionChangeType)},
		{"common.SignedBLSToExecutionChanges", func() interface{} { return new(common.SignedBLSToExecutionChanges) }, new([]r.SignedBLSToExecutionChange), "list,limit=MAX_BLS_TO_EXECUTION_CHANGES", func(s *common.Spec) view.TypeDef { return common.BlockSignedBLSToExecutionChangesType(s) }},
		{"common.SyncCommittee", func() interface{} { return new(common.SyncCommittee) }, new(r.SyncCommittee), "", func(s *common.Spec) view.TypeDef { return common.SyncCommitteeType(s) }},
		{"common.SyncCommitteePubkeys", func() interface{} { return new(common.SyncCommitteePubkeys) }, new([]r.Pubkey), "vector,len=SYNC_COMMITTEE_SIZE", func(s *common.Spec) view.TypeDef { return common.SyncCommitteePubkeysType(s) }},
		{"common.Transaction", func() interface{} { return new(common.Transaction) }, new([]byte), "bytelist,limit=MAX_BYTES_PER_TRANSACTION", func(s *common.Spec) view.TypeDef { return common.TransactionType(s) }},
		{"common.PayloadTransactions", func() interface{} { return new(common.PayloadTransactions) }, new([][]byte), "list,limit=MAX_TRANSACTIONS_PER_PAYLOAD;bytelist,limit=MAX_BYTES_PER_TRANSACTION", func(s *common.Spec) view.TypeDef { return common.PayloadTransactionsType(s) }},
		{"common.CommitteeIndices", func() interface{} { return new(common.CommitteeIndices) }, new([]u64), "list,limit=MAX_VALIDATORS_PER_COMMITTEE", nil},
		{"common.Status", func() interface{} { return new(common.Status) }, new(r.Status), "", nil},
		{"common.MetaData", func() interface{} { return new(common.MetaData) }, new(r.MetaData), "", nil},
		{"common.Eth2Data", func() interface{} { return new(common.Eth2Data) }, new(r.ENRForkID), "", nil},
		{"common.DepositRequest", func() interface{} { return new(common.DepositRequest) }, new(r.DepositRequest), "", vt(common.DepositRequestType)},
		{"common.WithdrawalRequest", func() interface{} { return new(common.WithdrawalRequest) }, new(r.WithdrawalRequest), "", vt(common.WithdrawalRequestType)},
		{"common.ConsolidationRequest", func() interface{} { return new(common.ConsolidationRequest) }, new(r.ConsolidationRequest), "", vt(common.ConsolidationRequestType)},
		{"common.DepositRequests", func() interface{} { return new(common.DepositRequests) }, new([]r.DepositRequest), "list,limit=MAX_DEPOSIT_REQUESTS_PER_PAYLOAD", func(s *common.Spec) view.TypeDef { return common.DepositRequestsType(s) }},
		{"common.WithdrawalRequests", func() interface{} { return new(common.WithdrawalRequests) }, new([]r.WithdrawalRequest), "list,limit=MAX_WITHDRAWAL_REQUESTS_PER_PAYLOAD", func(s *common.Spec) view.TypeDef { return common.WithdrawalRequestsType(s) }},
		{"common.ConsolidationRequests", func() interface{} { return new(common.ConsolidationRequests) }, new([]r.ConsolidationRequest), "list,limit=MAX_CONSOLIDATION_REQUESTS_PER_PAYLOAD", func(s *common.Spec) view.TypeDef { return common.ConsolidationRequestsType(s) }},
		{"common.PendingDeposit", func() interface{} { return new(common.PendingDeposit) }, new(r.PendingDeposit), "", vt(common.PendingDepositType)},
		{"common.PendingPartialWithdrawal", func() interface{} { return new(common.PendingPartialWithdrawal) }, new(r.PendingPartialWithdrawal), "", vt(common.PendingPartialWithdrawalType)},
		{"common.PendingConsolidation", func() interface{} { return new(common.PendingConsolidation) }, new(r.PendingConsolidation), "", vt(common.PendingConsolidationType)},
		{"common.PendingDeposits", func() interface{} { return new(common.PendingDeposits) }, new([]r.PendingDeposit), "list,limit=PENDING_DEPOSITS_LIMIT", func(s *common.Spec) view.TypeDef { return common.PendingDepositsType(s) }},
		{"common.PendingPartialWithdrawals", func() interface{} { return new(common.PendingPartialWithdrawals) }, new([]r.PendingPartialWithdrawal), "list,limit=PENDING_PARTIAL_WITHDRAWALS_LIMIT", func(s *common.Spec) view.TypeDef { return common.PendingPartialWithdrawalsType(s) }},
		{"common.PendingConsolidations", func() interface{} { return new(common.PendingConsolidations) }, new([]r.PendingConsolidation), "list,limit=PENDING_CONSOLIDATIONS_LIMIT", func(s *common.Spec) view.TypeDef { return common.PendingConsolidationsType(s) }},
		// ---- phase0
		{"phase0.Validator", func() interface{} { return new(phase0.Validator) }, new(r.Validator), "", vt(phase0.ValidatorType)},
		{"phase0.AttestationData", func() interface{} { return new(phase0.AttestationData) }, new(r.AttestationData), "", vt(phase0.AttestationDataType)},
		{"phase0.AttestationBits", func() interface{} { return new(phase0.AttestationBits) }, new([]bool), "bitlist,limit=MAX_VALIDATORS_PER_COMMITTEE", func(s *common.Spec) view.TypeDef { return phase0.AttestationBitsType(s) }},
		{"phase0.Attestation", func() interface{} { return new(phase0.Attestation) }, new(r.Attestation), "", func(s *common.Spec) view.TypeDef { return phase0.AttestationType(s) }},
		{"phase0.Attestations", func() interface{} { return new(phase0.Attestations) }, new([]r.Attestation), "list,limit=MAX_ATTESTATIONS", func(s *common.Spec) view.TypeDef { return phase0.BlockAttestationsType(s) }},
		{"phase0.IndexedAttestation", func() interface{} { return new(phase0.IndexedAttestation) }, new(r.IndexedAttestation), "", func(s *common.Spec) view.TypeDef { return phase0.IndexedAttestationType(s) }},
		{"phase0.PendingAttestation", func() interface{} { return new(phase0.PendingAttestation) }, new(r.PendingAttestation), "", func(s *common.Spec) view.TypeDef { return phase0.PendingAttestationType(s) }},
		{"phase0.PendingAttestations", func() interface{} { return new(phase0.PendingAttestations) }, new([]r.PendingAttestation), "list,limit=PENDING_ATTESTATIONS_LIMIT", func(s *common.Spec) view.TypeDef { return phase0.PendingAttestationsType(s) }},
		{"phase0.AttesterSlashing", func() interface{} { return new(phase0.AttesterSlashing) }, new(r.AttesterSlashing), "", func(s *common.Spec) view.TypeDef { return phase0.AttesterSlashingType(s) }},
		{"phase0.AttesterSlashings", func() interface{} { return new(phase0.AttesterSlashings) }, new([]r.AttesterSlashing), "list,limit=MAX_ATTESTER_SLASHINGS", func(s *common.Spec) view.TypeDef { return phase0.BlockAttesterSlashingsType(s) }},
		{"phase0.ProposerSlashing", func() interface{} { return new(phase0.ProposerSlashing) }, new(r.ProposerSlashing), "", vt(phase0.ProposerSlashingType)},
		{"phase0.ProposerSlashings", func() interface{} { return new(phase0.ProposerSlashings) }, new([]r.ProposerSlashing), "list,limit=MAX_PROPOSER_SLASHINGS", func(s *common.Spec) view.TypeDef { return phase0.BlockProposerSlashingsType(s) }},
		{"phase0.Deposits", func() interface{} { return new(phase0.Deposits) }, new([]r.Deposit), "list,limit=MAX_DEPOSITS", func(s *common.Spec) view.TypeDef { return phase0.BlockDepositsType(s) }},
		{"phase0.VoluntaryExit", func() interface{} { return new(phase0.VoluntaryExit) }, new(r.VoluntaryExit), "", vt(phase0.VoluntaryExitType)},
		{"phase0.SignedVoluntaryExit", func() interface{} { return new(phase0.SignedVoluntaryExit) }, new(r.SignedVoluntaryExit), "", vt(phase0.SignedVoluntaryExitType)},
		{"phase0.VoluntaryExits", func() interface{} { return new(phase0.VoluntaryExits) }, new([]r.SignedVoluntaryExit), "list,limit=MAX_VOLUNTARY_EXITS", func(s *common.Spec) view.TypeDef { return phase0.BlockVoluntaryExitsType(s) }},
		{"phase0.Eth1DataVotes", func() interface{} { return new(phase0.Eth1DataVotes) }, new([]r.Eth1Data), "list,limit=ETH1_DATA_VOTES_LIMIT", func(s *common.Spec) view.TypeDef { return phase0.Eth1DataVotesType(s) }},
		{"phase0.HistoricalBatchRoots", func() interface{} { return new(phase0.HistoricalBatchRoots) }, new([]r.Root), "vector,len=SLOTS_PER_HISTORICAL_ROOT", func(s *common.Spec) view.TypeDef { return phase0.BatchRootsType(s) }},
		{"phase0.HistoricalBatch", func() interface{} { return new(phase0.HistoricalBatch) }, new(r.HistoricalBatch), "", func(s *common.Spec) view.TypeDef { return phase0.HistoricalBatchType(s) }},
		{"phase0.HistoricalRoots", func() interface{} { return new(phase0.HistoricalRoots) }, new([]r.Root), "list,limit=HISTORICAL_ROOTS_LIMIT", func(s *common.Spec) view.TypeDef { return phase0.HistoricalRootsType(s) }},
		{"phase0.RandaoMixes", func() interface{} { return new(phase0.RandaoMixes) }, new([]r.Root), "vector,len=EPOCHS_PER_HISTORICAL_VECTOR", func(s *common.Spec) view.TypeDef { return phase0.RandaoMixesType(s) }},
		{"phase0.SlashingsHistory", func() interface{} { return new(phase0.SlashingsHistory) }, new([]u64), "vector,len=EPOCHS_PER_SLASHINGS_VECTOR", func(s *common.Spec) view.TypeDef { return phase0.SlashingsType(s) }},
		{"phase0.Balances", func() interface{} { return new(phase0.Balances) }, new([]u64), "list,limit=VALIDATOR_REGISTRY_LIMIT", func(s *common.Spec) view.TypeDef { return phase0.RegistryBalancesType(s) }},
		{"phase0.ValidatorRegistry", func() interface{} { return new(phase0.ValidatorRegistry) }, new([]r.Validator), "list,limit=VALIDATOR_REGISTRY_LIMIT", func(s *common.Spec) view.TypeDef { return phase0.ValidatorsRegistryType(s) }},
		{"phase0.AggregateAndProof", func() interface{} { return new(phase0.AggregateAndProof) }, new(r.AggregateAndProof), "", nil},
		{"phase0.SignedAggregateAndProof", func() interface{} { return new(phase0.SignedAggregateAndProof) }, new(r.SignedAggregateAndProof), "", nil},
		{"phase0.BeaconBlockBody", func() interface{} { return new(phase0.BeaconBlockBody) }, new(r.BeaconBlockBodyPhase0), "", func(s *common.Spec) view.TypeDef { return phase0.BeaconBlockBodyType(s) }},
		{"phase0.BeaconBlock", func() interface{} { return new(phase0.BeaconBlock) }, new(r.BeaconBlockPhase0), "", func(s *common.Spec) view.TypeDef { return phase0.BeaconBlockType(s) }},
		{"phase0.SignedBeaconBlock", func() interface{} { return new(phase0.SignedBeaconBlock) }, new(r.SignedBeaconBlockPhase0), "", func(s *common.Spec) view.TypeDef { return phase0.SignedBeaconBlockType(s) }},
		{"phase0.BeaconState", func() interface{} { return new(phase0.BeaconState) }, new(r.BeaconStatePhase0), "", func(s *common.Spec) view.TypeDef { return phase0.BeaconStateType(s) }},
		// ---- altair
		{"altair.ParticipationFlags", func() interface{} { return new(altair.ParticipationFlags) }, new(uint8), "", nil},
		{"altair.ParticipationRegistry", func() interface{} { return new(altair.ParticipationRegistry) }, new([]uint8), "list,limit=VALIDATOR_REGISTRY_LIMIT", func(s *common.Spec) view.TypeDef { return altair.ParticipationRegistryType(s) }},
		{"altair.InactivityScores", func() interface{} { return new(altair.InactivityScores) }, new([]u64), "list,limit=VALIDATOR_REGISTRY_LIMIT", func(s *common.Spec) view.TypeDef { return altair.InactivityScoresType(s) }},
		{"altair.SyncCommitteeBits", func() interface{} { return new(altair.SyncCommitteeBits) }, new([]bool), "bitvector,len=SYNC_COMMITTEE_SIZE", func(s *common.Spec) view.TypeDef { return altair.SyncCommitteeBitsType(s) }},
		{"altair.SyncCommitteeSubnetBits", func() interface{} { return new(altair.SyncCommitteeSubnetBits) }, new([]bool), "bitvector,len=SYNC_SUBCOMMITTEE_SIZE", func(s *common.Spec) view.TypeDef { return altair.SyncCommitteeSubnetBitsType(s) }},
		{"altair.SyncAggregate", func() interface{} { return new(altair.SyncAggregate) }, new(r.SyncAggregate), "", func(s *common.Spec) view.TypeDef { return altair.SyncAggregateType(s) }},
		{"altair.SyncCommitteeMessage", func() interface{} { return new(altair.SyncCommitteeMessage) }, new(r.SyncCommitteeMessage), "", vt(altair.SyncCommitteeMessageType)},
		{"altair.SyncCommitteeContribution", func() interface{} { return new(altair.SyncCommitteeContribution) }, new(r.SyncCommitteeContribution), "", func(s *common.Spec) view.TypeDef { return altair.SyncCommitteeContributionType(s) }},
		{"altair.ContributionAndProof", func() interface{} { return new(altair.ContributionAndProof) }, new(r.ContributionAndProof), "", func(s *common.Spec) view.TypeDef { return altair.ContributionAndProofType(s) }},
		{"altair.SignedContributionAndProof", func() interface{} { return new(altair.SignedContributionAndProof) }, new(r.SignedContributionAndProof), "", func(s *common.Spec) view.TypeDef { return altair.SignedContributionAndProofType(s) }},
		{"altair.SyncAggregatorSelectionData", func() interface{} { return new(altair.SyncAggregatorSelectionData) }, new(r.SyncAggregatorSelectionData), "", vt(altair.SyncAggregatorSelectionDataType)},
		{"altair.SyncCommitteeProofBranch", func() interface{} { return new(altair.SyncCommitteeProofBranch) }, new([]r.Root), "vector,len=5", vt(altair.SyncCommitteeProofBranchType)},
		{"altair.FinalizedRootProofBranch", func() interface{} { return new(altair.FinalizedRootProofBranch) }, new([]r.Root), "vector,len=6", vt(altair.FinalizedRootProofBranchType)},
		{"altair.LightClientSnapshot", func() interface{} { return new(altair.LightClientSnapshot) }, new(r.LightClientSnapshot), "", func(s *common.Spec) view.TypeDef { return altair.LightClientSnapshotType(s) }},
		{"altair.LightClientUpdate", func() interface{} { return new(altair.LightClientUpdate) }, new(r.LightClientUpdate), "", func(s *common.Spec) view.TypeDef { return altair.LightClientUpdateType(s) }},
		{"altair.BeaconBlockBody", func() interface{} { return new(altair.BeaconBlockBody) }, new(r.BeaconBlockBodyAltair), "", func(s *common.Spec) view.TypeDef { return altair.BeaconBlockBodyType(s) }},
		{"altair.BeaconBlock", func() interface{} { return new(altair.BeaconBlock) }, new(r.BeaconBlockAltair), "", func(s *common.Spec) view.TypeDef { return altair.BeaconBlockType(s) }},
		{"altair.SignedBeaconBlock", func() interface{} { return new(altair.SignedBeaconBlock) }, new(r.SignedBeaconBlockAltair), "", func(s *common.Spec) view.TypeDef { return altair.SignedBeaconBlockType(s) }},
		{"altair.BeaconState", func() interface{} { return new(altair.BeaconState) }, new(r.BeaconStateAltair), "", func(s *common.Spec) view.TypeDef { return altair.BeaconStateType(s) }},
		// ---- bellatrix
		{"bellatrix.ExecutionPayload", func() interface{} { return new(bellatrix.ExecutionPayload) }, new(r.ExecutionPayloadBellatrix), "", func(s *common.Spec) view.TypeDef { return bellatrix.ExecutionPayloadType(s) }},
		{"bellatrix.ExecutionPayloadHeader", func() interface{} { return new(bellatrix.ExecutionPayloadHeader) }, new(r.ExecutionPayloadHeaderBellatrix), "", vt(bellatrix.ExecutionPayloadHeaderType)},
		{"bellatrix.BeaconBlockBody", func() interface{} { return new(bellatrix.BeaconBlockBody) }, new(r.BeaconBlockBodyBellatrix), "", func(s *common.Spec) view.TypeDef { return bellatrix.BeaconBlockBodyType(s) }},
		{"bellatrix.BeaconBlockBodyShallow", func() interface{} { return new(bellatrix.BeaconBlockBodyShallow) }, new(r.BeaconBlockBodyShallowBellatrix), "", nil},
		{"bellatrix.BeaconBlock", func() interface{} { return new(bellatrix.BeaconBlock) }, new(r.BeaconBlockBellatrix), "", func(s *common.Spec) view.TypeDef { return bellatrix.BeaconBlockType(s) }},
		{"bellatrix.SignedBeaconBlock", func() interface{} { return new(bellatrix.SignedBeaconBlock) }, new(r.SignedBeaconBlockBellatrix), "", func(s *common.Spec) view.TypeDef { return bellatrix.SignedBeaconBlockType(s) }},
		{"bellatrix.BeaconState", func() interface{} { return new(bellatrix.BeaconState) }, new(r.BeaconStateBellatrix), "", func(s *common.Spec) view.TypeDef { return bellatrix.BeaconStateType(s) }},
		// ---- capella
		{"capella.HistoricalSummary", func() interface{} { return new(capella.HistoricalSummary) }, new(r.HistoricalSummary), "", vt(capella.HistoricalSummaryType)},
		{"capella.HistoricalSummaries", func() interface{} { return new(capella.HistoricalSummaries) }, new([]r.HistoricalSummary), "list,limit=HISTORICAL_ROOTS_LIMIT", func(s *common.Spec) view.TypeDef { return capella.HistoricalSummariesType(s) }},
		{"capella.ExecutionPayload", func() interface{} { return new(capella.ExecutionPayload) }, new(r.ExecutionPayloadCapella), "", func(s *common.Spec) view.TypeDef { return capella.ExecutionPayloadType(s) }},
		{"capella.ExecutionPayloadHeader", func() interface{} { return new(capella.ExecutionPayloadHeader) }, new(r.ExecutionPayloadHeaderCapella), "", vt(capella.ExecutionPayloadHeaderType)},
		{"capella.BeaconBlockBody", func() interface{} { return new(capella.BeaconBlockBody) }, new(r.BeaconBlockBodyCapella), "", func(s *common.Spec) view.TypeDef { return capella.BeaconBlockBodyType(s) }},
		{"capella.BeaconBlock", func() interface{} { return new(capella.BeaconBlock) }, new(r.BeaconBlockCapella), "", func(s *common.Spec) view.TypeDef { return capella.BeaconBlockType(s) }},
		{"capella.SignedBeaconBlock", func() interface{} { return new(capella.SignedBeaconBlock) }, new(r.SignedBeaconBlockCapella), "", func(s *common.Spec) view.TypeDef { return capella.SignedBeaconBlockType(s) }},
		{"capella.BeaconState", func() interface{} { return new(capella.BeaconState) }, new(r.BeaconStateCapella), "", func(s *common.Spec) view.TypeDef { return capella.BeaconStateType(s) }},
		// ---- deneb
		{"deneb.KZGCommitments", func() interface{} { return new(deneb.KZGCommitments) }, new([]r.Pubkey), "list,limit=MAX_BLOB_COMMITMENTS_PER_BLOCK", func(s *common.Spec) view.TypeDef { return deneb.KZGCommitmentsType(s) }},
		{"deneb.ExecutionPayload", func() interface{} { return new(deneb.ExecutionPayload) }, new(r.ExecutionPayloadDeneb), "", func(s *common.Spec) view.TypeDef { return deneb.ExecutionPayloadType(s) }},
		{"deneb.ExecutionPayloadHeader", func() interface{} { return new(deneb.ExecutionPayloadHeader) }, new(r.ExecutionPayloadHeaderDeneb), "", vt(deneb.ExecutionPayloadHeaderType)},
		{"deneb.BeaconBlockBody", func() interface{} { return new(deneb.BeaconBlockBody) }, new(r.BeaconBlockBodyDeneb), "", func(s *common.Spec) view.TypeDef { return deneb.BeaconBlockBodyType(s) }},
		{"deneb.BeaconBlock", func() interface{} { return new(deneb.BeaconBlock) }, new(r.BeaconBlockDeneb), "", func(s *common.Spec) view.TypeDef { return deneb.BeaconBlockType(s) }},
		{"deneb.SignedBeaconBlock", func() interface{} { return new(deneb.SignedBeaconBlock) }, new(r.SignedBeaconBlockDeneb), "", func(s *common.Spec) view.TypeDef { return deneb.SignedBeaconBlockType(s) }},
		{"deneb.BeaconState", func() interface{} { return new(deneb.BeaconState) }, new(r.BeaconStateDeneb), "", func(s *common.Spec) view.TypeDef { return deneb.BeaconStateType(s) }},
		// ---- electra
		{"electra.AttestationBits", func() interface{} { return new(electra.AttestationBits) }, new([]bool), "bitlist,limit=MAX_ATTESTING_INDICES_ELECTRA", func(s *common.Spec) view.TypeDef { return electra.AttestationBitsType(s) }},
		{"electra.CommitteeBits", func() interface{} { return new(electra.CommitteeBits) }, new([]bool), "bitvector,len=MAX_COMMITTEES_PER_SLOT", func(s *common.Spec) view.TypeDef { return electra.CommitteeBitsType(s) }},
		{"electra.Attestation", func() interface{} { return new(electra.Attestation) }, new(r.AttestationElectra), "", func(s *common.Spec) view.TypeDef { return electra.AttestationType(s) }},
		{"electra.Attestations", func() interface{} { return new(electra.Attestations) }, new([]r.AttestationElectra), "list,limit=MAX_ATTESTATIONS_ELECTRA", func(s *common.Spec) view.TypeDef { return electra.BlockAttestationsType(s) }},
		{"electra.IndexedAttestation", func() interface{} { return new(electra.IndexedAttestation) }, new(r.IndexedAttestationElectra), "", func(s *common.Spec) view.TypeDef { return electra.IndexedAttestationType(s) }},
		{"electra.SingleAttestation", func() interface{} { return new(electra.SingleAttestation) }, new(r.SingleAttestation), "", vt(electra.SingleAttestationType)},
		{"electra.AttesterSlashing", func() interface{} { return new(electra.AttesterSlashing) }, new(r.AttesterSlashingElectra), "", func(s *common.Spec) view.TypeDef { return electra.AttesterSlashingType(s) }},
		{"electra.AttesterSlashings", func() interface{} { return new(electra.AttesterSlashings) }, new([]r.AttesterSlashingElectra), "list,limit=MAX_ATTESTER_SLASHINGS_ELECTRA", func(s *common.Spec) view.TypeDef { return electra.BlockAttesterSlashingsType(s) }},
		{"electra.AggregateAndProof", func() interface{} { return new(electra.AggregateAndProof) }, new(r.AggregateAndProofElectra), "", nil},
		{"electra.SignedAggregateAndProof", func() interface{} { return new(electra.SignedAggregateAndProof) }, new(r.SignedAggregateAndProofElectra), "", nil},
		{"electra.ExecutionRequests", func() interface{} { return new(electra.ExecutionRequests) }, new(r.ExecutionRequests), "", func(s *common.Spec) view.TypeDef { return electra.ExecutionRequestsType(s) }},
		{"electra.BeaconBlockBody", func() interface{} { return new(electra.BeaconBlockBody) }, new(r.BeaconBlockBodyElectra), "", func(s *common.Spec) view.TypeDef { return electra.BeaconBlockBodyType(s) }},
		{"electra.BeaconBlock", func() interface{} { return new(electra.BeaconBlock) }, new(r.BeaconBlockElectra), "", func(s *common.Spec) view.TypeDef { return electra.BeaconBlockType(s) }},
		{"electra.SignedBeaconBlock", func() interface{} { return new(electra.SignedBeaconBlock) }, new(r.SignedBeaconBlockElectra), "", func(s *common.Spec) view.TypeDef { return electra.SignedBeaconBlockType(s) }},
		{"electra.BeaconState", func() interface{} { return new(electra.BeaconState) }, new(r.BeaconStateElectra), "", func(s *common.Spec) view.TypeDef { return electra.BeaconStateType(s) }},
	}
}

// NotInRegistry: exported types with a Deserialize method that have no row, with the reason.
var NotInRegistry = map[string]string{
	"common.specObj":                 "internal wrapper that forwards to the wrapped SpecObj (covered through every spec-parametrised row)",
	"common.Deltas":                  "zrnt-internal helper (rewards/penalties lists), not a specification type",
	"common.GweiList":                "zrnt-internal helper list without a specification schema",
	"common.SlotCommitteeIndices":    "zrnt-internal helper list without a specification schema",
	"phase0.RegistryIndices":         "zrnt-internal helper list without a specification schema",
	"capella.BeaconBlockBodyShallow": "same layout rule as bellatrix.BeaconBlockBodyShallow; zrnt-internal proof helper",
	"deneb.BeaconBlockBodyShallow":   "zrnt-internal proof helper",
	"electra.BeaconBlockBodyShallow": "zrnt-internal proof helper",
}
