package sszx

import (
	"bytes"
	"encoding/binary"
	"encoding/json"
	"fmt"
	"reflect"
	"runtime"
	"strings"
	"sync"
	"sync/atomic"

	"github.com/protolambda/zrnt/eth2/beacon/common"
	"github.com/protolambda/ztyp/codec"
	"github.com/protolambda/ztyp/tree"
	"gopkg.in/yaml.v3"

	"verif/internal/core"
	"verif/internal/refssz"
)

// ParamsOf: every named constant the schema tags use, from a zrnt spec.
var paramsMemo sync.Map

// ParamsOf: memoised per spec pointer (the returned map is shared and must not be modified).
func ParamsOf(s *common.Spec) refssz.Params {
	if v, ok := paramsMemo.Load(s); ok {
		return v.(refssz.Params)
	}
	p := paramsOf(s)
	v, _ := paramsMemo.LoadOrStore(s, p)
	return v.(refssz.Params)
}

func paramsOf(s *common.Spec) refssz.Params {
	return refssz.Params{
		"MAX_VALIDATORS_PER_COMMITTEE": uint64(s.MAX_VALIDATORS_PER_COMMITTEE), "SLOTS_PER_HISTORICAL_ROOT": uint64(s.SLOTS_PER_HISTORICAL_ROOT),
		"HISTORICAL_ROOTS_LIMIT": uint64(s.HISTORICAL_ROOTS_LIMIT), "ETH1_DATA_VOTES_LIMIT": uint64(s.EPOCHS_PER_ETH1_VOTING_PERIOD) * uint64(s.SLOTS_PER_EPOCH),
		"VALIDATOR_REGISTRY_LIMIT": uint64(s.VALIDATOR_REGISTRY_LIMIT), "EPOCHS_PER_HISTORICAL_VECTOR": uint64(s.EPOCHS_PER_HISTORICAL_VECTOR),
		"EPOCHS_PER_SLASHINGS_VECTOR": uint64(s.EPOCHS_PER_SLASHINGS_VECTOR), "PENDING_ATTESTATIONS_LIMIT": uint64(s.MAX_ATTESTATIONS) * uint64(s.SLOTS_PER_EPOCH),
		"MAX_PROPOSER_SLASHINGS": uint64(s.MAX_PROPOSER_SLASHINGS), "MAX_ATTESTER_SLASHINGS": uint64(s.MAX_ATTESTER_SLASHINGS), "MAX_ATTESTATIONS": uint64(s.MAX_ATTESTATIONS),
		"MAX_DEPOSITS": uint64(s.MAX_DEPOSITS), "MAX_VOLUNTARY_EXITS": uint64(s.MAX_VOLUNTARY_EXITS), "SYNC_COMMITTEE_SIZE": uint64(s.SYNC_COMMITTEE_SIZE),
		"SYNC_SUBCOMMITTEE_SIZE": uint64(s.SYNC_COMMITTEE_SIZE) / 4, "BYTES_PER_LOGS_BLOOM": 256, "MAX_EXTRA_DATA_BYTES": 32,
		"MAX_TRANSACTIONS_PER_PAYLOAD": uint64(s.MAX_TRANSACTIONS_PER_PAYLOAD), "MAX_BYTES_PER_TRANSACTION": uint64(s.MAX_BYTES_PER_TRANSACTION),
		"MAX_WITHDRAWALS_PER_PAYLOAD": uint64(s.MAX_WITHDRAWALS_PER_PAYLOAD), "MAX_BLS_TO_EXECUTION_CHANGES": uint64(s.MAX_BLS_TO_EXECUTION_CHANGES),
		"MAX_BLOB_COMMITMENTS_PER_BLOCK": uint64(s.MAX_BLOB_COMMITMENTS_PER_BLOCK), "MAX_COMMITTEES_PER_SLOT": uint64(s.MAX_COMMITTEES_PER_SLOT),
		"MAX_ATTESTING_INDICES_ELECTRA":  uint64(s.MAX_VALIDATORS_PER_COMMITTEE) * uint64(s.MAX_COMMITTEES_PER_SLOT),
		"MAX_ATTESTER_SLASHINGS_ELECTRA": uint64(s.MAX_ATTESTER_SLASHINGS_ELECTRA), "MAX_ATTESTATIONS_ELECTRA": uint64(s.MAX_ATTESTATIONS_ELECTRA),
		"MAX_DEPOSIT_REQUESTS_PER_PAYLOAD": uint64(s.MAX_DEPOSIT_REQUESTS_PER_PAYLOAD), "MAX_WITHDRAWAL_REQUESTS_PER_PAYLOAD": uint64(s.MAX_WITHDRAWAL_REQUESTS_PER_PAYLOAD),
		"MAX_CONSOLIDATION_REQUESTS_PER_PAYLOAD": uint64(s.MAX_CONSOLIDATION_REQUESTS_PER_PAYLOAD), "PENDING_DEPOSITS_LIMIT": uint64(s.PENDING_DEPOSITS_LIMIT),
		"PENDING_PARTIAL_WITHDRAWALS_LIMIT": uint64(s.PENDING_PARTIAL_WITHDRAWALS_LIMIT), "PENDING_CONSOLIDATIONS_LIMIT": uint64(s.PENDING_CONSOLIDATIONS_LIMIT),
	}
}

// ---- uniform access to a zrnt SSZ value (spec-parametrised or not)

type specObj interface {
	Deserialize(spec *common.Spec, dr *codec.DecodingReader) error
	Serialize(spec *common.Spec, w *codec.EncodingWriter) error
	ByteLength(spec *common.Spec) uint64
	FixedLength(spec *common.Spec) uint64
	HashTreeRoot(spec *common.Spec, h tree.HashFn) common.Root
}
type plainObj interface {
	Deserialize(dr *codec.DecodingReader) error
	Serialize(w *codec.EncodingWriter) error
	ByteLength() uint64
	FixedLength() uint64
	HashTreeRoot(h tree.HashFn) common.Root
}

type zv struct {
	v    interface{}
	spec *common.Spec
}

func (z zv) kind() string {
	switch z.v.(type) {
	case specObj:
		return "spec"
	case plainObj:
		return "plain"
	}
	return ""
}
func (z zv) deserialize(b []byte) error {
	dr := codec.NewDecodingReader(bytes.NewReader(b), uint64(len(b)))
	if o, ok := z.v.(specObj); ok {
		return o.Deserialize(z.spec, dr)
	}
	return z.v.(plainObj).Deserialize(dr)
}
func (z zv) serialize() ([]byte, error) {
	var buf bytes.Buffer
	w := codec.NewEncodingWriter(&buf)
	var err error
	if o, ok := z.v.(specObj); ok {
		err = o.Serialize(z.spec, w)
	} else {
		err = z.v.(plainObj).Serialize(w)
	}
	return buf.Bytes(), err
}
func (z zv) byteLength() uint64 {
	if o, ok := z.v.(specObj); ok {
		return o.ByteLength(z.spec)
	}
	return z.v.(plainObj).ByteLength()
}
func (z zv) fixedLength() uint64 {
	if o, ok := z.v.(specObj); ok {
		return o.FixedLength(z.spec)
	}
	return z.v.(plainObj).FixedLength()
}
func (z zv) root() common.Root {
	if o, ok := z.v.(specObj); ok {
		return o.HashTreeRoot(z.spec, tree.GetHashFn())
	}
	return z.v.(plainObj).HashTreeRoot(tree.GetHashFn())
}

type Stats struct {
	Values       int64 // distinct (type, preset, value) cases through the codec
	NonZero      int64
	InvalidTried int64 // malformed encodings presented
	InvalidRef   int64 // ... of which the strict reference decoder rejects (zrnt must too)
	Types        int
	ViewRoots    int64
	TextTrips    int64
}

type Preset struct {
	Name string
	Spec *common.Spec
}

func safely(f func()) (pm string) {
	defer func() {
		if r := recover(); r != nil {
			pm = fmt.Sprint(r)
		}
	}()
	f()
	return
}

// CheckAll: C04 and C05(a) over the whole registry. prop selects which findings are reported.
var allPresets []Preset

func CheckAll(run *core.Run, prop string, presets []Preset, pairsBelow int, maxLen uint64, st *Stats) {
	allPresets = presets
	rows := Registry()
	st.Types = len(rows)
	type job struct {
		row Row
		ps  Preset
	}
	var jobs []job
	for _, ps := range presets {
		for _, row := range rows {
			jobs = append(jobs, job{row, ps})
		}
	}
	var next int64 = -1
	var wg sync.WaitGroup
	for wk := 0; wk < runtime.NumCPU(); wk++ {
		wg.Add(1)
		go func() {
			defer wg.Done()
			for {
				i := atomic.AddInt64(&next, 1)
				if i >= int64(len(jobs)) {
					return
				}
				if run.Expired() {
					run.CapHit("time budget")
					return
				}
				checkRow(run, prop, jobs[i].row, jobs[i].ps, pairsBelow, maxLen, st)
			}
		}()
	}
	wg.Wait()
}

var nilHashesAsDefault = map[string]bool{"altair.SyncCommitteeBits": true, "electra.CommitteeBits": true, "altair.SyncAggregate": true}

func checkRow(run *core.Run, prop string, row Row, ps Preset, pairsBelow int, maxLen uint64, st *Stats) {
	P := ParamsOf(ps.Spec)
	gen := refssz.NewGen(row.Ref, row.Tag, P, maxLen)
	rep := func(p, sig, msg string, desc string) {
		if p != prop {
			return
		}
		run.Report(p+"/"+sig+"/"+row.Name, fmt.Sprintf("%s, preset %s, value %s: %s", row.Name, ps.Name, desc, msg),
			map[string]interface{}{"engine": "enumx", "type": row.Name, "preset": ps.Name, "value": desc})
	}
	if (zv{row.New(), ps.Spec}).kind() == "" {
		rep("C04", "registry", "the zrnt type does not offer the five SSZ methods in either form", "-")
		return
	}
	refFixed, isFixed := gen.FixedSize()
	pairs := gen.NumLeaves() < pairsBelow
	first := true
	// The Go zero value of the zrnt type (nil slices, as in `altair.SyncAggregate{}`): wherever zrnt itself treats it
	// as the SSZ default value — it serialises to the bytes of the zero value — its struct root must be the root of
	// that value too.
	{
		zero := gen.Zero()
		zenc, zroot := gen.Encode(zero), gen.Root(zero)
		z := zv{row.New(), ps.Spec}
		var out []byte
		var serr error
		pmS := safely(func() { out, serr = z.serialize() })
		asDefault := pmS == "" && serr == nil && bytes.Equal(out, zenc)
		// types whose HashTreeRoot documents the convention "a nil bitvector hashes as the preset's default value"
		// (sync_bits.go, committee_bits.go), and the aggregate that consists of such a field and a fixed array
		if nilHashesAsDefault[row.Name] {
			asDefault = true
		}
		if asDefault {
			var gotRoot common.Root
			if pm := safely(func() { gotRoot = z.root() }); pm != "" {
				rep("C05", "panic/HashTreeRoot", "panic: "+pm, "Go zero value (nil slices)")
			} else if gotRoot != common.Root(zroot) {
				rep("C05", "struct-root", fmt.Sprintf("the Go zero value serialises to the default value's bytes but its struct HashTreeRoot = %s, SSZ merkleization gives %x", gotRoot, zroot), "Go zero value (nil slices)")
			}
			if bl := z.byteLength(); prop == "C04" && bl != uint64(len(zenc)) {
				rep("C04", "ByteLength", fmt.Sprintf("ByteLength() = %d, %d bytes were written", bl, len(zenc)), "Go zero value (nil slices)")
			}
		}
	}
	// A receiver that already holds a value decoded under ANOTHER preset (an object taken from a pool, a variable
	// reused in a loop): decoding must replace its content completely — a preset-sized vector that was longer must
	// not keep a stale tail.
	recycled := func(enc []byte, desc string) {
		// Only for preset-sized vector types: their Deserialize methods resize the receiver to the preset's length
		// explicitly. List types APPEND to the receiver by library convention (a fresh receiver is expected), which
		// the property does not speak about.
		if prop != "C04" || !(strings.HasPrefix(row.Tag, "vector,") || strings.HasPrefix(row.Tag, "bitvector,")) {
			return
		}
		for _, other := range allPresets {
			if other.Name == ps.Name {
				continue
			}
			og := refssz.NewGen(row.Ref, row.Tag, ParamsOf(other.Spec), maxLen)
			oenc := og.Encode(og.Distinct(7, 3))
			if len(oenc) > 1<<16 {
				continue
			}
			dirty := zv{row.New(), other.Spec}
			if safely(func() { _ = dirty.deserialize(oenc) }) != "" {
				continue
			}
			z := zv{dirty.v, ps.Spec}
			var derr error
			if pm := safely(func() { derr = z.deserialize(enc) }); pm != "" {
				rep("C04", "panic/Deserialize-into-used-receiver", "panic: "+pm, desc+", receiver previously decoded under preset "+other.Name)
				continue
			}
			if derr != nil {
				continue // refusals are judged on a fresh receiver
			}
			out, serr := z.serialize()
			if serr != nil || !bytes.Equal(out, enc) {
				rep("C04", "roundtrip/used-receiver", fmt.Sprintf("decoding into a receiver that held a value of preset %s, then encoding, gives different bytes (%d vs %d bytes, first difference at %d; err %v)", other.Name, len(out), len(enc), firstDiffAt(out, enc), serr), desc)
			} else if bl := z.byteLength(); bl != uint64(len(enc)) {
				rep("C04", "ByteLength/used-receiver", fmt.Sprintf("ByteLength() = %d after decoding %d bytes into a used receiver (preset %s before)", bl, len(enc), other.Name), desc)
			}
		}
	}
	nRecycled := 0
	gen.Values(pairs, func(desc string, ptr reflect.Value) {
		atomic.AddInt64(&st.Values, 1)
		if desc != "zero" {
			atomic.AddInt64(&st.NonZero, 1)
		}
		enc := gen.Encode(ptr)
		wantRoot := gen.Root(ptr)
		z := zv{row.New(), ps.Spec}
		var derr error
		if pm := safely(func() { derr = z.deserialize(enc) }); pm != "" {
			rep("C04", "panic/Deserialize", "panic: "+pm, desc)
			return
		}
		if derr != nil && strings.Contains(derr.Error(), "bitlist is too big") {
			rep("C04", "decode-valid/bitlist-at-limit", fmt.Sprintf("a bitlist holding exactly its limit of bits (limit a multiple of 8) is refused: %v", derr), desc)
			return
		}
		if derr != nil {
			rep("C04", "decode-valid", fmt.Sprintf("the canonical encoding (%d bytes) of a value within the type's limits is refused: %v", len(enc), derr), desc)
			return
		}
		var out []byte
		var serr error
		if pm := safely(func() { out, serr = z.serialize() }); pm != "" || serr != nil {
			rep("C04", "serialize", fmt.Sprintf("Serialize fails: %v %s", serr, pm), desc)
			return
		}
		if !bytes.Equal(out, enc) {
			rep("C04", "roundtrip", fmt.Sprintf("decode then encode gives different bytes (first difference at offset %d of %d/%d)", firstDiffAt(out, enc), len(out), len(enc)), desc)
			return
		}
		if bl := z.byteLength(); bl != uint64(len(enc)) {
			rep("C04", "ByteLength", fmt.Sprintf("ByteLength() = %d, %d bytes were written", bl, len(enc)), desc)
		}
		if nRecycled < 3 && len(enc) <= 1<<16 {
			nRecycled++
			recycled(enc, desc)
		}
		fl := z.fixedLength()
		if isFixed && fl != refFixed {
			rep("C04", "FixedLength", fmt.Sprintf("FixedLength() = %d for a fixed-size type of %d bytes", fl, refFixed), desc)
		}
		if !isFixed && fl != 0 {
			rep("C04", "FixedLength", fmt.Sprintf("FixedLength() = %d for a variable-size type (must be 0)", fl), desc)
		}
		// C05(a): struct root = SSZ spec root = tree-view root
		var gotRoot common.Root
		if pm := safely(func() { gotRoot = z.root() }); pm != "" {
			rep("C05", "panic/HashTreeRoot", "panic: "+pm, desc)
		} else if gotRoot != common.Root(wantRoot) {
			rep("C05", "struct-root", fmt.Sprintf("struct HashTreeRoot = %s, SSZ merkleization of the schema gives %x", gotRoot, wantRoot), desc)
		}
		if row.View != nil {
			atomic.AddInt64(&st.ViewRoots, 1)
			var vr common.Root
			var verr error
			pm := safely(func() {
				td := row.View(ps.Spec)
				v, err := td.Deserialize(codec.NewDecodingReader(bytes.NewReader(enc), uint64(len(enc))))
				if err != nil {
					verr = err
					return
				}
				vr = v.HashTreeRoot(tree.GetHashFn())
				// and the view serialises back to the same bytes
				var buf bytes.Buffer
				if err := v.Serialize(codec.NewEncodingWriter(&buf)); err != nil {
					verr = err
				} else if !bytes.Equal(buf.Bytes(), enc) {
					verr = fmt.Errorf("view serialises to different bytes (first difference at %d)", firstDiffAt(buf.Bytes(), enc))
				}
			})
			if pm != "" {
				rep("C05", "panic/view", "panic: "+pm, desc)
			} else if verr != nil {
				rep("C05", "view-decode", fmt.Sprintf("tree-view form: %v", verr), desc)
			} else if vr != common.Root(wantRoot) {
				rep("C05", "view-root", fmt.Sprintf("tree-view HashTreeRoot = %s, SSZ merkleization of the schema gives %x", vr, wantRoot), desc)
			}
		}
		// text forms (cheap types and the first values of big ones)
		if prop == "C04" && (len(enc) < 4096 || first) {
			textTrip(rep, row, ps, enc, desc, st)
		}
		// malformed encodings derived from this value (bounded)
		if prop == "C04" && (len(enc) < 2048 || first) {
			invalids(rep, gen, row, ps, enc, desc, st)
		}
		first = false
	})
}

func firstDiffAt(a, b []byte) int {
	n := len(a)
	if len(b) < n {
		n = len(b)
	}
	for i := 0; i < n; i++ {
		if a[i] != b[i] {
			return i
		}
	}
	return n
}

func textTrip(rep func(p, sig, msg, desc string), row Row, ps Preset, enc []byte, desc string, st *Stats) {
	for _, form := range []string{"json", "yaml"} {
		z := zv{row.New(), ps.Spec}
		if z.deserialize(enc) != nil {
			return
		}
		atomic.AddInt64(&st.TextTrips, 1)
		z2 := zv{row.New(), ps.Spec}
		var err error
		pm := safely(func() {
			var txt []byte
			if form == "json" {
				txt, err = json.Marshal(z.v)
				if err == nil {
					err = json.Unmarshal(txt, z2.v)
				}
			} else {
				txt, err = yaml.Marshal(z.v)
				if err == nil {
					err = yaml.Unmarshal(txt, z2.v)
				}
			}
		})
		if pm != "" {
			rep("C04", "panic/"+form, "panic: "+pm, desc)
			continue
		}
		if err != nil {
			rep("C04", form+"-roundtrip", fmt.Sprintf("%s marshal/unmarshal fails: %v", form, err), desc)
			continue
		}
		out, serr := z2.serialize()
		if serr != nil || !bytes.Equal(out, enc) {
			rep("C04", form+"-roundtrip", fmt.Sprintf("%s marshal -> unmarshal gives a different value (serialize err=%v, first difference at %d)", form, serr, firstDiffAt(out, enc)), desc)
		}
	}
}

// invalids: truncations, offset corruptions and limit excess; the strict reference decoder decides
// which are malformed; where it rejects, zrnt must reject (never panic).
func invalids(rep func(p, sig, msg, desc string), gen *refssz.Gen, row Row, ps Preset, enc []byte, desc string, st *Stats) {
	try := func(kind string, b []byte) {
		atomic.AddInt64(&st.InvalidTried, 1)
		_, rerr := gen.Decode(b)
		z := zv{row.New(), ps.Spec}
		var derr error
		if pm := safely(func() { derr = z.deserialize(b) }); pm != "" {
			rep("C04", "panic/decode-malformed", fmt.Sprintf("%s: panic: %s", kind, pm), desc)
			return
		}
		if rerr != nil {
			atomic.AddInt64(&st.InvalidRef, 1)
			if derr == nil {
				cls := kind[:indexOr(kind, ' ')]
				if emptyTopLevelElement(row, b) {
					cls = "empty-element-range"
				}
				rep("C04", "malformed-accepted/"+cls, fmt.Sprintf("%s (%d bytes) is malformed (%v) but zrnt decodes it without error", kind, len(b), rerr), desc)
			}
		}
	}
	// every proper prefix (bounded: all for small encodings, a grid for larger ones)
	step := 1
	if len(enc) > 300 {
		step = len(enc) / 150
	}
	for n := 0; n < len(enc); n += step {
		try("truncated to a proper prefix", enc[:n])
	}
	if len(enc) > 0 {
		try("truncated by one byte", enc[:len(enc)-1])
		// (trailing extra bytes are not one of the three classes the statement names: not demanded)
	}
	// offsets: every 4-byte aligned position in the first 256 bytes that currently holds a plausible offset
	lim := len(enc)
	if lim > 512 {
		lim = 512
	}
	for pos := 0; pos+4 <= lim; pos += 4 {
		cur := binary.LittleEndian.Uint32(enc[pos:])
		if cur == 0 || int(cur) > len(enc) {
			continue
		}
		for _, nv := range []uint32{0, cur - 1, cur + 1, uint32(len(enc)), uint32(len(enc)) + 1, ^uint32(0)} {
			if nv == cur {
				continue
			}
			b := append([]byte{}, enc...)
			binary.LittleEndian.PutUint32(b[pos:], nv)
			try(fmt.Sprintf("offset-like field at byte %d changed from %d to %d", pos, cur, nv), b)
		}
	}
}

// emptyTopLevelElement: b is the encoding of a top-level list of variable-size elements in which
// some element has an empty byte range (two equal consecutive offsets, or the last offset = length).
func emptyTopLevelElement(row Row, b []byte) bool {
	if !strings.HasPrefix(row.Tag, "list,") || len(b) < 4 {
		return false
	}
	first := binary.LittleEndian.Uint32(b)
	if first%4 != 0 || first == 0 || int(first) > len(b) {
		return false
	}
	n := int(first / 4)
	prev := first
	for i := 1; i <= n; i++ {
		next := uint32(len(b))
		if i < n {
			next = binary.LittleEndian.Uint32(b[4*i:])
		}
		if next == prev {
			return true
		}
		prev = next
	}
	return false
}

func indexOr(s string, c byte) int {
	for i := 0; i < len(s); i++ {
		if s[i] == c {
			return i
		}
	}
	return len(s)
}

// LimitExcess: for every list / bitlist type of the registry, an encoding with limit+1 elements
// (built with the limit raised by one in the reference) must be refused.
func LimitExcess(run *core.Run, presets []Preset, st *Stats) {
	for _, ps := range presets {
		P := ParamsOf(ps.Spec)
		for _, row := range Registry() {
			rt := reflect.TypeOf(row.Ref).Elem()
			if rt.Kind() != reflect.Slice || row.Tag == "" {
				continue
			}
			kind := row.Tag[:indexOr(row.Tag, ',')]
			if kind != "list" && kind != "bitlist" && kind != "bytelist" {
				continue
			}
			// resolve the limit
			gen := refssz.NewGen(row.Ref, row.Tag, P, 0)
			_ = gen
			limName := ""
			head := row.Tag[:indexOr(row.Tag, ';')]
			for _, part := range splitComma(head) {
				if len(part) > 6 && part[:6] == "limit=" {
					limName = part[6:]
				}
			}
			lim, ok := P[limName]
			if !ok {
				fmt.Sscan(limName, &lim)
			}
			if lim == 0 || lim > 1<<16 {
				continue // cannot materialise limit+1 elements
			}
			P2 := refssz.Params{}
			for k, v := range P {
				P2[k] = v
			}
			P2["__LIM"] = lim + 1
			tag2 := replaceLimit(row.Tag, limName, "__LIM")
			g2 := refssz.NewGen(row.Ref, tag2, P2, 0)
			v := g2.Distinct(5, int(lim+1))
			enc := g2.Encode(v)
			atomic.AddInt64(&st.InvalidTried, 1)
			atomic.AddInt64(&st.InvalidRef, 1)
			z := zv{row.New(), ps.Spec}
			var derr error
			pm := safely(func() { derr = z.deserialize(enc) })
			if pm != "" {
				run.Report("C04/panic/decode-over-limit/"+row.Name, fmt.Sprintf("%s, preset %s: %d elements (limit %d): panic %s", row.Name, ps.Name, lim+1, lim, pm), nil)
			} else if derr == nil {
				run.Report("C04/over-limit-accepted/"+row.Name, fmt.Sprintf("%s, preset %s: an encoding with %d elements is accepted although the limit is %d", row.Name, ps.Name, lim+1, lim),
					map[string]interface{}{"engine": "enumx", "type": row.Name, "preset": ps.Name, "elements": lim + 1, "limit": lim})
			}
		}
	}
}

func splitComma(s string) []string {
	var out []string
	cur := ""
	for i := 0; i < len(s); i++ {
		if s[i] == ',' {
			out = append(out, cur)
			cur = ""
		} else {
			cur += string(s[i])
		}
	}
	return append(out, cur)
}

func replaceLimit(tag, old, new string) string {
	head := tag[:indexOr(tag, ';')]
	rest := tag[len(head):]
	parts := splitComma(head)
	for i, p := range parts {
		if p == "limit="+old {
			parts[i] = "limit=" + new
		}
	}
	out := parts[0]
	for _, p := range parts[1:] {
		out += "," + p
	}
	return out + rest
}
