// Package concx: the C17 harnesses — 2-3 threads, 1-2 calls each, forced to collide on the same keys,
// on the real fork-choice wrapper, pubkey cache (incl. lazily decompressed keys) and pools.
package concx

import (
	"context"
	"fmt"
	"sort"
	"strings"

	blsu "github.com/protolambda/bls12-381-util"
	"github.com/protolambda/zrnt/eth2/beacon/altair"
	"github.com/protolambda/zrnt/eth2/beacon/common"
	"github.com/protolambda/zrnt/eth2/beacon/phase0"
	"github.com/protolambda/zrnt/eth2/configs"
	"github.com/protolambda/zrnt/eth2/forkchoice"
	"github.com/protolambda/zrnt/eth2/forkchoice/proto"
	"github.com/protolambda/zrnt/eth2/pool"

	"verif/internal/schedx"
)

var spec = func() *common.Spec {
	c := *configs.Mainnet
	c.SLOTS_PER_EPOCH = 2
	c.SYNC_COMMITTEE_SIZE = 8
	return &c
}()

func root(b byte) (r common.Root) {
	for i := range r {
		r[i] = b
	}
	return
}

func guard(f func() string) (out string) {
	defer func() {
		if r := recover(); r != nil {
			// scheduler aborts must propagate
			if fmt.Sprintf("%T", r) == "schedx.abortSignal" {
				panic(r)
			}
			out = fmt.Sprintf("PANIC(%v)", r)
		}
	}()
	return f()
}

// ---------------------------------------------------------------- fork choice

var (
	rA, rB, rC, rD, rX = root(0x50), root(0x20), root(0x80), root(0x30), root(0x60)
)

// newFC: A@0 - B@1 - C@2(epoch 1 start) ; D@1 sibling of B. Balances 10,10.
func newFC() interface{} {
	fin := common.Checkpoint{Root: rA, Epoch: 0}
	fc, err := proto.NewProtoForkChoice(spec, fin, fin, rA, 0, root(1), []common.Gwei{10, 10, 10}, proto.NodeSinkFn(func(context.Context, forkchoice.NodeRef, bool) error { return nil }))
	if err != nil {
		panic(err)
	}
	fc.ProcessBlock(rA, rB, 1, 0, 0)
	fc.ProcessBlock(rA, rD, 1, 0, 0)
	fc.ProcessBlock(rB, rC, 2, 0, 0)
	fc.Head()
	return fc
}

// newFCViable: newFC plus X@3 on C that already carries justified/finalized epoch 1, so that a head exists after
// the store finalizes C/1 (and the pinned anchor A@0 is pruned).
func newFCViable() interface{} {
	fc := newFC().(forkchoice.Forkchoice)
	fc.ProcessBlock(rC, rX, 3, 1, 1)
	fc.Head()
	return fc
}

func head(o interface{}) string {
	return guard(func() string {
		h, err := o.(forkchoice.Forkchoice).Head()
		if err != nil {
			return "err: " + err.Error() // the kind of failure is part of the observable result
		}
		return fmt.Sprintf("%x@%d", h.Root[:1], h.Slot)
	})
}

func fcHarnesses() []*schedx.Harness {
	fc := func(o interface{}) forkchoice.Forkchoice { return o.(forkchoice.Forkchoice) }
	vote := func(v common.ValidatorIndex, r common.Root, s common.Slot) schedx.Op {
		return schedx.Op{Name: fmt.Sprintf("Vote(%d,%x@%d)", v, r[:1], s), Do: func(o interface{}) string {
			return guard(func() string { return fmt.Sprint(fc(o).ProcessAttestation(v, r, s)) })
		}}
	}
	block := func(p, r common.Root, s common.Slot) schedx.Op {
		return schedx.Op{Name: fmt.Sprintf("Block(%x on %x @%d)", r[:1], p[:1], s), Do: func(o interface{}) string {
			return guard(func() string { return fmt.Sprint(fc(o).ProcessBlock(p, r, s, 0, 0)) })
		}}
	}
	headOp := schedx.Op{Name: "Head", Do: head}
	inSub := func(a, r common.Root) schedx.Op {
		return schedx.Op{Name: fmt.Sprintf("InSubtree(%x,%x)", a[:1], r[:1]), Do: func(o interface{}) string {
			return guard(func() string { u, in := fc(o).InSubtree(a, r); return fmt.Sprint(u, in) })
		}}
	}
	uj := schedx.Op{Name: "UpdateJustified(J=C/1,F=A/0)", Do: func(o interface{}) string {
		return guard(func() string {
			err := fc(o).UpdateJustified(context.Background(), rC, common.Checkpoint{Root: rC, Epoch: 1}, common.Checkpoint{Root: rA, Epoch: 0}, func() ([]common.Gwei, error) { return []common.Gwei{10, 7, 10}, nil })
			return fmt.Sprint(err == nil)
		})
	}}
	ujFin := schedx.Op{Name: "UpdateJustified(J=C/1,F=C/1)", Do: func(o interface{}) string {
		return guard(func() string {
			err := fc(o).UpdateJustified(context.Background(), rC, common.Checkpoint{Root: rC, Epoch: 1}, common.Checkpoint{Root: rC, Epoch: 1}, func() ([]common.Gwei, error) { return []common.Gwei{10, 7, 10}, nil })
			return fmt.Sprint(err == nil)
		})
	}}
	setPin := schedx.Op{Name: "SetPin(B@1)", Do: func(o interface{}) string {
		return guard(func() string { return fmt.Sprint(fc(o).SetPin(rB, 1) == nil) })
	}}
	pin := schedx.Op{Name: "Pin", Do: func(o interface{}) string {
		return guard(func() string {
			p := fc(o).Pin()
			if p == nil {
				return "nil"
			}
			return fmt.Sprintf("%x@%d", p.Root[:1], p.Slot)
		})
	}}
	findHead := schedx.Op{Name: "FindHead(A@0)", Do: func(o interface{}) string {
		return guard(func() string {
			h, err := fc(o).FindHead(rA, 0)
			if err != nil {
				return "err"
			}
			return fmt.Sprintf("%x@%d", h.Root[:1], h.Slot)
		})
	}}
	search := schedx.Op{Name: "Search(A@0,parent=B)", Do: func(o interface{}) string {
		return guard(func() string {
			p := rB
			nc, c, err := fc(o).Search(forkchoice.NodeRef{Root: rA, Slot: 0}, &p, nil)
			return fmt.Sprint(len(nc), len(c), err == nil)
		})
	}}
	slotOp := schedx.Op{Name: "ProcessSlot(C,3)", Do: func(o interface{}) string {
		return guard(func() string { fc(o).ProcessSlot(rC, 3, 0, 0); return "ok" })
	}}
	getSlot := schedx.Op{Name: "GetSlot(X)", Do: func(o interface{}) string {
		return guard(func() string { s, ok := fc(o).GetSlot(rX); return fmt.Sprint(s, ok) })
	}}
	justified := schedx.Op{Name: "Justified+Finalized", Do: func(o interface{}) string {
		return guard(func() string { return fmt.Sprint(fc(o).Justified().Epoch, fc(o).Finalized().Epoch) })
	}}
	// one call per operation: an operation made of two calls is not atomic by construction
	finalizedOp := schedx.Op{Name: "Finalized", Do: func(o interface{}) string {
		return guard(func() string { return fmt.Sprint(fc(o).Finalized().Epoch) })
	}}
	canon := schedx.Op{Name: "CanonicalChain(A@0)", Do: func(o interface{}) string {
		return guard(func() string {
			ch, err := fc(o).CanonicalChain(rA, 0)
			return fmt.Sprint(len(ch), err == nil)
		})
	}}
	return []*schedx.Harness{
		{Name: "fc/block+vote+head", New: newFC, Threads: [][]schedx.Op{{block(rC, rX, 3)}, {vote(0, rD, 1), headOp}, {headOp, getSlot}}},
		{Name: "fc/justify+head+insubtree", New: newFC, Threads: [][]schedx.Op{{uj}, {headOp, vote(1, rC, 2)}, {inSub(rA, rC), headOp}}},
		{Name: "fc/finalize+queries", New: newFC, Threads: [][]schedx.Op{{ujFin}, {canon, headOp}, {getSlot, inSub(rB, rC)}}},
		// the first finalization removes the pin and prunes the pinned anchor: a head computation must see the anchor
		// and the array in ONE critical section
		{Name: "fc/finalize-past-the-pin+heads", New: newFCViable, Threads: [][]schedx.Op{{ujFin}, {headOp, headOp}, {finalizedOp, headOp}}},
		{Name: "fc/two-voters+readers", New: newFC, Threads: [][]schedx.Op{{vote(0, rD, 1), headOp}, {vote(1, rC, 2)}, {getSlot, justified}}},
		// pending votes are folded into the weights by whichever head computation comes first: every head
		// computation is a writer
		{Name: "fc/votes+concurrent-head-computations", New: newFC, Threads: [][]schedx.Op{{vote(0, rD, 1), findHead}, {vote(1, rC, 2), findHead}, {findHead, headOp}}},
		{Name: "fc/pin", New: newFC, Threads: [][]schedx.Op{{setPin}, {pin, headOp}, {findHead}}},
		{Name: "fc/search+slot", New: newFC, Threads: [][]schedx.Op{{search, search}, {slotOp, block(rC, rX, 4)}}},
	}
}

// ---------------------------------------------------------------- pubkey cache

var realKeys = func() []common.BLSPubkey {
	var out []common.BLSPubkey
	for i := 0; i < 4; i++ {
		var b [32]byte
		b[31] = byte(i + 1)
		b[5] = 0x11
		var sk blsu.SecretKey
		if err := sk.Deserialize(&b); err != nil {
			panic(err)
		}
		pk, _ := blsu.SkToPk(&sk)
		out = append(out, common.BLSPubkey(pk.Serialize()))
	}
	return out
}()

type pkObj struct {
	root    *common.PubkeyCache
	handles [4]*common.PubkeyCache // results of AddValidator per thread
}

func newPK(prefill int) func() interface{} {
	return func() interface{} {
		pc := common.EmptyPubkeyCache()
		for i := 0; i < prefill; i++ {
			var err error
			pc, err = pc.AddValidator(common.ValidatorIndex(i), realKeys[i])
			if err != nil {
				panic(err)
			}
		}
		return &pkObj{root: pc}
	}
}

func pkHarnesses() []*schedx.Harness {
	add := func(slot int, idx common.ValidatorIndex, key int) schedx.Op {
		return schedx.Op{Name: fmt.Sprintf("AddValidator(%d,K%d)", idx, key), Do: func(o interface{}) string {
			return guard(func() string {
				p := o.(*pkObj)
				h, err := p.root.AddValidator(idx, realKeys[key])
				p.handles[slot] = h
				if err != nil {
					return "err"
				}
				if h == p.root {
					return "same"
				}
				return "forked"
			})
		}}
	}
	// what the handle returned to this thread says afterwards
	view := func(slot int) schedx.Op {
		return schedx.Op{Name: fmt.Sprintf("lookups(handle of t%d)", slot), Do: func(o interface{}) string {
			return guard(func() string {
				p := o.(*pkObj)
				h := p.handles[slot]
				if h == nil {
					return "nohandle"
				}
				var sb strings.Builder
				for i := 0; i < 3; i++ {
					pk, ok := h.Pubkey(common.ValidatorIndex(i))
					if ok {
						for k := range realKeys {
							if realKeys[k] == pk.Compressed {
								fmt.Fprintf(&sb, "%d:K%d ", i, k)
							}
						}
					}
				}
				for k := range realKeys {
					if i, ok := h.ValidatorIndex(realKeys[k]); ok {
						fmt.Fprintf(&sb, "K%d->%d ", k, i)
					}
				}
				return sb.String()
			})
		}}
	}
	pub := func(idx common.ValidatorIndex) schedx.Op {
		return schedx.Op{Name: fmt.Sprintf("Pubkey(%d)", idx), Do: func(o interface{}) string {
			return guard(func() string {
				pk, ok := o.(*pkObj).root.Pubkey(idx)
				if !ok {
					return "none"
				}
				return fmt.Sprintf("%x", pk.Compressed[:3])
			})
		}}
	}
	vidx := func(key int) schedx.Op {
		return schedx.Op{Name: fmt.Sprintf("ValidatorIndex(K%d)", key), Do: func(o interface{}) string {
			return guard(func() string { i, ok := o.(*pkObj).root.ValidatorIndex(realKeys[key]); return fmt.Sprint(i, ok) })
		}}
	}
	decompress := func(idx common.ValidatorIndex) schedx.Op {
		return schedx.Op{Name: fmt.Sprintf("Pubkey(%d).Pubkey()", idx), Do: func(o interface{}) string {
			return guard(func() string {
				pk, ok := o.(*pkObj).root.Pubkey(idx)
				if !ok {
					return "none"
				}
				p, err := pk.Pubkey()
				if err != nil || p == nil {
					return "err"
				}
				// (not serialised: kilic's ToCompressed re-normalises the shared point in place, which
				// would be a write of this harness, not of zrnt)
				return "decompressed"
			})
		}}
	}
	return []*schedx.Harness{
		{Name: "pubkeys/two-appends-same-index", New: newPK(1), Threads: [][]schedx.Op{{add(0, 1, 1), view(0)}, {add(1, 1, 2), view(1)}}},
		{Name: "pubkeys/append+lookups", New: newPK(1), Threads: [][]schedx.Op{{add(0, 1, 1)}, {pub(1), vidx(1)}, {vidx(1), pub(1)}}},
		{Name: "pubkeys/lazy-decompression", New: newPK(2), Threads: [][]schedx.Op{{decompress(0)}, {decompress(0)}, {decompress(0), decompress(1)}}},
		{Name: "pubkeys/fork-reads-parent-during-append", New: func() interface{} {
			p := newPK(2)().(*pkObj)
			child, err := p.root.AddValidator(1, realKeys[2]) // conflicting pair: fork trusting index 0
			if err != nil || child == p.root {
				panic("expected a fork")
			}
			p.handles[3] = child
			return p
		}, Threads: [][]schedx.Op{{add(0, 2, 3)}, {view(3)}, {pub(2), view(3)}}},
	}
}

// ---------------------------------------------------------------- pools

func mkAtt(bits byte, data byte, sig byte) (*phase0.Attestation, common.CommitteeIndices) {
	d := phase0.AttestationData{Slot: 2, Index: 0, BeaconBlockRoot: root(data), Target: common.Checkpoint{Epoch: 1, Root: root(data)}}
	a := &phase0.Attestation{AggregationBits: phase0.AttestationBits{bits | 0x08}, Data: d}
	for i := range a.Signature {
		a.Signature[i] = sig
	}
	return a, common.CommitteeIndices{10, 11, 12}
}

func poolHarnesses() []*schedx.Harness {
	ctx := context.Background()
	addAtt := func(bits, data, sig byte) schedx.Op {
		return schedx.Op{Name: fmt.Sprintf("AddAttestation(bits=%03b,data=%x)", bits, data), Do: func(o interface{}) string {
			return guard(func() string {
				a, c := mkAtt(bits, data, sig)
				return fmt.Sprint(o.(*pool.AttestationPool).AddAttestation(ctx, a, c) == nil)
			})
		}}
	}
	searchAtt := schedx.Op{Name: "Search()", Do: func(o interface{}) string {
		return guard(func() string {
			var ss []string
			for _, a := range o.(*pool.AttestationPool).Search() {
				ss = append(ss, fmt.Sprintf("%x/%x", []byte(a.AggregationBits), a.Data.BeaconBlockRoot[:1]))
			}
			sort.Strings(ss)
			return strings.Join(ss, ",")
		})
	}}
	pruneAtt := schedx.Op{Name: "Prune(3)", Do: func(o interface{}) string {
		return guard(func() string { o.(*pool.AttestationPool).Prune(3); return "ok" })
	}}
	newAttPool := func() interface{} {
		p := pool.NewAttestationPool(spec)
		a, c := mkAtt(0b011, 0xa1, 1)
		if err := p.AddAttestation(ctx, a, c); err != nil {
			panic(err)
		}
		return p
	}
	exit := func(v common.ValidatorIndex) schedx.Op {
		return schedx.Op{Name: fmt.Sprintf("AddVoluntaryExit(%d)", v), Do: func(o interface{}) string {
			return guard(func() string {
				e := &phase0.SignedVoluntaryExit{Message: phase0.VoluntaryExit{Epoch: 1, ValidatorIndex: v}}
				return fmt.Sprint(o.(*pool.VoluntaryExitPool).AddVoluntaryExit(ctx, e) == nil)
			})
		}}
	}
	allExits := schedx.Op{Name: "All()", Do: func(o interface{}) string {
		return guard(func() string {
			var ss []string
			for _, e := range o.(*pool.VoluntaryExitPool).All() {
				ss = append(ss, fmt.Sprint(e.Message.ValidatorIndex))
			}
			sort.Strings(ss)
			return strings.Join(ss, ",")
		})
	}}
	ps := func(p common.ValidatorIndex) schedx.Op {
		return schedx.Op{Name: fmt.Sprintf("AddProposerSlashing(%d)", p), Do: func(o interface{}) string {
			return guard(func() string {
				s := &phase0.ProposerSlashing{}
				s.SignedHeader1.Message.ProposerIndex = p
				s.SignedHeader2.Message.ProposerIndex = p
				return fmt.Sprint(o.(*pool.ProposerSlashingPool).AddProposerSlashing(ctx, s) == nil)
			})
		}}
	}
	allPS := schedx.Op{Name: "All()", Do: func(o interface{}) string {
		return guard(func() string { return fmt.Sprint(len(o.(*pool.ProposerSlashingPool).All())) })
	}}
	as := func(v common.ValidatorIndex) schedx.Op {
		return schedx.Op{Name: fmt.Sprintf("AddAttesterSlashing(%d)", v), Do: func(o interface{}) string {
			return guard(func() string {
				s := &phase0.AttesterSlashing{}
				s.Attestation1.AttestingIndices = []common.ValidatorIndex{v}
				s.Attestation2.AttestingIndices = []common.ValidatorIndex{v}
				s.Attestation2.Data.Slot = 1
				return fmt.Sprint(o.(*pool.AttesterSlashingPool).AddAttesterSlashing(ctx, s) == nil)
			})
		}}
	}
	allAS := schedx.Op{Name: "All()", Do: func(o interface{}) string {
		return guard(func() string { return fmt.Sprint(len(o.(*pool.AttesterSlashingPool).All())) })
	}}
	syncMsg := func(slot common.Slot, v common.ValidatorIndex) schedx.Op {
		return schedx.Op{Name: fmt.Sprintf("AddSyncCommitteeMessage(slot=%d,v=%d)", slot, v), Do: func(o interface{}) string {
			return guard(func() string {
				m := &altair.SyncCommitteeMessage{Slot: slot, BeaconBlockRoot: root(0xa1), ValidatorIndex: v}
				return fmt.Sprint(o.(*pool.SyncCommitteePool).AddSyncCommitteeMessage(ctx, m) == nil)
			})
		}}
	}
	syncContrib := func(slot common.Slot) schedx.Op {
		return schedx.Op{Name: fmt.Sprintf("AddSyncCommitteeContribution(slot=%d)", slot), Do: func(o interface{}) string {
			return guard(func() string {
				c := &altair.SyncCommitteeContribution{Slot: slot, BeaconBlockRoot: root(0xa1), AggregationBits: altair.SyncCommitteeSubnetBits{3}}
				return fmt.Sprint(o.(*pool.SyncCommitteePool).AddSyncCommitteeContribution(ctx, c) == nil)
			})
		}}
	}
	reset := func(slot common.Slot) schedx.Op {
		return schedx.Op{Name: fmt.Sprintf("Reset(%d)", slot), Do: func(o interface{}) string {
			return guard(func() string { o.(*pool.SyncCommitteePool).Reset(slot); return "ok" })
		}}
	}
	newSync := func() interface{} {
		p := pool.NewSyncCommitteePool(spec)
		p.Reset(5)
		return p
	}
	return []*schedx.Harness{
		{Name: "pool/attestations add+search+prune", New: newAttPool, Threads: [][]schedx.Op{{addAtt(0b110, 0xa1, 2), addAtt(0b001, 0xb1, 3)}, {searchAtt, searchAtt}, {pruneAtt}}},
		{Name: "pool/attestations two adders", New: newAttPool, Threads: [][]schedx.Op{{addAtt(0b100, 0xa1, 2)}, {addAtt(0b100, 0xb1, 3)}, {searchAtt}}},
		{Name: "pool/exits add+all", New: func() interface{} { return pool.NewVoluntaryExitPool(spec) }, Threads: [][]schedx.Op{{exit(1), exit(2)}, {exit(1)}, {allExits, allExits}}},
		{Name: "pool/proposer-slashings add+all", New: func() interface{} { return pool.NewProposerSlashingPool(spec) }, Threads: [][]schedx.Op{{ps(1), ps(2)}, {ps(1)}, {allPS}}},
		{Name: "pool/attester-slashings add+all", New: func() interface{} { return pool.NewAttesterSlashingPool(spec) }, Threads: [][]schedx.Op{{as(1), as(2)}, {as(1)}, {allAS}}},
		{Name: "pool/sync message+reset", New: newSync, Threads: [][]schedx.Op{{syncMsg(5, 7), syncMsg(6, 7)}, {reset(6)}, {syncMsg(6, 8)}}},
		// the same slot tick delivered twice (two timers, a restart): Reset with the slot the pool is already at
		{Name: "pool/sync duplicate slot tick", New: newSync, Threads: [][]schedx.Op{{reset(5), syncMsg(5, 7)}, {reset(6), reset(6)}, {syncContrib(6)}}},
		{Name: "pool/sync contribution+reset", New: newSync, Threads: [][]schedx.Op{{syncContrib(5), syncContrib(6)}, {reset(6)}, {syncContrib(7)}}},
	}
}

func All() []*schedx.Harness {
	var out []*schedx.Harness
	out = append(out, fcHarnesses()...)
	out = append(out, pkHarnesses()...)
	out = append(out, poolHarnesses()...)
	return out
}
