// Package pkx: reference model (refcache) and seqx harness for C16 — the shared, forking pubkey cache.
package pkx

import (
	"fmt"
	"strings"

	"github.com/protolambda/zrnt/eth2/beacon/common"

	"verif/internal/dump"
	"verif/internal/seqlock"
	"verif/internal/seqx"
)

// model: every handle has an explicit history (list of key ids)
type handle struct {
	real *common.PubkeyCache
	hist []int
}

type Inst struct {
	H       *Harness
	handles []*handle
	key     string
}

type Harness struct {
	NameS      string
	NKeys      int
	MaxLen     int
	MaxHandles int
	// Arbitrary: offer every (index, key) combination (second run); otherwise only arguments
	// that deposit processing can produce plus the error/no-op/conflict classes.
	Arbitrary bool
}

func (h *Harness) Name() string { return h.NameS }

func keyOf(id int) common.BLSPubkey {
	var k common.BLSPubkey
	for i := range k {
		k[i] = byte(0xa0 + id)
	}
	k[0] = 0x80 | byte(id)
	return k
}

func keyID(k common.BLSPubkey) int { return int(k[1]) - 0xa0 }

func (h *Harness) Fresh() seqx.Instance {
	return &Inst{H: h, handles: []*handle{{real: common.EmptyPubkeyCache()}}}
}

type OpAdd struct {
	Handle int
	Index  int
	Key    int
}

func (o OpAdd) String() string { return fmt.Sprintf("AddValidator(h%d,index=%d,key=K%d)", o.Handle, o.Index, o.Key) }

func (in *Inst) Enabled() []fmt.Stringer {
	var ops []fmt.Stringer
	for hi, h := range in.handles {
		n := len(h.hist)
		if in.H.Arbitrary {
			for i := 0; i <= in.H.MaxLen; i++ {
				for k := 0; k < in.H.NKeys; k++ {
					ops = append(ops, OpAdd{hi, i, k})
				}
			}
			continue
		}
		for i := 0; i <= n+1 && i <= in.H.MaxLen; i++ {
			for k := 0; k < in.H.NKeys; k++ {
				ops = append(ops, OpAdd{hi, i, k})
			}
		}
	}
	return ops
}

func contains(h []int, k int) int {
	for i, x := range h {
		if x == k {
			return i
		}
	}
	return -1
}

const (
	resNoop = iota
	resAppend
	resFork
	resErr
	resOpen // duplicate key at a different index: not producible by deposit processing, outcome not defined
)

// modelAdd: what AddValidator(i, k) must do on history H (DESIGN.md C16).
func modelAdd(H []int, i, k int) (int, []int) {
	n := len(H)
	lim := i
	if lim > n {
		lim = n
	}
	j := contains(H[:lim], k)
	switch {
	case i < n && H[i] == k:
		return resNoop, H
	case j >= 0:
		// the key is already a validator at an EARLIER index of this history: a duplicate key, which
		// deposit processing never produces (it is a top-up); outcome not defined by the statement
		return resOpen, nil
	case i > n:
		return resErr, nil
	case i == n:
		return resAppend, append(append([]int{}, H...), k)
	default: // i < n, H[i] != k, k not before i: conflicting pair (k may exist later: other deposit order)
		return resFork, append(append([]int{}, H[:i]...), k)
	}
}

func (in *Inst) Apply(op fmt.Stringer, observe bool) (fs []seqx.Finding, outcome string) {
	o := op.(OpAdd)
	h := in.handles[o.Handle]
	res, nh := modelAdd(h.hist, o.Index, o.Key)
	var got *common.PubkeyCache
	var err error
	seqlock.SetBudget(20000)
	pm := guard(func() { got, err = h.real.AddValidator(common.ValidatorIndex(o.Index), keyOf(o.Key)) })
	seqlock.SetBudget(-1)
	add := func(sig, msg string) {
		fs = append(fs, seqx.Finding{Sig: "C16/" + sig, Msg: fmt.Sprintf("%s on history %v: %s", o, h.hist, msg)})
	}
	if pm != "" {
		if strings.Contains(pm, "does not terminate") {
			add("nontermination/AddValidator", pm)
		} else {
			add("panic/AddValidator", pm)
		}
		return fs, "panic"
	}
	switch res {
	case resNoop:
		outcome = "noop"
		if err != nil || got != h.real {
			add("known-pair-not-noop", fmt.Sprintf("known pair must be a no-op returning the same handle; got handle-same=%v err=%v", got == h.real, err))
		}
	case resAppend:
		outcome = "append"
		if err != nil || got != h.real {
			add("append-next-index", fmt.Sprintf("appending the next index must extend the same handle; got handle-same=%v err=%v", got == h.real, err))
		} else {
			h.hist = nh
		}
	case resFork:
		outcome = "fork"
		if err != nil || got == nil || got == h.real {
			add("conflict-must-fork", fmt.Sprintf("a conflicting pair must yield a NEW handle; got new=%v err=%v", got != nil && got != h.real, err))
		} else {
			in.handles = append(in.handles, &handle{real: got, hist: nh})
		}
	case resErr:
		outcome = "err"
		if err == nil {
			add("beyond-next-index-accepted", "appending beyond the next index must be an error")
		}
	case resOpen:
		outcome = "open"
		// only: terminates, no panic, existing handles undisturbed (checked below). A new handle, if
		// returned, is not tracked.
		if err == nil && got != nil && got != h.real {
			outcome = "open-newhandle"
		}
	}
	if len(fs) > 0 {
		return
	}
	if observe {
		in.key = in.mkKey()
		fs = append(fs, in.observe()...)
	}
	return
}

func guard(f func()) (pm string) {
	defer func() {
		if r := recover(); r != nil {
			if e, ok := r.(error); ok {
				pm = "panic: " + e.Error()
			} else {
				pm = fmt.Sprintf("panic: %v", r)
			}
		}
	}()
	f()
	return
}

var dumpOpts = &dump.Options{SkipFields: map[string]bool{"PubkeyCache.rwLock": true, "CachedPubkey.decompressed": true}}

func (in *Inst) mkKey() string {
	var sb strings.Builder
	for _, h := range in.handles {
		fmt.Fprintf(&sb, "%v|", h.hist)
	}
	// the private state of the real objects; parent pointers are followed by the dumper, which makes
	// the sharing structure (who forked from whom) part of the key
	for _, h := range in.handles {
		sb.WriteString(dump.String(h.real, dumpOpts))
		sb.WriteString("|")
	}
	return sb.String()
}

func (in *Inst) Key() string { return in.key }

// observe: EVERY live handle answers Pubkey(i) for all i and ValidatorIndex(k) for all keys
// exactly according to its own history.
func (in *Inst) observe() (fs []seqx.Finding) {
	for hi, h := range in.handles {
		for i := 0; i <= in.H.MaxLen+1; i++ {
			var pub *common.CachedPubkey
			var ok bool
			seqlock.SetBudget(20000)
			pm := guard(func() { pub, ok = h.real.Pubkey(common.ValidatorIndex(i)) })
			seqlock.SetBudget(-1)
			if pm != "" {
				return []seqx.Finding{{Sig: "C16/panic/Pubkey", Msg: fmt.Sprintf("h%d.Pubkey(%d): %s", hi, i, pm)}}
			}
			if i < len(h.hist) {
				if !ok || pub == nil || pub.Compressed != keyOf(h.hist[i]) {
					got := "none"
					if ok && pub != nil {
						got = fmt.Sprintf("K%d", keyID(pub.Compressed))
					}
					fs = append(fs, seqx.Finding{Sig: "C16/index-to-pubkey", Msg: fmt.Sprintf("handle h%d (history %v): Pubkey(%d) = %s, expected K%d", hi, h.hist, i, got, h.hist[i])})
				}
			} else if ok {
				fs = append(fs, seqx.Finding{Sig: "C16/index-to-pubkey/sibling-entry", Msg: fmt.Sprintf("handle h%d (history %v): Pubkey(%d) = K%d, but this history has no validator %d", hi, h.hist, i, keyID(pub.Compressed), i)})
			}
		}
		for k := 0; k < in.H.NKeys; k++ {
			var idx common.ValidatorIndex
			var ok bool
			seqlock.SetBudget(20000)
			pm := guard(func() { idx, ok = h.real.ValidatorIndex(keyOf(k)) })
			seqlock.SetBudget(-1)
			if pm != "" {
				return []seqx.Finding{{Sig: "C16/panic/ValidatorIndex", Msg: fmt.Sprintf("h%d.ValidatorIndex(K%d): %s", hi, k, pm)}}
			}
			j := contains(h.hist, k)
			if j >= 0 {
				if !ok || int(idx) != j {
					fs = append(fs, seqx.Finding{Sig: "C16/pubkey-to-index", Msg: fmt.Sprintf("handle h%d (history %v): ValidatorIndex(K%d) = (%d,%v), expected %d", hi, h.hist, k, idx, ok, j)})
				}
			} else if ok {
				fs = append(fs, seqx.Finding{Sig: "C16/pubkey-to-index/sibling-entry", Msg: fmt.Sprintf("handle h%d (history %v): ValidatorIndex(K%d) = %d, but K%d is not on this history (it exists only on a sibling history)", hi, h.hist, k, idx, k)})
			}
		}
	}
	return
}
