// Package refssz: an independent, reflection-driven implementation of SimpleSerialize
// (encoding, STRICT decoding, merkleization) over plain Go structs with `ssz` tags.
// It shares no code with ztyp / zrnt. It is the "specification's schema" side of C04/C05 and the
// serialization/hash layer of the reference state transition.
//
// Go type            tag                                   SSZ type
// uint8..uint64      -                                     uintN
// bool               -                                     boolean
// [N]byte            -                                     Vector[byte, N] (ByteVector; also uint256 little endian)
// []byte             bytelist,limit=L                      List[byte, L]
// []byte             bytevector,len=N                      Vector[byte, N]
// []T                list,limit=L                          List[T, L]
// []T                vector,len=N                          Vector[T, N]
// []bool             bitlist,limit=L                       Bitlist[L]
// []bool             bitvector,len=N                       Bitvector[N]
// struct             -                                     Container
//
// L / N are integer literals or names resolved through Params. The element of a list/vector can
// carry its own descriptor after a ';' (e.g. `list,limit=A;bytelist,limit=B`).
package refssz

import (
	"crypto/sha256"
	"encoding/binary"
	"errors"
	"fmt"
	"reflect"
	"strconv"
	"strings"
	"sync"
)

type Params map[string]uint64

const (
	kUint = iota
	kBool
	kBytesN
	kByteList
	kByteVector
	kList
	kVector
	kBitlist
	kBitvector
	kContainer
)

type desc struct {
	kind   int
	size   uint64 // uint: byte size; bytesN: N
	n      uint64 // limit or length
	elem   *desc
	fields []*desc
	names  []string
	typ    reflect.Type
}

type cacheKey struct {
	t   reflect.Type
	tag string
	p   uintptr
}

var cache sync.Map

func resolve(expr string, p Params) uint64 {
	if v, err := strconv.ParseUint(expr, 10, 64); err == nil {
		return v
	}
	v, ok := p[expr]
	if !ok {
		panic("refssz: unknown constant " + expr)
	}
	return v
}

// pinned keeps every Params map that was ever used as a cache key alive, so that its address can
// never be reused by another map (a stale descriptor with another preset's limits would be returned).
var pinned sync.Map

func describe(t reflect.Type, tag string, p Params) *desc {
	ptr := reflect.ValueOf(p).Pointer()
	if p != nil {
		if _, ok := pinned.Load(ptr); !ok {
			pinned.Store(ptr, p)
		}
	}
	key := cacheKey{t, tag, ptr}
	if d, ok := cache.Load(key); ok {
		return d.(*desc)
	}
	d := describe0(t, tag, p)
	cache.Store(key, d)
	return d
}

func describe0(t reflect.Type, tag string, p Params) *desc {
	head, rest := tag, ""
	if i := strings.Index(tag, ";"); i >= 0 {
		head, rest = tag[:i], tag[i+1:]
	}
	parts := strings.Split(head, ",")
	kindS := parts[0]
	arg := func(name string) uint64 {
		for _, q := range parts[1:] {
			if strings.HasPrefix(q, name+"=") {
				return resolve(q[len(name)+1:], p)
			}
		}
		panic(fmt.Sprintf("refssz: tag %q on %s lacks %s", tag, t, name))
	}
	switch t.Kind() {
	case reflect.Uint8, reflect.Uint16, reflect.Uint32, reflect.Uint64:
		return &desc{kind: kUint, size: uint64(t.Size()), typ: t}
	case reflect.Bool:
		return &desc{kind: kBool, size: 1, typ: t}
	case reflect.Array:
		if t.Elem().Kind() != reflect.Uint8 {
			panic("refssz: only byte arrays are supported: " + t.String())
		}
		return &desc{kind: kBytesN, size: uint64(t.Len()), typ: t}
	case reflect.Slice:
		switch kindS {
		case "bytelist":
			return &desc{kind: kByteList, n: arg("limit"), typ: t}
		case "bytevector":
			return &desc{kind: kByteVector, n: arg("len"), typ: t}
		case "list":
			return &desc{kind: kList, n: arg("limit"), elem: describe(t.Elem(), rest, p), typ: t}
		case "vector":
			return &desc{kind: kVector, n: arg("len"), elem: describe(t.Elem(), rest, p), typ: t}
		case "bitlist":
			return &desc{kind: kBitlist, n: arg("limit"), typ: t}
		case "bitvector":
			return &desc{kind: kBitvector, n: arg("len"), typ: t}
		}
		panic(fmt.Sprintf("refssz: slice type %s needs an ssz tag (got %q)", t, tag))
	case reflect.Struct:
		d := &desc{kind: kContainer, typ: t}
		for i := 0; i < t.NumField(); i++ {
			f := t.Field(i)
			if f.Tag.Get("ssz") == "-" {
				continue
			}
			d.fields = append(d.fields, describe(f.Type, f.Tag.Get("ssz"), p))
			d.names = append(d.names, f.Name)
		}
		return d
	case reflect.Ptr:
		return describe(t.Elem(), tag, p)
	}
	panic("refssz: unsupported type " + t.String())
}

// fixedSize returns (size, true) for fixed-size types.
func (d *desc) fixedSize() (uint64, bool) {
	switch d.kind {
	case kUint, kBool:
		return d.size, true
	case kBytesN:
		return d.size, true
	case kByteVector:
		return d.n, true
	case kBitvector:
		return (d.n + 7) / 8, true
	case kVector:
		if s, ok := d.elem.fixedSize(); ok {
			return s * d.n, true
		}
		return 0, false
	case kContainer:
		var tot uint64
		for _, f := range d.fields {
			s, ok := f.fixedSize()
			if !ok {
				return 0, false
			}
			tot += s
		}
		return tot, true
	}
	return 0, false
}

// FixedSize of the type of v (0,false if variable-size).
func FixedSize(v interface{}, p Params) (uint64, bool) {
	return describe(reflect.TypeOf(v), "", p).fixedSize()
}

// ---------------------------------------------------------------- encoding

func Encode(v interface{}, p Params) []byte {
	rv := reflect.ValueOf(v)
	if rv.Kind() == reflect.Ptr {
		rv = rv.Elem()
	}
	return encode(describe(rv.Type(), "", p), rv, nil)
}

func encode(d *desc, v reflect.Value, out []byte) []byte {
	switch d.kind {
	case kUint:
		var b [8]byte
		binary.LittleEndian.PutUint64(b[:], v.Uint())
		return append(out, b[:d.size]...)
	case kBool:
		if v.Bool() {
			return append(out, 1)
		}
		return append(out, 0)
	case kBytesN:
		for i := 0; i < v.Len(); i++ {
			out = append(out, byte(v.Index(i).Uint()))
		}
		return out
	case kByteList:
		if uint64(v.Len()) > d.n {
			panic(fmt.Sprintf("refssz: byte list of %d exceeds limit %d", v.Len(), d.n))
		}
		return append(out, v.Bytes()...)
	case kByteVector:
		if uint64(v.Len()) != d.n {
			panic(fmt.Sprintf("refssz: byte vector has %d bytes, expected %d", v.Len(), d.n))
		}
		return append(out, v.Bytes()...)
	case kBitvector:
		if uint64(v.Len()) != d.n {
			panic(fmt.Sprintf("refssz: bitvector has %d bits, expected %d", v.Len(), d.n))
		}
		return append(out, packBits(v, false)...)
	case kBitlist:
		if uint64(v.Len()) > d.n {
			panic("refssz: bitlist exceeds limit")
		}
		return append(out, packBits(v, true)...)
	case kList, kVector:
		if d.kind == kVector && uint64(v.Len()) != d.n {
			panic(fmt.Sprintf("refssz: vector %s has %d elements, expected %d", d.typ, v.Len(), d.n))
		}
		if d.kind == kList && uint64(v.Len()) > d.n {
			panic(fmt.Sprintf("refssz: list %s of %d exceeds limit %d", d.typ, v.Len(), d.n))
		}
		if _, ok := d.elem.fixedSize(); ok {
			for i := 0; i < v.Len(); i++ {
				out = encode(d.elem, v.Index(i), out)
			}
			return out
		}
		start := len(out)
		out = append(out, make([]byte, 4*v.Len())...)
		for i := 0; i < v.Len(); i++ {
			binary.LittleEndian.PutUint32(out[start+4*i:], uint32(len(out)-start))
			out = encode(d.elem, v.Index(i), out)
		}
		return out
	case kContainer:
		start := len(out)
		// fixed part
		type pend struct {
			pos int
			f   int
		}
		var pending []pend
		fi := 0
		for i := 0; i < v.NumField(); i++ {
			if v.Type().Field(i).Tag.Get("ssz") == "-" {
				continue
			}
			fd := d.fields[fi]
			if _, ok := fd.fixedSize(); ok {
				out = encode(fd, v.Field(i), out)
			} else {
				pending = append(pending, pend{len(out), i})
				out = append(out, 0, 0, 0, 0)
			}
			fi++
		}
		fi = 0
		idx := map[int]int{}
		for i := 0; i < v.NumField(); i++ {
			if v.Type().Field(i).Tag.Get("ssz") == "-" {
				continue
			}
			idx[i] = fi
			fi++
		}
		for _, pd := range pending {
			binary.LittleEndian.PutUint32(out[pd.pos:], uint32(len(out)-start))
			out = encode(d.fields[idx[pd.f]], v.Field(pd.f), out)
		}
		return out
	}
	panic("unreachable")
}

func packBits(v reflect.Value, delimiter bool) []byte {
	n := v.Len()
	size := (n + 7) / 8
	if delimiter {
		size = n/8 + 1
	}
	b := make([]byte, size)
	for i := 0; i < n; i++ {
		if v.Index(i).Bool() {
			b[i/8] |= 1 << uint(i%8)
		}
	}
	if delimiter {
		b[n/8] |= 1 << uint(n%8)
	}
	return b
}

// ---------------------------------------------------------------- strict decoding

var ErrTruncated = errors.New("refssz: input too short")

// Decode parses b into ptr (pointer to a value of the described type). Strict: exact consumption,
// first offset = size of the fixed part, offsets monotone and within bounds, fixed-size element
// lists divisible, list / bitlist limits, bitlist delimiter, no padding bits, booleans 0/1.
func Decode(b []byte, ptr interface{}, p Params) error {
	rv := reflect.ValueOf(ptr).Elem()
	return decode(describe(rv.Type(), "", p), b, rv)
}

func decode(d *desc, b []byte, v reflect.Value) error {
	switch d.kind {
	case kUint:
		if uint64(len(b)) != d.size {
			return fmt.Errorf("refssz: uint%d from %d bytes", d.size*8, len(b))
		}
		var buf [8]byte
		copy(buf[:], b)
		v.SetUint(binary.LittleEndian.Uint64(buf[:]))
		return nil
	case kBool:
		if len(b) != 1 || b[0] > 1 {
			return errors.New("refssz: invalid boolean")
		}
		v.SetBool(b[0] == 1)
		return nil
	case kBytesN:
		if uint64(len(b)) != d.size {
			return fmt.Errorf("refssz: bytes%d from %d bytes", d.size, len(b))
		}
		reflect.Copy(v, reflect.ValueOf(b))
		return nil
	case kByteList:
		if uint64(len(b)) > d.n {
			return fmt.Errorf("refssz: byte list of %d exceeds limit %d", len(b), d.n)
		}
		v.SetBytes(append([]byte{}, b...))
		return nil
	case kByteVector:
		if uint64(len(b)) != d.n {
			return fmt.Errorf("refssz: byte vector of %d, expected %d", len(b), d.n)
		}
		v.SetBytes(append([]byte{}, b...))
		return nil
	case kBitvector:
		if uint64(len(b)) != (d.n+7)/8 {
			return errors.New("refssz: bitvector size mismatch")
		}
		if d.n%8 != 0 && b[len(b)-1]>>(d.n%8) != 0 {
			return errors.New("refssz: bitvector padding bits set")
		}
		bits := reflect.MakeSlice(v.Type(), int(d.n), int(d.n))
		for i := 0; i < int(d.n); i++ {
			bits.Index(i).SetBool(b[i/8]>>(uint(i)%8)&1 == 1)
		}
		v.Set(bits)
		return nil
	case kBitlist:
		if len(b) == 0 {
			return errors.New("refssz: empty bitlist encoding (delimiter missing)")
		}
		last := b[len(b)-1]
		if last == 0 {
			return errors.New("refssz: bitlist delimiter missing (trailing zero byte)")
		}
		hi := 7
		for last>>uint(hi)&1 == 0 {
			hi--
		}
		n := uint64(len(b)-1)*8 + uint64(hi)
		if n > d.n {
			return fmt.Errorf("refssz: bitlist of %d bits exceeds limit %d", n, d.n)
		}
		bits := reflect.MakeSlice(v.Type(), int(n), int(n))
		for i := 0; i < int(n); i++ {
			bits.Index(i).SetBool(b[i/8]>>(uint(i)%8)&1 == 1)
		}
		v.Set(bits)
		return nil
	case kList, kVector:
		var elems [][]byte
		if es, ok := d.elem.fixedSize(); ok {
			if es == 0 {
				return errors.New("refssz: zero-size element")
			}
			if uint64(len(b))%es != 0 {
				return fmt.Errorf("refssz: %d bytes is not a multiple of the element size %d", len(b), es)
			}
			cnt := uint64(len(b)) / es
			for i := uint64(0); i < cnt; i++ {
				elems = append(elems, b[i*es:(i+1)*es])
			}
		} else if len(b) > 0 {
			if len(b) < 4 {
				return ErrTruncated
			}
			first := binary.LittleEndian.Uint32(b)
			if first%4 != 0 || first == 0 || uint64(first) > uint64(len(b)) {
				return fmt.Errorf("refssz: bad first offset %d", first)
			}
			cnt := int(first / 4)
			offs := make([]uint32, cnt+1)
			for i := 0; i < cnt; i++ {
				offs[i] = binary.LittleEndian.Uint32(b[4*i:])
			}
			offs[cnt] = uint32(len(b))
			for i := 0; i < cnt; i++ {
				if offs[i] > offs[i+1] || uint64(offs[i+1]) > uint64(len(b)) {
					return fmt.Errorf("refssz: offsets not monotone / out of bounds (%d, %d)", offs[i], offs[i+1])
				}
				elems = append(elems, b[offs[i]:offs[i+1]])
			}
		}
		if d.kind == kVector && uint64(len(elems)) != d.n {
			return fmt.Errorf("refssz: vector of %d elements, expected %d", len(elems), d.n)
		}
		if d.kind == kList && uint64(len(elems)) > d.n {
			return fmt.Errorf("refssz: list of %d elements exceeds limit %d", len(elems), d.n)
		}
		sl := reflect.MakeSlice(v.Type(), len(elems), len(elems))
		for i, e := range elems {
			if err := decode(d.elem, e, sl.Index(i)); err != nil {
				return err
			}
		}
		v.Set(sl)
		return nil
	case kContainer:
		// fixed part size
		var fixed uint64
		for _, f := range d.fields {
			if s, ok := f.fixedSize(); ok {
				fixed += s
			} else {
				fixed += 4
			}
		}
		if uint64(len(b)) < fixed {
			return ErrTruncated
		}
		pos := uint64(0)
		type varf struct {
			fi  int
			off uint32
		}
		var vars []varf
		gi := make([]int, 0, len(d.fields)) // go field index per ssz field
		for i := 0; i < v.NumField(); i++ {
			if v.Type().Field(i).Tag.Get("ssz") != "-" {
				gi = append(gi, i)
			}
		}
		for fi, f := range d.fields {
			if s, ok := f.fixedSize(); ok {
				if err := decode(f, b[pos:pos+s], v.Field(gi[fi])); err != nil {
					return fmt.Errorf("%s: %w", d.names[fi], err)
				}
				pos += s
			} else {
				vars = append(vars, varf{fi, binary.LittleEndian.Uint32(b[pos:])})
				pos += 4
			}
		}
		if len(vars) == 0 {
			if uint64(len(b)) != fixed {
				return fmt.Errorf("refssz: %d trailing bytes after fixed-size container", uint64(len(b))-fixed)
			}
			return nil
		}
		if uint64(vars[0].off) != fixed {
			return fmt.Errorf("refssz: first offset %d differs from the fixed part size %d", vars[0].off, fixed)
		}
		for i, vf := range vars {
			end := uint32(len(b))
			if i+1 < len(vars) {
				end = vars[i+1].off
			}
			if vf.off > end || uint64(end) > uint64(len(b)) {
				return fmt.Errorf("refssz: offsets not monotone / out of bounds (%d, %d)", vf.off, end)
			}
			if err := decode(d.fields[vf.fi], b[vf.off:end], v.Field(gi[vf.fi])); err != nil {
				return fmt.Errorf("%s: %w", d.names[vf.fi], err)
			}
		}
		return nil
	}
	panic("unreachable")
}

// ---------------------------------------------------------------- merkleization

type Hash = [32]byte

var zeroHashes = func() []Hash {
	z := make([]Hash, 65)
	for i := 1; i < len(z); i++ {
		z[i] = hash2(z[i-1], z[i-1])
	}
	return z
}()

func hash2(a, b Hash) Hash {
	var buf [64]byte
	copy(buf[:32], a[:])
	copy(buf[32:], b[:])
	return sha256.Sum256(buf[:])
}

func depthFor(limitChunks uint64) int {
	d := 0
	for (uint64(1) << uint(d)) < limitChunks {
		d++
	}
	return d
}

// merkleize chunks into a tree with limitChunks leaves (padded virtually with zero subtrees).
func merkleize(chunks []Hash, limitChunks uint64) Hash {
	if limitChunks == 0 {
		limitChunks = 1
	}
	if uint64(len(chunks)) > limitChunks {
		panic("refssz: more chunks than the limit")
	}
	depth := depthFor(limitChunks)
	if len(chunks) == 0 {
		return zeroHashes[depth]
	}
	layer := chunks
	for h := 0; h < depth; h++ {
		next := make([]Hash, (len(layer)+1)/2)
		for i := range next {
			l := layer[2*i]
			r := zeroHashes[h]
			if 2*i+1 < len(layer) {
				r = layer[2*i+1]
			}
			next[i] = hash2(l, r)
		}
		layer = next
	}
	return layer[0]
}

func mixin(root Hash, n uint64) Hash {
	var l Hash
	binary.LittleEndian.PutUint64(l[:8], n)
	return hash2(root, l)
}

func pack(b []byte) []Hash {
	chunks := make([]Hash, (len(b)+31)/32)
	for i := range chunks {
		copy(chunks[i][:], b[i*32:])
	}
	return chunks
}

func Root(v interface{}, p Params) Hash {
	rv := reflect.ValueOf(v)
	if rv.Kind() == reflect.Ptr {
		rv = rv.Elem()
	}
	return root(describe(rv.Type(), "", p), rv)
}

func root(d *desc, v reflect.Value) Hash {
	switch d.kind {
	case kUint, kBool, kBytesN, kByteVector:
		b := encode(d, v, nil)
		sz, _ := d.fixedSize()
		return merkleize(pack(b), (sz+31)/32)
	case kByteList:
		return mixin(merkleize(pack(v.Bytes()), (d.n+31)/32), uint64(v.Len()))
	case kBitvector:
		return merkleize(pack(packBits(v, false)), (d.n+255)/256)
	case kBitlist:
		return mixin(merkleize(pack(packBits(v, false)), (d.n+255)/256), uint64(v.Len()))
	case kList, kVector:
		var chunks []Hash
		var limit uint64
		basic := d.elem.kind == kUint || d.elem.kind == kBool
		if basic {
			var b []byte
			for i := 0; i < v.Len(); i++ {
				b = encode(d.elem, v.Index(i), b)
			}
			chunks = pack(b)
			limit = (d.n*d.elem.size + 31) / 32
		} else {
			chunks = make([]Hash, v.Len())
			for i := range chunks {
				chunks[i] = root(d.elem, v.Index(i))
			}
			limit = d.n
		}
		r := merkleize(chunks, limit)
		if d.kind == kList {
			return mixin(r, uint64(v.Len()))
		}
		return r
	case kContainer:
		chunks := make([]Hash, 0, len(d.fields))
		fi := 0
		for i := 0; i < v.NumField(); i++ {
			if v.Type().Field(i).Tag.Get("ssz") == "-" {
				continue
			}
			chunks = append(chunks, root(d.fields[fi], v.Field(i)))
			fi++
		}
		return merkleize(chunks, uint64(len(chunks)))
	}
	panic("unreachable")
}

// Copy returns a deep copy of v (through the codec: also validates that v is encodable).
func Copy(dst, src interface{}, p Params) {
	if err := Decode(Encode(src, p), dst, p); err != nil {
		panic("refssz: copy failed: " + err.Error())
	}
}

// ---- top-level values of non-struct types (lists, bitfields, basic types) with an explicit tag

func EncodeAs(v interface{}, tag string, p Params) []byte {
	rv := reflect.ValueOf(v)
	if rv.Kind() == reflect.Ptr {
		rv = rv.Elem()
	}
	return encode(describe(rv.Type(), tag, p), rv, nil)
}

func DecodeAs(b []byte, ptr interface{}, tag string, p Params) error {
	rv := reflect.ValueOf(ptr).Elem()
	return decode(describe(rv.Type(), tag, p), b, rv)
}

func RootAs(v interface{}, tag string, p Params) Hash {
	rv := reflect.ValueOf(v)
	if rv.Kind() == reflect.Ptr {
		rv = rv.Elem()
	}
	return root(describe(rv.Type(), tag, p), rv)
}

func FixedSizeAs(v interface{}, tag string, p Params) (uint64, bool) {
	t := reflect.TypeOf(v)
	if t.Kind() == reflect.Ptr {
		t = t.Elem()
	}
	return describe(t, tag, p).fixedSize()
}

// ---- bounded value enumeration over a schema (used by C04/C05/C15)

// Leaf: one mutable position of a value: a basic leaf or the length of a list/bitlist.
type Leaf struct {
	Path string
	// Set puts the i-th alternative (0 <= i < N) into a fresh copy of the zero value.
	N   int
	set func(root reflect.Value, alt int)
}

// Shape enumerates the leaves of the ZERO value of type (t, tag): every basic leaf (alternatives:
// 1, max, position-unique pattern), every list length (alternatives: 1, 2, limit if <= maxLen),
// every bitlist length (0 is the zero value; alternatives 1, 7, 8, 9, limit if <= maxLen).
// Elements of lists that are empty in the zero value are reached by the length alternatives, whose
// new elements are filled with a position-unique pattern.
type Gen struct {
	d      *desc
	p      Params
	maxLen uint64
}

func NewGen(sample interface{}, tag string, p Params, maxLen uint64) *Gen {
	t := reflect.TypeOf(sample)
	if t.Kind() == reflect.Ptr {
		t = t.Elem()
	}
	return &Gen{d: describe(t, tag, p), p: p, maxLen: maxLen}
}

// Zero returns a pointer to the zero value (vectors at their fixed length, lists empty).
func (g *Gen) Zero() reflect.Value {
	v := reflect.New(g.d.typ).Elem()
	fillZero(g.d, v)
	return v.Addr()
}

func fillZero(d *desc, v reflect.Value) {
	switch d.kind {
	case kByteVector:
		v.SetBytes(make([]byte, d.n))
	case kBitvector:
		v.Set(reflect.MakeSlice(v.Type(), int(d.n), int(d.n)))
	case kVector:
		s := reflect.MakeSlice(v.Type(), int(d.n), int(d.n))
		for i := 0; i < int(d.n); i++ {
			fillZero(d.elem, s.Index(i))
		}
		v.Set(s)
	case kContainer:
		fi := 0
		for i := 0; i < v.NumField(); i++ {
			if v.Type().Field(i).Tag.Get("ssz") == "-" {
				continue
			}
			fillZero(d.fields[fi], v.Field(i))
			fi++
		}
	}
}

// pattern fills v (of descriptor d) with a value derived from seed so that different positions get
// different contents ("all leaves distinct").
func pattern(d *desc, v reflect.Value, seed *uint64, listLen int) {
	next := func() uint64 { *seed = *seed*6364136223846793005 + 1442695040888963407; return *seed >> 16 }
	switch d.kind {
	case kUint:
		x := next()
		if d.size < 8 {
			x &= (1 << (8 * d.size)) - 1
		}
		v.SetUint(x)
	case kBool:
		v.SetBool(next()&1 == 1)
	case kBytesN:
		for i := 0; i < v.Len(); i++ {
			v.Index(i).SetUint(next() & 0xff)
		}
	case kByteList:
		n := listLen
		if uint64(n) > d.n {
			n = int(d.n)
		}
		b := make([]byte, n)
		for i := range b {
			b[i] = byte(next())
		}
		v.SetBytes(b)
	case kByteVector:
		b := make([]byte, d.n)
		for i := range b {
			b[i] = byte(next())
		}
		v.SetBytes(b)
	case kBitvector, kBitlist:
		n := int(d.n)
		if d.kind == kBitlist {
			n = listLen
			if uint64(n) > d.n {
				n = int(d.n)
			}
		}
		s := reflect.MakeSlice(v.Type(), n, n)
		for i := 0; i < n; i++ {
			s.Index(i).SetBool(next()&1 == 1)
		}
		v.Set(s)
	case kList, kVector:
		n := int(d.n)
		if d.kind == kList {
			n = listLen
			if uint64(n) > d.n {
				n = int(d.n)
			}
		}
		s := reflect.MakeSlice(v.Type(), n, n)
		for i := 0; i < n; i++ {
			pattern(d.elem, s.Index(i), seed, listLen)
		}
		v.Set(s)
	case kContainer:
		fi := 0
		for i := 0; i < v.NumField(); i++ {
			if v.Type().Field(i).Tag.Get("ssz") == "-" {
				continue
			}
			pattern(d.fields[fi], v.Field(i), seed, listLen)
			fi++
		}
	}
}

// Distinct returns a value with every leaf set to a different pattern and every list holding
// listLen elements (capped by its limit).
func (g *Gen) Distinct(seed uint64, listLen int) reflect.Value {
	v := reflect.New(g.d.typ).Elem()
	s := seed
	pattern(g.d, v, &s, listLen)
	return v.Addr()
}

type leafRef struct {
	path string
	n    int
	set  func(root reflect.Value, alt int)
}

// Leaves lists the deviation points of the zero value.
func (g *Gen) Leaves() []leafRef {
	var out []leafRef
	var walk func(d *desc, path string, get func(root reflect.Value) reflect.Value, depthBudget int)
	walk = func(d *desc, path string, get func(root reflect.Value) reflect.Value, budget int) {
		switch d.kind {
		case kUint:
			max := ^uint64(0)
			if d.size < 8 {
				max = (1 << (8 * d.size)) - 1
			}
			out = append(out, leafRef{path, 3, func(r reflect.Value, alt int) {
				get(r).SetUint([]uint64{1, max, 0x0102030405060708 & max}[alt])
			}})
		case kBool:
			out = append(out, leafRef{path, 1, func(r reflect.Value, alt int) { get(r).SetBool(true) }})
		case kBytesN:
			out = append(out, leafRef{path, 3, func(r reflect.Value, alt int) {
				v := get(r)
				for i := 0; i < v.Len(); i++ {
					v.Index(i).SetUint([]uint64{uint64(i&1) ^ 1, 0xff, uint64(i*7+3) & 0xff}[alt])
				}
			}})
		case kByteVector:
			out = append(out, leafRef{path, 2, func(r reflect.Value, alt int) {
				b := make([]byte, d.n)
				for i := range b {
					b[i] = []byte{0xff, byte(i*5 + 1)}[alt]
				}
				get(r).SetBytes(b)
			}})
		case kByteList:
			lens := []uint64{1, 2, 31, 32, 33}
			if d.n <= g.maxLen {
				lens = append(lens, d.n)
			}
			var ok []uint64
			for _, l := range lens {
				if l <= d.n {
					ok = append(ok, l)
				}
			}
			out = append(out, leafRef{path + ".len", len(ok), func(r reflect.Value, alt int) {
				b := make([]byte, ok[alt])
				for i := range b {
					b[i] = byte(i*3 + 1)
				}
				get(r).SetBytes(b)
			}})
		case kBitvector:
			out = append(out, leafRef{path, 3, func(r reflect.Value, alt int) {
				v := get(r)
				for i := 0; i < v.Len(); i++ {
					v.Index(i).SetBool([]bool{i == 0, true, i == v.Len()-1}[alt])
				}
			}})
		case kBitlist:
			lens := []uint64{1, 7, 8, 9}
			if d.n <= g.maxLen {
				lens = append(lens, d.n)
			}
			var ok []uint64
			for _, l := range lens {
				if l <= d.n {
					ok = append(ok, l)
				}
			}
			// each length with all-zero bits and with all-one bits
			out = append(out, leafRef{path + ".len", 2 * len(ok), func(r reflect.Value, alt int) {
				n := int(ok[alt/2])
				s := reflect.MakeSlice(get(r).Type(), n, n)
				for i := 0; i < n; i++ {
					s.Index(i).SetBool(alt%2 == 1)
				}
				get(r).Set(s)
			}})
		case kVector:
			// first, middle... keep it bounded: first and last element
			idxs := []int{0}
			if d.n > 1 {
				idxs = append(idxs, int(d.n)-1)
			}
			for _, i := range idxs {
				i := i
				walk(d.elem, fmt.Sprintf("%s[%d]", path, i), func(r reflect.Value) reflect.Value { return get(r).Index(i) }, budget)
			}
		case kList:
			lens := []uint64{1, 2}
			if d.n <= g.maxLen && d.n > 2 {
				lens = append(lens, d.n)
			}
			var ok []uint64
			for _, l := range lens {
				if l <= d.n {
					ok = append(ok, l)
				}
			}
			out = append(out, leafRef{path + ".len", len(ok), func(r reflect.Value, alt int) {
				n := int(ok[alt])
				s := reflect.MakeSlice(get(r).Type(), n, n)
				seed := uint64(len(path)*131 + alt)
				for i := 0; i < n; i++ {
					fillZero(d.elem, s.Index(i))
					pattern(d.elem, s.Index(i), &seed, 1)
				}
				get(r).Set(s)
			}})
		case kContainer:
			gi := []int{}
			for i := 0; i < d.typ.NumField(); i++ {
				if d.typ.Field(i).Tag.Get("ssz") != "-" {
					gi = append(gi, i)
				}
			}
			for fi, f := range d.fields {
				idx := gi[fi]
				walk(f, path+"."+d.names[fi], func(r reflect.Value) reflect.Value { return get(r).Field(idx) }, budget)
			}
		}
	}
	walk(g.d, "", func(r reflect.Value) reflect.Value { return r.Elem() }, 0)
	return out
}

// Values enumerates: the zero value, every single deviation, optionally every pair of deviations
// (on different leaves), and two "all leaves distinct" values. f receives a pointer value.
func (g *Gen) Values(pairs bool, f func(desc string, ptr reflect.Value)) {
	f("zero", g.Zero())
	leaves := g.Leaves()
	for _, l := range leaves {
		for a := 0; a < l.n; a++ {
			v := g.Zero()
			l.set(v, a)
			f(fmt.Sprintf("%s#%d", l.path, a), v)
		}
	}
	if pairs {
		for i, l1 := range leaves {
			for j := i + 1; j < len(leaves); j++ {
				l2 := leaves[j]
				if strings.HasPrefix(l2.path, l1.path) && strings.HasSuffix(l1.path, ".len") {
					continue
				}
				v := g.Zero()
				l1.set(v, l1.n-1)
				l2.set(v, 0)
				f(fmt.Sprintf("%s+%s", l1.path, l2.path), v)
			}
		}
	}
	f("distinct/1", g.Distinct(1, 1))
	f("distinct/2", g.Distinct(7, 2))
	f("distinct/3", g.Distinct(99, 3))
}

// NumLeaves: size indicator.
func (g *Gen) NumLeaves() int { return len(g.Leaves()) }

// EncodeV / RootV / DecodeV for generated values (pointer reflect.Value).
func (g *Gen) Encode(ptr reflect.Value) []byte { return encode(g.d, ptr.Elem(), nil) }
func (g *Gen) Root(ptr reflect.Value) Hash     { return root(g.d, ptr.Elem()) }
func (g *Gen) Decode(b []byte) (reflect.Value, error) {
	v := reflect.New(g.d.typ)
	err := decode(g.d, b, v.Elem())
	return v, err
}
func (g *Gen) FixedSize() (uint64, bool) { return g.d.fixedSize() }
