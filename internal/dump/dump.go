// Package dump writes a canonical, complete textual dump of any Go value, including unexported
// fields (read through reflect's kind-specific getters, nothing is modified). Maps are sorted by
// the dump of their keys; pointers are followed (cycles cut by address); function values and
// the sync shim's mutexes are skipped. Used for exact state keys (merging two explored states is
// sound because the *whole* private state is in the key) and for localising mismatches.
package dump

import (
	"fmt"
	"reflect"
	"sort"
	"strconv"
	"strings"
)

type Options struct {
	// SkipTypes: fully qualified type names (pkgpath.Name) that are not dumped.
	SkipTypes map[string]bool
	// SkipFields: "Type.field" names that are not dumped.
	SkipFields map[string]bool
}

func String(v interface{}, o *Options) string {
	var sb strings.Builder
	d := &dumper{sb: &sb, o: o, seen: map[uintptr]bool{}}
	d.val(reflect.ValueOf(v), 0)
	return sb.String()
}

type dumper struct {
	sb   *strings.Builder
	o    *Options
	seen map[uintptr]bool
}

func tname(t reflect.Type) string {
	if t.PkgPath() == "" {
		return t.String()
	}
	return t.PkgPath() + "." + t.Name()
}

func (d *dumper) val(v reflect.Value, depth int) {
	if !v.IsValid() {
		d.sb.WriteString("nil")
		return
	}
	t := v.Type()
	if d.o != nil && d.o.SkipTypes[tname(t)] {
		d.sb.WriteString("_")
		return
	}
	if depth > 64 {
		d.sb.WriteString("<deep>")
		return
	}
	switch v.Kind() {
	case reflect.Bool:
		if v.Bool() {
			d.sb.WriteString("true")
		} else {
			d.sb.WriteString("false")
		}
	case reflect.Int, reflect.Int8, reflect.Int16, reflect.Int32, reflect.Int64:
		var b [24]byte
		d.sb.Write(strconv.AppendInt(b[:0], v.Int(), 10))
	case reflect.Uint, reflect.Uint8, reflect.Uint16, reflect.Uint32, reflect.Uint64, reflect.Uintptr:
		var b [24]byte
		d.sb.Write(strconv.AppendUint(b[:0], v.Uint(), 10))
	case reflect.Float32, reflect.Float64:
		fmt.Fprintf(d.sb, "%v", v.Float())
	case reflect.String:
		fmt.Fprintf(d.sb, "%q", v.String())
	case reflect.Array, reflect.Slice:
		if v.Kind() == reflect.Slice && v.IsNil() {
			d.sb.WriteString("nil[]")
			return
		}
		if t.Elem().Kind() == reflect.Uint8 {
			d.sb.WriteString("x")
			const hexd = "0123456789abcdef"
			n := v.Len()
			// compress runs of one repeated byte (test roots): "NNxBB"
			allSame := n > 4
			for i := 1; allSame && i < n; i++ {
				allSame = v.Index(i).Uint() == v.Index(0).Uint()
			}
			if allSame {
				b := byte(v.Index(0).Uint())
				d.sb.WriteByte('*')
				d.sb.WriteByte(hexd[b>>4])
				d.sb.WriteByte(hexd[b&15])
				var nb [8]byte
				d.sb.Write(strconv.AppendInt(nb[:0], int64(n), 10))
				return
			}
			for i := 0; i < n; i++ {
				b := byte(v.Index(i).Uint())
				d.sb.WriteByte(hexd[b>>4])
				d.sb.WriteByte(hexd[b&15])
			}
			return
		}
		d.sb.WriteString("[")
		for i := 0; i < v.Len(); i++ {
			if i > 0 {
				d.sb.WriteString(",")
			}
			d.val(v.Index(i), depth+1)
		}
		d.sb.WriteString("]")
	case reflect.Map:
		if v.IsNil() {
			d.sb.WriteString("nilmap")
			return
		}
		type kv struct{ k, v string }
		var items []kv
		it := v.MapRange()
		for it.Next() {
			var kb, vb strings.Builder
			kd := &dumper{sb: &kb, o: d.o, seen: d.seen}
			kd.val(it.Key(), depth+1)
			vd := &dumper{sb: &vb, o: d.o, seen: d.seen}
			vd.val(it.Value(), depth+1)
			items = append(items, kv{kb.String(), vb.String()})
		}
		sort.Slice(items, func(i, j int) bool { return items[i].k < items[j].k })
		d.sb.WriteString("map{")
		for i, it := range items {
			if i > 0 {
				d.sb.WriteString(",")
			}
			d.sb.WriteString(it.k)
			d.sb.WriteString(":")
			d.sb.WriteString(it.v)
		}
		d.sb.WriteString("}")
	case reflect.Ptr:
		if v.IsNil() {
			d.sb.WriteString("nilptr")
			return
		}
		p := v.Pointer()
		if d.seen[p] {
			d.sb.WriteString("<cycle>")
			return
		}
		d.seen[p] = true
		d.sb.WriteString("&")
		d.val(v.Elem(), depth+1)
		delete(d.seen, p)
	case reflect.Interface:
		if v.IsNil() {
			d.sb.WriteString("nilif")
			return
		}
		d.sb.WriteString("(" + tname(v.Elem().Type()) + ")")
		d.val(v.Elem(), depth+1)
	case reflect.Struct:
		d.sb.WriteString(t.Name() + "{")
		first := true
		for i := 0; i < v.NumField(); i++ {
			f := t.Field(i)
			if d.o != nil && d.o.SkipFields[t.Name()+"."+f.Name] {
				continue
			}
			if !first {
				d.sb.WriteString(",")
			}
			first = false
			d.sb.WriteString(f.Name + ":")
			d.val(v.Field(i), depth+1)
		}
		d.sb.WriteString("}")
	case reflect.Func, reflect.Chan, reflect.UnsafePointer:
		if v.IsNil() {
			d.sb.WriteString("nilfn")
		} else {
			d.sb.WriteString("fn")
		}
	default:
		fmt.Fprintf(d.sb, "<%s>", v.Kind())
	}
}
