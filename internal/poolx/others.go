package poolx

import (
	"context"
	"fmt"
	"reflect"
	"sort"
	"strings"

	"github.com/protolambda/zrnt/eth2/beacon/altair"
	"github.com/protolambda/zrnt/eth2/beacon/common"
	"github.com/protolambda/zrnt/eth2/beacon/phase0"
	"github.com/protolambda/zrnt/eth2/pool"
	"github.com/protolambda/ztyp/tree"
	"github.com/protolambda/ztyp/view"

	"verif/internal/dump"
	"verif/internal/seqx"
)

func treeHash() tree.HashFn { return tree.GetHashFn() }

// ------------------------------------------------------------------ exits + slashings (one harness)

type OpExit struct {
	V       common.ValidatorIndex
	Epoch   common.Epoch
	Sig     byte
	Variant int
}

func (o OpExit) String() string { return fmt.Sprintf("AddVoluntaryExit(v=%d,epoch=%d,sig=%02x)", o.V, o.Epoch, o.Sig) }

type OpPS struct {
	Proposer common.ValidatorIndex
	Variant  byte
}

func (o OpPS) String() string { return fmt.Sprintf("AddProposerSlashing(proposer=%d,variant=%d)", o.Proposer, o.Variant) }

type OpAS struct {
	Variant byte
}

func (o OpAS) String() string { return fmt.Sprintf("AddAttesterSlashing(variant=%d)", o.Variant) }

type OpAll struct{}

func (OpAll) String() string { return "All()" }

type MiscInst struct {
	ex    *pool.VoluntaryExitPool
	ps    *pool.ProposerSlashingPool
	as    *pool.AttesterSlashingPool
	exAdd []*phase0.SignedVoluntaryExit // every exit handed in
	exAcc []*phase0.SignedVoluntaryExit // add returned nil
	psAdd []*phase0.ProposerSlashing
	psAcc []*phase0.ProposerSlashing
	asAdd []*phase0.AttesterSlashing
	asAcc []*phase0.AttesterSlashing
	log   []string
	key   string
}

type MiscHarness struct{}

func (MiscHarness) Name() string { return "exit+slashing-pools" }
func (MiscHarness) Fresh() seqx.Instance {
	return &MiscInst{ex: pool.NewVoluntaryExitPool(spec), ps: pool.NewProposerSlashingPool(spec), as: pool.NewAttesterSlashingPool(spec)}
}

func (in *MiscInst) Enabled() []fmt.Stringer {
	ops := []fmt.Stringer{OpAll{}}
	for _, v := range []common.ValidatorIndex{1, 2} {
		ops = append(ops, OpExit{v, 3, 0x11, 0})
	}
	ops = append(ops, OpExit{1, 4, 0x11, 1}, OpExit{1, 3, 0x22, 2}) // same validator, other content
	for _, p := range []common.ValidatorIndex{5, 6} {
		ops = append(ops, OpPS{p, 0})
	}
	ops = append(ops, OpPS{5, 1})
	ops = append(ops, OpAS{0}, OpAS{1}, OpAS{2})
	return ops
}

func mkPS(p common.ValidatorIndex, variant byte) *phase0.ProposerSlashing {
	h := func(b byte) common.SignedBeaconBlockHeader {
		return common.SignedBeaconBlockHeader{Message: common.BeaconBlockHeader{Slot: 9, ProposerIndex: p, ParentRoot: rootN(1), StateRoot: rootN(b), BodyRoot: rootN(3)}, Signature: sigN(b)}
	}
	return &phase0.ProposerSlashing{SignedHeader1: h(0x10 + variant), SignedHeader2: h(0x20 + variant)}
}

func mkAS(variant byte) *phase0.AttesterSlashing {
	ia := func(d phase0.AttestationData, idx ...common.ValidatorIndex) phase0.IndexedAttestation {
		return phase0.IndexedAttestation{AttestingIndices: idx, Data: d, Signature: sigN(0x40 + variant)}
	}
	switch variant {
	case 0:
		return &phase0.AttesterSlashing{Attestation1: ia(datas["A"], 10, 11), Attestation2: ia(datas["B"], 10, 11)}
	case 1:
		return &phase0.AttesterSlashing{Attestation1: ia(datas["A"], 10), Attestation2: ia(datas["B"], 10)} // subset of variant 0
	default:
		return &phase0.AttesterSlashing{Attestation1: ia(datas["A"], 12), Attestation2: ia(datas["B"], 12)}
	}
}

func (in *MiscInst) Apply(op fmt.Stringer, observe bool) (fs []seqx.Finding, outcome string) {
	add := func(sig, msg string) {
		fs = append(fs, seqx.Finding{Sig: "C20/" + sig, Msg: fmt.Sprintf("%s: %s", op, msg)})
	}
	ctx := context.Background()
	in.log = append(in.log, op.String())
	switch o := op.(type) {
	case OpAll:
		outcome = "all"
	case OpExit:
		e := &phase0.SignedVoluntaryExit{Message: phase0.VoluntaryExit{Epoch: o.Epoch, ValidatorIndex: o.V}, Signature: sigN(o.Sig)}
		before := in.allStr()
		var err error
		if pm := guard(func() { err = in.ex.AddVoluntaryExit(ctx, e) }); pm != "" {
			add("panic/AddVoluntaryExit", pm)
			return fs, "panic"
		}
		dup := false
		for _, x := range in.exAdd {
			dup = dup || *x == *e
		}
		in.exAdd = append(in.exAdd, e)
		if err == nil {
			in.exAcc = append(in.exAcc, e)
		}
		if dup && before != in.allStr() {
			add("duplicate-changed-results", "exact duplicate exit changed All()")
		}
		outcome = fmt.Sprintf("exit:%v", err == nil)
	case OpPS:
		s := mkPS(o.Proposer, o.Variant)
		before := in.allStr()
		var err error
		if pm := guard(func() { err = in.ps.AddProposerSlashing(ctx, s) }); pm != "" {
			add("panic/AddProposerSlashing", pm)
			return fs, "panic"
		}
		dup := false
		for _, x := range in.psAdd {
			dup = dup || *x == *s
		}
		in.psAdd = append(in.psAdd, s)
		if err == nil {
			in.psAcc = append(in.psAcc, s)
		}
		if dup && before != in.allStr() {
			add("duplicate-changed-results", "exact duplicate proposer slashing changed All()")
		}
		outcome = fmt.Sprintf("ps:%v", err == nil)
	case OpAS:
		s := mkAS(o.Variant)
		before := in.allStr()
		var err error
		if pm := guard(func() { err = in.as.AddAttesterSlashing(ctx, s) }); pm != "" {
			add("panic/AddAttesterSlashing", pm)
			return fs, "panic"
		}
		dup := false
		for _, x := range in.asAdd {
			dup = dup || reflect.DeepEqual(x, s)
		}
		in.asAdd = append(in.asAdd, s)
		if err == nil {
			in.asAcc = append(in.asAcc, s)
		}
		if dup && before != in.allStr() {
			add("duplicate-changed-results", "exact duplicate attester slashing changed All()")
		}
		outcome = fmt.Sprintf("as:%v", err == nil)
	}
	if len(fs) > 0 {
		return
	}
	if observe {
		in.key = fmt.Sprint(len(in.exAdd), len(in.psAdd), len(in.asAdd)) + dump.String(in.ex, dumpOpts) + dump.String(in.ps, dumpOpts) + dump.String(in.as, dumpOpts)
		fs = append(fs, in.observe()...)
	}
	return
}

func (in *MiscInst) Key() string { return in.key }

func (in *MiscInst) allStr() string {
	var ss []string
	guard(func() {
		for _, e := range in.ex.All() {
			ss = append(ss, fmt.Sprintf("e%v", *e))
		}
		for _, e := range in.ps.All() {
			ss = append(ss, fmt.Sprintf("p%v", *e))
		}
		for _, e := range in.as.All() {
			ss = append(ss, fmt.Sprintf("a%v", *e))
		}
	})
	sort.Strings(ss)
	return fmt.Sprint(ss)
}

func (in *MiscInst) observe() (fs []seqx.Finding) {
	var exs []*phase0.SignedVoluntaryExit
	var pss []*phase0.ProposerSlashing
	var ass []*phase0.AttesterSlashing
	if pm := guard(func() { exs, pss, ass = in.ex.All(), in.ps.All(), in.as.All() }); pm != "" {
		return []seqx.Finding{{Sig: "C20/panic/All", Msg: pm}}
	}
	// every returned item was added, unaltered
	for _, e := range exs {
		ok := false
		for _, a := range in.exAdd {
			ok = ok || *a == *e
		}
		if !ok {
			fs = append(fs, seqx.Finding{Sig: "C20/all/not-an-added-item", Msg: fmt.Sprintf("exit pool returned %v which was never added", *e)})
		}
	}
	for _, e := range pss {
		ok := false
		for _, a := range in.psAdd {
			ok = ok || *a == *e
		}
		if !ok {
			fs = append(fs, seqx.Finding{Sig: "C20/all/not-an-added-item", Msg: fmt.Sprintf("proposer slashing pool returned %v which was never added", *e)})
		}
	}
	for _, e := range ass {
		ok := false
		for _, a := range in.asAdd {
			ok = ok || reflect.DeepEqual(a, e)
		}
		if !ok {
			fs = append(fs, seqx.Finding{Sig: "C20/all/not-an-added-item", Msg: "attester slashing pool returned an item that was never added"})
		}
	}
	// every accepted item is returned
	for _, a := range in.exAcc {
		ok := false
		for _, e := range exs {
			ok = ok || *a == *e
		}
		if !ok {
			fs = append(fs, seqx.Finding{Sig: "C20/retention/exit-lost", Msg: fmt.Sprintf("accepted exit %v is not returned by All()", *a)})
		}
	}
	for _, a := range in.psAcc {
		ok := false
		for _, e := range pss {
			ok = ok || *a == *e
		}
		if !ok {
			fs = append(fs, seqx.Finding{Sig: "C20/retention/proposer-slashing-lost", Msg: fmt.Sprintf("accepted proposer slashing for %d is not returned by All()", a.SignedHeader1.Message.ProposerIndex)})
		}
	}
	for _, a := range in.asAcc {
		ok := false
		for _, e := range ass {
			ok = ok || reflect.DeepEqual(a, e)
		}
		if !ok {
			fs = append(fs, seqx.Finding{Sig: "C20/retention/attester-slashing-lost", Msg: "accepted attester slashing is not returned by All()"})
		}
	}
	return
}

// ------------------------------------------------------------------ sync committee pool

type OpReset struct{ Slot common.Slot }

func (o OpReset) String() string { return fmt.Sprintf("Reset(slot=%d)", o.Slot) }

type OpMsg struct {
	Slot common.Slot
	V    common.ValidatorIndex
	Root byte
}

func (o OpMsg) String() string { return fmt.Sprintf("AddSyncCommitteeMessage(slot=%d,v=%d,root=%02x)", o.Slot, o.V, o.Root) }

type OpContrib struct {
	Slot   common.Slot
	Root   byte
	Subnet uint64
}

func (o OpContrib) String() string {
	return fmt.Sprintf("AddSyncCommitteeContribution(slot=%d,root=%02x,subnet=%d)", o.Slot, o.Root, o.Subnet)
}

type SyncInst struct {
	p     *pool.SyncCommitteePool
	slot  *common.Slot // model: current slot after the last Reset (nil before any Reset)
	msgs  map[common.Slot]map[common.ValidatorIndex]*altair.SyncCommitteeMessage
	key   string
	nops  int
	// window model: what the three-slot window must hold. cur starts at the pool's initial value (max uint64, so that
	// slot 0 is "next"). wmsgs[slot][validator] = root byte; wcon[slot]["root/subnet"] = number of contributions.
	cur   common.Slot
	wmsgs map[common.Slot]map[common.ValidatorIndex]byte
	wcon  map[common.Slot]map[string]int
}

func (in *SyncInst) inWindow(s common.Slot) bool { return in.cur == s+1 || in.cur == s || in.cur+1 == s }

// window reads the pool's three message buffers and three contribution buffers (unexported; reflection only reads).
func (in *SyncInst) window() (msgs [3]map[common.ValidatorIndex]string, cons [3]map[string]int, cur common.Slot) {
	v := reflect.ValueOf(in.p).Elem()
	cur = common.Slot(v.FieldByName("currentSlot").Uint())
	for i, name := range []string{"prevMsgs", "currentMsgs", "nextMsgs"} {
		msgs[i] = map[common.ValidatorIndex]string{}
		f := v.FieldByName(name)
		for _, k := range f.MapKeys() {
			m := f.MapIndex(k).Elem()
			r := m.FieldByName("BeaconBlockRoot")
			msgs[i][common.ValidatorIndex(k.Uint())] = fmt.Sprintf("slot=%d v=%d root=%02x", m.FieldByName("Slot").Uint(), m.FieldByName("ValidatorIndex").Uint(), r.Index(0).Uint())
		}
	}
	for i, name := range []string{"prevContribs", "currentContribs", "nextContribs"} {
		cons[i] = map[string]int{}
		f := v.FieldByName(name)
		for _, rk := range f.MapKeys() {
			subs := f.MapIndex(rk)
			for _, sk := range subs.MapKeys() {
				cons[i][fmt.Sprintf("%02x/%d", rk.Index(0).Uint(), sk.Uint())] = subs.MapIndex(sk).Len()
			}
		}
	}
	return
}

// checkWindow: the buffers hold exactly the model's items of slots cur-1, cur, cur+1 (after a jump of more than
// one slot the statement leaves open whether items still inside the new window survive: then only "nothing that was
// not added for that slot", and the model adopts what is there).
func (in *SyncInst) checkWindow(adopt bool) (fs []seqx.Finding) {
	msgs, cons, cur := in.window()
	if cur != in.cur {
		return []seqx.Finding{{Sig: "C20/sync-window/current-slot", Msg: fmt.Sprintf("pool is at slot %d, expected %d", cur, in.cur)}}
	}
	slots := [3]common.Slot{in.cur - 1, in.cur, in.cur + 1}
	names := [3]string{"previous", "current", "next"}
	for i := 0; i < 3; i++ {
		want := map[common.ValidatorIndex]string{}
		for v, r := range in.wmsgs[slots[i]] {
			want[v] = fmt.Sprintf("slot=%d v=%d root=%02x", slots[i], v, r)
		}
		wantC := in.wcon[slots[i]]
		if wantC == nil {
			wantC = map[string]int{}
		}
		if adopt {
			for v, g := range msgs[i] {
				if want[v] != g {
					fs = append(fs, seqx.Finding{Sig: "C20/sync-window/foreign-message", Msg: fmt.Sprintf("%s-slot buffer (slot %d) holds %q, which was not added for that slot", names[i], slots[i], g)})
				}
			}
			for k, n := range cons[i] {
				if wantC[k] < n {
					fs = append(fs, seqx.Finding{Sig: "C20/sync-window/foreign-contribution", Msg: fmt.Sprintf("%s-slot buffer (slot %d) holds %d contributions %s, only %d were added", names[i], slots[i], n, k, wantC[k])})
				}
			}
			// adopt
			nm := map[common.ValidatorIndex]byte{}
			for v := range msgs[i] {
				nm[v] = in.wmsgs[slots[i]][v]
			}
			in.wmsgs[slots[i]] = nm
			nc := map[string]int{}
			for k, n := range cons[i] {
				nc[k] = n
			}
			in.wcon[slots[i]] = nc
			continue
		}
		if !reflect.DeepEqual(want, msgs[i]) {
			fs = append(fs, seqx.Finding{Sig: "C20/sync-window/messages", Msg: fmt.Sprintf("%s-slot buffer (slot %d) holds %v, the messages added for that slot and still inside the window are %v", names[i], slots[i], msgs[i], want)})
		}
		if !reflect.DeepEqual(wantC, cons[i]) {
			fs = append(fs, seqx.Finding{Sig: "C20/sync-window/contributions", Msg: fmt.Sprintf("%s-slot buffer (slot %d) holds contributions %v, expected %v", names[i], slots[i], cons[i], wantC)})
		}
	}
	return
}

type SyncHarness struct{}

func (SyncHarness) Name() string { return "sync-committee-pool" }
func (SyncHarness) Fresh() seqx.Instance {
	return &SyncInst{p: pool.NewSyncCommitteePool(spec), msgs: map[common.Slot]map[common.ValidatorIndex]*altair.SyncCommitteeMessage{},
		cur: ^common.Slot(0), wmsgs: map[common.Slot]map[common.ValidatorIndex]byte{}, wcon: map[common.Slot]map[string]int{}}
}

func (in *SyncInst) Enabled() []fmt.Stringer {
	var ops []fmt.Stringer
	for s := common.Slot(0); s <= 3; s++ {
		ops = append(ops, OpReset{s})
	}
	for s := common.Slot(0); s <= 4; s++ {
		ops = append(ops, OpMsg{s, 7, 0xa1}, OpMsg{s, 8, 0xa1})
		ops = append(ops, OpContrib{s, 0xa1, 0}, OpContrib{s, 0xa1, 3})
	}
	ops = append(ops, OpMsg{1, 7, 0xb1}, OpContrib{1, 0xb1, 0})
	return ops
}

func (in *SyncInst) Apply(op fmt.Stringer, observe bool) (fs []seqx.Finding, outcome string) {
	add := func(sig, msg string) {
		fs = append(fs, seqx.Finding{Sig: "C20/" + sig, Msg: fmt.Sprintf("%s: %s", op, msg)})
	}
	ctx := context.Background()
	in.nops++
	switch o := op.(type) {
	case OpReset:
		if pm := guard(func() { in.p.Reset(o.Slot) }); pm != "" {
			add("panic/Reset", pm)
			return fs, "panic"
		}
		s := o.Slot
		in.slot = &s
		outcome = "reset"
		jump := !(in.cur == s || in.cur == s+1 || in.cur+1 == s)
		in.cur = s
		for k := range in.wmsgs {
			if !in.inWindow(k) {
				delete(in.wmsgs, k)
			}
		}
		for k := range in.wcon {
			if !in.inWindow(k) {
				delete(in.wcon, k)
			}
		}
		fs = append(fs, in.checkWindow(jump)...)
		for i := range fs {
			fs[i].Msg = fmt.Sprintf("%s: %s", op, fs[i].Msg)
		}
	case OpMsg:
		m := &altair.SyncCommitteeMessage{Slot: o.Slot, BeaconBlockRoot: rootN(o.Root), ValidatorIndex: o.V, Signature: sigN(0x55)}
		var err error
		if pm := guard(func() { err = in.p.AddSyncCommitteeMessage(ctx, m) }); pm != "" {
			add("panic/AddSyncCommitteeMessage", pm)
			return fs, "panic"
		}
		outcome = fmt.Sprintf("msg:%v", err == nil)
		if in.inWindow(o.Slot) != (err == nil) {
			add("sync-window/add-result", fmt.Sprintf("pool at slot %d: message for slot %d returned err=%v", in.cur, o.Slot, err))
		}
		if err == nil {
			if in.wmsgs[o.Slot] == nil {
				in.wmsgs[o.Slot] = map[common.ValidatorIndex]byte{}
			}
			in.wmsgs[o.Slot][o.V] = o.Root
		}
		for _, f := range in.checkWindow(false) {
			add(strings.TrimPrefix(f.Sig, "C20/"), f.Msg)
		}
	case OpContrib:
		c := &altair.SyncCommitteeContribution{Slot: o.Slot, BeaconBlockRoot: rootN(o.Root), SubcommitteeIndex: 0, AggregationBits: altair.SyncCommitteeSubnetBits{0x03}, Signature: sigN(0x66)}
		c.SubcommitteeIndex = viewU64(o.Subnet)
		var err error
		if pm := guard(func() { err = in.p.AddSyncCommitteeContribution(ctx, c) }); pm != "" {
			add("panic/AddSyncCommitteeContribution", pm)
			return fs, "panic"
		}
		outcome = fmt.Sprintf("contrib:%v", err == nil)
		if in.inWindow(o.Slot) != (err == nil) {
			add("sync-window/add-result", fmt.Sprintf("pool at slot %d: contribution for slot %d returned err=%v", in.cur, o.Slot, err))
		}
		if err == nil {
			if in.wcon[o.Slot] == nil {
				in.wcon[o.Slot] = map[string]int{}
			}
			in.wcon[o.Slot][fmt.Sprintf("%02x/%d", o.Root, o.Subnet)]++
		}
		for _, f := range in.checkWindow(false) {
			add(strings.TrimPrefix(f.Sig, "C20/"), f.Msg)
		}
	}
	if len(fs) > 0 {
		return
	}
	if observe {
		in.key = dump.String(in.p, dumpOpts)
		fs = append(fs, in.observe()...)
	}
	return
}

func (in *SyncInst) Key() string { return in.key }

// observe: the exported message buffers answer Select for any member list without panicking and
// only return messages that were added for that root.
func (in *SyncInst) observe() (fs []seqx.Finding) {
	msgs := pool.SyncCommitteeMessages{}
	m := &altair.SyncCommitteeMessage{Slot: 1, BeaconBlockRoot: rootN(0xa1), ValidatorIndex: 7}
	msgs[7] = m
	var out []*altair.SyncCommitteeMessage
	if pm := guard(func() { out = msgs.Select(rootN(0xa1), []common.ValidatorIndex{7, 8}) }); pm != "" {
		return []seqx.Finding{{Sig: "C20/panic/Select", Msg: "SyncCommitteeMessages.Select(root, members=[7 8]) with a message from 7 only: " + pm}}
	}
	if len(out) != 1 || out[0] != m {
		fs = append(fs, seqx.Finding{Sig: "C20/select/wrong-items", Msg: fmt.Sprintf("Select returned %d items, expected exactly the one added message", len(out))})
	}
	return
}

func viewU64(x uint64) view.Uint64View { return view.Uint64View(x) }
