// Package poolx: reference model (refpool) and seqx harnesses for C20 — the operation pools.
// The oracle is exactly the statement (DESIGN.md C20): no panic; add = nil or error; a conflicting
// second vote is reported; a duplicate changes no query result; every returned item was added,
// unaltered and matches the filter; accepted aggregates / slashings / exits stay returned (as
// participant coverage for aggregates) until pruned; pruning removes exactly what is too old.
package poolx

import (
	"bytes"
	"context"
	"fmt"
	"sort"
	"strings"

	"github.com/protolambda/zrnt/eth2/beacon/common"
	"github.com/protolambda/zrnt/eth2/beacon/phase0"
	"github.com/protolambda/zrnt/eth2/configs"
	"github.com/protolambda/zrnt/eth2/pool"

	"verif/internal/dump"
	"verif/internal/seqx"
)

var spec = func() *common.Spec {
	c := *configs.Mainnet
	c.SLOTS_PER_EPOCH = 4
	c.SYNC_COMMITTEE_SIZE = 8
	return &c
}()

var dumpOpts = &dump.Options{SkipFields: map[string]bool{
	"AttestationPool.RWMutex": true, "AttestationPool.spec": true,
	"VoluntaryExitPool.RWMutex": true, "VoluntaryExitPool.spec": true,
	"ProposerSlashingPool.RWMutex": true, "ProposerSlashingPool.spec": true,
	"AttesterSlashingPool.RWMutex": true, "AttesterSlashingPool.spec": true,
	"SyncCommitteePool.Mutex": true, "SyncCommitteePool.spec": true,
}}

func guard(f func()) (pm string) {
	defer func() {
		if r := recover(); r != nil {
			pm = fmt.Sprintf("panic: %v", r)
		}
	}()
	f()
	return
}

func rootN(b byte) (r common.Root) {
	for i := range r {
		r[i] = b
	}
	return
}

func sigN(b byte) (s common.BLSSignature) {
	for i := range s {
		s[i] = b
	}
	return
}

// ------------------------------------------------------------------ attestation pool

var committees = map[common.CommitteeIndex]common.CommitteeIndices{
	0: {10, 11, 12},
	1: {20, 21, 22},
}

// data variants: A, B same target epoch (different head), C next epoch, D other committee
var datas = map[string]phase0.AttestationData{
	"A": {Slot: 4, Index: 0, BeaconBlockRoot: rootN(0xa1), Source: common.Checkpoint{Epoch: 0, Root: rootN(1)}, Target: common.Checkpoint{Epoch: 1, Root: rootN(0xaa)}},
	"B": {Slot: 5, Index: 0, BeaconBlockRoot: rootN(0xb1), Source: common.Checkpoint{Epoch: 0, Root: rootN(1)}, Target: common.Checkpoint{Epoch: 1, Root: rootN(0xbb)}},
	"C": {Slot: 8, Index: 0, BeaconBlockRoot: rootN(0xc1), Source: common.Checkpoint{Epoch: 1, Root: rootN(0xaa)}, Target: common.Checkpoint{Epoch: 2, Root: rootN(0xcc)}},
	"D": {Slot: 4, Index: 1, BeaconBlockRoot: rootN(0xa1), Source: common.Checkpoint{Epoch: 0, Root: rootN(1)}, Target: common.Checkpoint{Epoch: 1, Root: rootN(0xaa)}},
}

type OpAtt struct {
	Data string
	Bits string // e.g. "110" (bit i = committee member i); length may deviate from the committee (malformed)
	Sig  byte
}

func (o OpAtt) String() string { return fmt.Sprintf("AddAttestation(data=%s,bits=%s,sig=%02x)", o.Data, o.Bits, o.Sig) }

type OpPrune struct{ Epoch common.Epoch }

func (o OpPrune) String() string { return fmt.Sprintf("Prune(epoch=%d)", o.Epoch) }

type OpSearch struct{}

func (OpSearch) String() string { return "Search(*)" }

func mkBits(s string) phase0.AttestationBits {
	n := len(s)
	b := make(phase0.AttestationBits, n/8+1)
	for i, c := range s {
		if c == '1' {
			b[i/8] |= 1 << uint(i%8)
		}
	}
	b[n/8] |= 1 << uint(n%8) // delimiter
	return b
}

type accepted struct {
	data string
	bits string
	sig  byte
	gone bool // handed in before a Prune that made it too old
	ok   bool // the add returned nil
}

type AttInst struct {
	p        *pool.AttestationPool
	added    []accepted        // every aggregate/single handed to the pool (for "was added")
	acc      []accepted        // aggregates whose add returned nil and that are not pruned
	singles  map[string]string // "validator/epoch" -> data of the first accepted single vote
	prunedLT common.Epoch      // everything with target epoch < prunedLT has been pruned
	key      string
	// aggVoted["validator/epoch"] = data of the accepted aggregate through which the validator voted in that epoch
	aggVoted map[string]string
	aggRoots map[string]bool // data names that have an accepted aggregate
}

type AttHarness struct{}

func (AttHarness) Name() string { return "attestation-pool" }
func (AttHarness) Fresh() seqx.Instance {
	return &AttInst{p: pool.NewAttestationPool(spec), singles: map[string]string{}, aggVoted: map[string]string{}, aggRoots: map[string]bool{}}
}

func (in *AttInst) Enabled() []fmt.Stringer {
	var ops []fmt.Stringer
	ops = append(ops, OpSearch{})
	for _, d := range []string{"A", "B", "C"} {
		for _, b := range []string{"100", "010", "001"} {
			ops = append(ops, OpAtt{d, b, 0x11})
		}
		for _, b := range []string{"110", "011", "111"} {
			ops = append(ops, OpAtt{d, b, 0x22})
		}
	}
	ops = append(ops, OpAtt{"D", "110", 0x22}, OpAtt{"D", "100", 0x11})
	// same content, other signature (not an exact duplicate)
	ops = append(ops, OpAtt{"A", "110", 0x33}, OpAtt{"A", "100", 0x33})
	// malformed: empty, bitfield longer/shorter than the committee
	ops = append(ops, OpAtt{"A", "000", 0x11}, OpAtt{"A", "1000", 0x11}, OpAtt{"A", "11", 0x22}, OpAtt{"A", "1100", 0x22})
	for _, e := range []common.Epoch{0, 2, 3, 4} { // 0: "previous epoch" saturates at genesis
		ops = append(ops, OpPrune{e})
	}
	return ops
}

func ones(s string) int { return strings.Count(s, "1") }

func (in *AttInst) Apply(op fmt.Stringer, observe bool) (fs []seqx.Finding, outcome string) {
	add := func(sig, msg string) {
		fs = append(fs, seqx.Finding{Sig: "C20/" + sig, Msg: fmt.Sprintf("%s: %s", op, msg)})
	}
	switch o := op.(type) {
	case OpSearch:
		fs = append(fs, in.observe()...)
		outcome = "search"
	case OpPrune:
		if pm := guard(func() { in.p.Prune(o.Epoch) }); pm != "" {
			add("panic/Prune", pm)
			return fs, "panic"
		}
		min := o.Epoch // everything older than the previous epoch can no longer be included
		if min > 0 {
			min--
		}
		if min > in.prunedLT {
			in.prunedLT = min
		}
		for i := range in.added {
			if datas[in.added[i].data].Target.Epoch < min {
				in.added[i].gone = true
			}
		}
		var keep []accepted
		for _, a := range in.acc {
			if datas[a.data].Target.Epoch >= min {
				keep = append(keep, a)
			}
		}
		in.acc = keep
		for k := range in.aggVoted {
			var v, e uint64
			fmt.Sscanf(k, "%d/%d", &v, &e)
			if common.Epoch(e) < min {
				delete(in.aggVoted, k)
			}
		}
		for name := range in.aggRoots {
			if _, known := datas[name]; known && datas[name].Target.Epoch < min {
				delete(in.aggRoots, name)
			}
		}
		outcome = "prune"
	case OpAtt:
		d := datas[o.Data]
		comm := committees[d.Index]
		att := &phase0.Attestation{AggregationBits: mkBits(o.Bits), Data: d, Signature: sigN(o.Sig)}
		wellFormed := len(o.Bits) == len(comm) && ones(o.Bits) > 0
		before, pm0 := in.searchAll()
		if pm0 != "" {
			add("panic/Search", pm0)
			return fs, "panic"
		}
		var err error
		if pm := guard(func() { err = in.p.AddAttestation(context.Background(), att, comm) }); pm != "" {
			add("panic/AddAttestation", pm)
			return fs, "panic"
		}
		outcome = fmt.Sprintf("add:%d:%v", ones(o.Bits), err == nil)
		in.added = append(in.added, accepted{o.Data, o.Bits, o.Sig, false, err == nil})
		if !wellFormed {
			// malformed input: only "no panic"; if it was accepted it must not corrupt anything (observe)
			if err == nil {
				// the pool accepted something the statement does not cover: which validators it booked for it is not
				// defined, the aggregate-conflict clauses are off for the rest of this path
				in.aggRoots["<malformed accepted>"] = true
			}
			break
		}
		if ones(o.Bits) == 1 {
			v := comm[strings.Index(o.Bits, "1")]
			k := fmt.Sprintf("%d/%d", v, d.Target.Epoch)
			if prev, ok := in.singles[k]; ok && d.Target.Epoch >= in.prunedLT {
				if prev != o.Data && err == nil {
					add("double-vote-not-reported", fmt.Sprintf("validator %d already voted for data %s in epoch %d; the conflicting vote was accepted without error", v, prev, d.Target.Epoch))
				}
			} else if err == nil {
				in.singles[k] = o.Data
			}
		} else {
			// aggregate for a data root that has no aggregate yet: if EVERY participant already voted for other data in
			// this epoch (through accepted aggregates) the conflict is reported; if somebody is new it is stored
			var members []string
			allConflict := true
			for i, c := range o.Bits {
				if c == '1' {
					k := fmt.Sprintf("%d/%d", comm[i], d.Target.Epoch)
					members = append(members, k)
					if prev, ok := in.aggVoted[k]; !ok || prev == o.Data {
						allConflict = false
					}
				}
			}
			if !in.aggRoots[o.Data] && !in.aggRoots["<malformed accepted>"] && d.Target.Epoch >= in.prunedLT {
				if allConflict && err == nil {
					add("aggregate-double-vote-not-reported", fmt.Sprintf("every participant of this aggregate already voted for other data in epoch %d (%v), but it was accepted without error", d.Target.Epoch, members))
				}
				if !allConflict && err != nil {
					add("aggregate-refused", fmt.Sprintf("an aggregate with a participant that has not voted in epoch %d yet was refused: %v", d.Target.Epoch, err))
				}
			}
			if err == nil {
				in.acc = append(in.acc, accepted{o.Data, o.Bits, o.Sig, false, true})
				in.aggRoots[o.Data] = true
				for _, k := range members {
					if _, ok := in.aggVoted[k]; !ok {
						in.aggVoted[k] = o.Data
					}
				}
			}
		}
		// exact duplicate (same data, bits, signature added before): no query result may change
		dup := false
		for _, a := range in.added[:len(in.added)-1] {
			dup = dup || a == (accepted{o.Data, o.Bits, o.Sig, false, true})
		}
		if dup {
			after, pm := in.searchAll()
			if pm != "" {
				add("panic/Search", pm)
				return fs, "panic"
			}
			if before != after {
				add("duplicate-changed-results", fmt.Sprintf("exact duplicate changed the search results\n before: %s\n after:  %s", before, after))
			}
		}
	}
	if len(fs) > 0 {
		return
	}
	if observe {
		in.key = in.mkKey()
		if _, isSearch := op.(OpSearch); !isSearch {
			fs = append(fs, in.observe()...)
		}
	}
	return
}

func (in *AttInst) mkKey() string {
	return fmt.Sprintf("%v|%v|%v|%d|%v|%v|", in.added, in.acc, in.singles, in.prunedLT, in.aggVoted, in.aggRoots) + dump.String(in.p, dumpOpts)
}
func (in *AttInst) Key() string { return in.key }

func attStr(a *phase0.Attestation) string {
	return fmt.Sprintf("%x/%s/%x", []byte(a.AggregationBits), a.Data.HashTreeRoot(treeHash()).String()[:10], a.Signature[:2])
}

func (in *AttInst) searchAll() (res string, pm string) {
	var out []*phase0.Attestation
	pm = guard(func() { out = in.p.Search() })
	var ss []string
	for _, a := range out {
		ss = append(ss, attStr(a))
	}
	sort.Strings(ss)
	return strings.Join(ss, ","), pm
}

// observe: every filter combination.
func (in *AttInst) observe() (fs []seqx.Finding) {
	type filt struct {
		slot *common.Slot
		comm *common.CommitteeIndex
	}
	var filters []filt
	filters = append(filters, filt{})
	for _, s := range []common.Slot{4, 5, 8, 9} {
		s := s
		filters = append(filters, filt{slot: &s})
		for _, c := range []common.CommitteeIndex{0, 1, 2} {
			c := c
			filters = append(filters, filt{slot: &s, comm: &c})
		}
	}
	for _, c := range []common.CommitteeIndex{0, 1, 2} {
		c := c
		filters = append(filters, filt{comm: &c})
	}
	for _, f := range filters {
		var opts []pool.AttSearchOption
		desc := "Search("
		if f.slot != nil {
			opts = append(opts, pool.WithSlot(*f.slot))
			desc += fmt.Sprintf("slot=%d ", *f.slot)
		}
		if f.comm != nil {
			opts = append(opts, pool.WithCommittee(*f.comm))
			desc += fmt.Sprintf("committee=%d", *f.comm)
		}
		desc += ")"
		var out []*phase0.Attestation
		if pm := guard(func() { out = in.p.Search(opts...) }); pm != "" {
			return []seqx.Finding{{Sig: "C20/panic/Search", Msg: desc + ": " + pm}}
		}
		covered := map[string]map[int]bool{}
		for _, a := range out {
			// matches the filter
			if (f.slot != nil && a.Data.Slot != *f.slot) || (f.comm != nil && a.Data.Index != *f.comm) {
				fs = append(fs, seqx.Finding{Sig: "C20/search/filter-mismatch", Msg: fmt.Sprintf("%s returned an attestation for slot %d committee %d", desc, a.Data.Slot, a.Data.Index)})
				continue
			}
			// was added, unaltered
			found := ""
			foundGone := false
			for _, ad := range in.added {
				d := datas[ad.data]
				if ad.gone {
					foundGone = foundGone || (d == a.Data && bytes.Equal(mkBits(ad.bits), a.AggregationBits) && sigN(ad.sig) == a.Signature)
					continue
				}
				if d == a.Data && bytes.Equal(mkBits(ad.bits), a.AggregationBits) && sigN(ad.sig) == a.Signature {
					found = ad.data
					for i, c := range ad.bits {
						if c == '1' {
							if covered[ad.data] == nil {
								covered[ad.data] = map[int]bool{}
							}
							covered[ad.data][i] = true
						}
					}
					break
				}
			}
			if found == "" && foundGone {
				fs = append(fs, seqx.Finding{Sig: "C20/prune/too-old-item-returned", Msg: fmt.Sprintf("%s returned %s (target epoch %d) although Prune had removed everything below epoch %d and it was not added again", desc, attStr(a), a.Data.Target.Epoch, in.prunedLT)})
				continue
			}
			if found == "" {
				fs = append(fs, seqx.Finding{Sig: "C20/search/not-an-added-item", Msg: fmt.Sprintf("%s returned %s which is not byte-identical to any added attestation", desc, attStr(a))})
				continue
			}
		}
		// retention (coverage): accepted aggregates that match the filter
		for _, a := range in.acc {
			d := datas[a.data]
			if (f.slot != nil && d.Slot != *f.slot) || (f.comm != nil && d.Index != *f.comm) {
				continue
			}
			for i, c := range a.bits {
				if c == '1' && !covered[a.data][i] {
					fs = append(fs, seqx.Finding{Sig: "C20/retention/aggregate-lost", Msg: fmt.Sprintf("%s: accepted aggregate (data %s bits %s) is no longer covered by the returned aggregates (member %d missing)", desc, a.data, a.bits, i)})
					break
				}
			}
		}
	}
	return
}
