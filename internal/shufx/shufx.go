// Package shufx: C06 — swap-or-not shuffling vs the specification's per-index function, with the
// real hash and with an OWNED hash (installed through the hashing.Hash / hashing.GetHashFn seams)
// that lets the enumeration decide every pivot and every position bit.
package shufx

import (
	"crypto/sha256"
	"encoding/binary"
	"fmt"
	"runtime"
	"sync"
	"sync/atomic"

	"github.com/protolambda/zrnt/eth2/beacon/common"
	"github.com/protolambda/zrnt/eth2/util/hashing"

	"verif/internal/core"
)

type hashFn func([]byte) [32]byte

// refShuffledIndex: consensus-specs compute_shuffled_index, verbatim.
func refShuffledIndex(h hashFn, index, n uint64, seed [32]byte, rounds int) uint64 {
	for r := 0; r < rounds; r++ {
		in := append(append([]byte{}, seed[:]...), byte(r))
		ph := h(in)
		pivot := binary.LittleEndian.Uint64(ph[:8]) % n
		flip := (pivot + n - index) % n
		pos := index
		if flip > pos {
			pos = flip
		}
		var p4 [4]byte
		binary.LittleEndian.PutUint32(p4[:], uint32(pos/256))
		src := h(append(in, p4[:]...))
		b := src[(pos%256)/8]
		if (b>>(pos%8))%2 == 1 {
			index = flip
		}
	}
	return index
}

// ---- owned hash: behaviour is a pure function of the seed bytes (thread-safe) ----
//
// seed[31]=0xC6, seed[30]=0x0F marks an owned seed. seed[0] = mode:
//   mode 1 (full pattern, n <= 32): pivot of round r = LE16(seed[1+2r:]) (r < 2);
//           bit of position p in round r = bit p of LE32(seed[5+4r:]).
//   mode 2 (single special bit): pivot (all rounds) = LE16(seed[1:]); special position = LE16(seed[3:]);
//           seed[5] = polarity: 1 => only the special position bit is set, 0 => only it is clear.

func owned(seed []byte) bool { return seed[31] == 0xC6 && seed[30] == 0x0F }

func ownedHash(in []byte) [32]byte {
	if len(in) < 33 || !owned(in[:32]) {
		return sha256.Sum256(in)
	}
	seed := in[:32]
	r := int(in[32])
	var out [32]byte
	if len(in) == 33 {
		var pv uint64
		if seed[0] == 1 {
			if r < 2 {
				pv = uint64(binary.LittleEndian.Uint16(seed[1+2*r:]))
			}
		} else {
			pv = uint64(binary.LittleEndian.Uint16(seed[1:]))
		}
		binary.LittleEndian.PutUint64(out[:8], pv)
		// garbage in the rest: only the first 8 bytes may be used
		for i := 8; i < 32; i++ {
			out[i] = 0xff
		}
		return out
	}
	w := uint64(binary.LittleEndian.Uint32(in[33:37]))
	if seed[0] == 1 {
		var pat uint32
		if r < 2 {
			pat = binary.LittleEndian.Uint32(seed[5+4*r:])
		}
		if w == 0 {
			binary.LittleEndian.PutUint32(out[:4], pat)
		}
		return out
	}
	special := uint64(binary.LittleEndian.Uint16(seed[3:]))
	pol := seed[5]
	if pol == 0 {
		for i := range out {
			out[i] = 0xff
		}
	}
	if special/256 == w {
		b := special % 256
		if pol == 1 {
			out[b/8] |= 1 << (b % 8)
		} else {
			out[b/8] &^= 1 << (b % 8)
		}
	}
	return out
}

func install() {
	hashing.Hash = ownedHash
	hashing.GetHashFn = func() hashing.HashFn { return ownedHash }
}

type ctx struct {
	run      *core.Run
	evals    int64
	nontriv  int64
	outcomes sync.Map
	nOut     int64
}

// checkOne: all four functions for one (rounds, n, seed) against the reference permutation.
func (c *ctx) checkOne(rounds int, n uint64, seed [32]byte, h hashFn, label string) {
	atomic.AddInt64(&c.evals, 1)
	rep := func(sig, msg string) {
		c.run.Report("C06/"+sig, fmt.Sprintf("%s rounds=%d n=%d seed=%x: %s", label, rounds, n, seed, msg),
			map[string]interface{}{"engine": "enumx", "rounds": rounds, "n": n, "seed": fmt.Sprintf("%x", seed), "mode": label})
	}
	defer func() {
		if r := recover(); r != nil {
			rep("panic", fmt.Sprintf("panic: %v", r))
		}
	}()
	p := make([]uint64, n)
	seen := make([]bool, n)
	ident := true
	for i := uint64(0); i < n; i++ {
		p[i] = refShuffledIndex(h, i, n, seed, rounds)
		if p[i] >= n || seen[p[i]] {
			panic("reference is not a permutation") // trusted-base self-check
		}
		seen[p[i]] = true
		ident = ident && p[i] == i
	}
	if !ident {
		atomic.AddInt64(&c.nontriv, 1)
	}
	// per-index functions
	for i := uint64(0); i < n; i++ {
		g := uint64(common.PermuteIndex(uint8(rounds), common.ValidatorIndex(i), n, seed))
		if g != p[i] {
			rep("PermuteIndex", fmt.Sprintf("PermuteIndex(%d) = %d, spec shuffled index is %d", i, g, p[i]))
			return
		}
		u := uint64(common.UnpermuteIndex(uint8(rounds), common.ValidatorIndex(p[i]), n, seed))
		if u != i {
			rep("UnpermuteIndex", fmt.Sprintf("UnpermuteIndex(%d) = %d, expected %d (inverse of the spec function)", p[i], u, i))
			return
		}
	}
	// whole-list functions on a list of distinct, non-index values
	in := make([]common.ValidatorIndex, n)
	for i := range in {
		in[i] = common.ValidatorIndex(1000 + 7*i)
	}
	sh := append([]common.ValidatorIndex{}, in...)
	common.ShuffleList(uint8(rounds), sh, seed)
	for i := uint64(0); i < n; i++ {
		if sh[p[i]] != in[i] {
			rep("ShuffleList", fmt.Sprintf("after ShuffleList the element of position %d is not at position p(%d)=%d (found %d there)", i, i, p[i], sh[p[i]]))
			return
		}
	}
	un := append([]common.ValidatorIndex{}, in...)
	common.UnshuffleList(uint8(rounds), un, seed)
	for i := uint64(0); i < n; i++ {
		if un[i] != in[p[i]] {
			rep("UnshuffleList", fmt.Sprintf("after UnshuffleList position %d holds %d, expected input[p(%d)=%d] = %d", i, un[i], i, p[i], in[p[i]]))
			return
		}
	}
	// mutual inverses on the whole list
	back := append([]common.ValidatorIndex{}, sh...)
	common.UnshuffleList(uint8(rounds), back, seed)
	for i := range back {
		if back[i] != in[i] {
			rep("roundtrip", "UnshuffleList(ShuffleList(x)) != x")
			return
		}
	}
}

func par(n int, f func(i int)) {
	var wg sync.WaitGroup
	var next int64 = -1
	for w := 0; w < runtime.NumCPU(); w++ {
		wg.Add(1)
		go func() {
			defer wg.Done()
			for {
				i := int(atomic.AddInt64(&next, 1))
				if i >= n {
					return
				}
				f(i)
			}
		}()
	}
	wg.Wait()
}

func Run(run *core.Run, thorough bool) {
	install()
	c := &ctx{run: run}
	// (1) real hash
	maxN := 600
	if thorough {
		maxN = 2100
	}
	roundsSet := []int{0, 1, 2, 3, 10, 90, 255}
	seeds := [][32]byte{sha256.Sum256([]byte("seed-a")), sha256.Sum256([]byte(fmt.Sprint("seed-", run.Seed))), {}}
	par(maxN+1, func(n int) {
		if run.Expired() {
			run.CapHit("real-hash part: time budget")
			return
		}
		for _, r := range roundsSet {
			for _, s := range seeds {
				if n > 300 && r == 255 && s != seeds[0] {
					continue
				}
				c.checkOne(r, uint64(n), s, sha256.Sum256, "real-hash")
			}
		}
	})
	// (1b) real hash, mainnet-scale sizes: both sides of the 2^16 position boundary (the 256-position hash windows
	// are numbered with more than one byte from there on), every position
	giant := []int{65535, 65536, 65537, 65800, 70000}
	if thorough {
		giant = append(giant, 131071, 131073, 140000)
	}
	par(len(giant), func(i int) {
		for _, r := range []int{1, 3} {
			c.checkOne(r, uint64(giant[i]), seeds[0], sha256.Sum256, "real-hash/mainnet-scale")
		}
	})
	// (1c) the per-index functions on lists that cannot be materialised (positions beyond 2^32 and 2^40): a grid of
	// indices per size, against the per-index specification function
	for _, n := range []uint64{1<<32 - 1, 1 << 32, 1<<32 + 5, 1 << 33, 1<<40 + 1, 1 << 63} {
		for _, r := range []int{1, 2, 10} {
			for _, sd := range seeds[:2] {
				atomic.AddInt64(&c.evals, 1)
				atomic.AddInt64(&c.nontriv, 1)
				for _, i := range []uint64{0, 1, 255, 256, 1<<32 - 1, 1 << 32, 1<<32 + 1, n / 2, n / 3, n - 2, n - 1} {
					if i >= n {
						continue
					}
					want := refShuffledIndex(sha256.Sum256, i, n, sd, r)
					got := uint64(common.PermuteIndex(uint8(r), common.ValidatorIndex(i), n, sd))
					if got != want {
						run.Report("C06/PermuteIndex", fmt.Sprintf("real-hash/huge-list rounds=%d n=%d seed=%x: PermuteIndex(%d) = %d, spec shuffled index is %d", r, n, sd, i, got, want), map[string]interface{}{"engine": "enumx", "rounds": r, "n": n})
						break
					}
					if back := uint64(common.UnpermuteIndex(uint8(r), common.ValidatorIndex(want), n, sd)); back != i {
						run.Report("C06/UnpermuteIndex", fmt.Sprintf("real-hash/huge-list rounds=%d n=%d seed=%x: UnpermuteIndex(%d) = %d, expected %d", r, n, sd, want, back, i), map[string]interface{}{"engine": "enumx", "rounds": r, "n": n})
						break
					}
				}
			}
		}
	}
	realEvals := c.evals
	// (2a) owned hash, full enumeration: every pivot x every position-bit pattern
	full1 := 10 // one round: sizes 1..full1
	full2 := 6  // two rounds: sizes 1..full2
	if thorough {
		full1, full2 = 12, 7
	}
	type job struct {
		rounds int
		n      int
		p0, p1 int
	}
	var jobs []job
	for n := 1; n <= full1; n++ {
		for p0 := 0; p0 < n; p0++ {
			jobs = append(jobs, job{1, n, p0, 0})
		}
	}
	for n := 1; n <= full2; n++ {
		for p0 := 0; p0 < n; p0++ {
			for p1 := 0; p1 < n; p1++ {
				jobs = append(jobs, job{2, n, p0, p1})
			}
		}
	}
	par(len(jobs), func(ji int) {
		j := jobs[ji]
		var seed [32]byte
		seed[31], seed[30], seed[0] = 0xC6, 0x0F, 1
		binary.LittleEndian.PutUint16(seed[1:], uint16(j.p0))
		binary.LittleEndian.PutUint16(seed[3:], uint16(j.p1))
		for pat0 := uint32(0); pat0 < 1<<uint(j.n); pat0++ {
			binary.LittleEndian.PutUint32(seed[5:], pat0)
			if j.rounds == 1 {
				c.checkOne(1, uint64(j.n), seed, ownedHash, "owned-hash/full")
				continue
			}
			for pat1 := uint32(0); pat1 < 1<<uint(j.n); pat1++ {
				binary.LittleEndian.PutUint32(seed[9:], pat1)
				c.checkOne(2, uint64(j.n), seed, ownedHash, "owned-hash/full")
			}
		}
	})
	fullEvals := c.evals - realEvals
	// (2b) owned hash, boundary sizes: every pivot x every single-set-bit and single-clear-bit pattern
	var sizes []int
	for n := 1; n <= 40; n++ {
		sizes = append(sizes, n)
	}
	for n := 250; n <= 265; n++ {
		sizes = append(sizes, n)
	}
	for n := 505; n <= 520; n++ {
		sizes = append(sizes, n)
	}
	if thorough {
		for n := 761; n <= 776; n++ {
			sizes = append(sizes, n)
		}
	}
	type job2 struct{ n, pivot int }
	var jobs2 []job2
	for _, n := range sizes {
		for p := 0; p < n; p++ {
			jobs2 = append(jobs2, job2{n, p})
		}
	}
	par(len(jobs2), func(ji int) {
		if run.Expired() {
			run.CapHit("owned-hash boundary part: time budget")
			return
		}
		j := jobs2[ji]
		var seed [32]byte
		seed[31], seed[30], seed[0] = 0xC6, 0x0F, 2
		binary.LittleEndian.PutUint16(seed[1:], uint16(j.pivot))
		for sp := 0; sp < j.n; sp++ {
			if j.n > 40 && !thorough {
				// quick tier: only the special positions next to a boundary: list ends, 8/256-position
				// refresh boundaries, the pivot and both mirror points
				near := func(x int) bool { d := sp - x; return d >= -2 && d <= 2 }
				m1, m2 := (j.pivot+1)/2, (j.pivot+j.n+1)/2
				if !(sp < 10 || sp >= j.n-10 || near(255) || near(256) || near(511) || near(512) || near(j.pivot) || near(m1) || near(m2) || sp%64 == 63) {
					continue
				}
			}
			binary.LittleEndian.PutUint16(seed[3:], uint16(sp))
			for _, pol := range []byte{1, 0} {
				seed[5] = pol
				c.checkOne(1, uint64(j.n), seed, ownedHash, "owned-hash/single-bit")
				if sp%7 == 0 {
					c.checkOne(3, uint64(j.n), seed, ownedHash, "owned-hash/single-bit")
				}
			}
		}
	})
	run.Set("evaluations", c.evals)
	run.Set("distinct_nontrivial", c.nontriv)
	run.Set("parts", map[string]interface{}{"real_hash_lists": realEvals, "owned_hash_full_enumeration": fullEvals, "owned_hash_boundary": c.evals - realEvals - fullEvals,
		"real_hash_max_size": maxN, "full_enumeration_sizes_1_round": full1, "full_enumeration_sizes_2_rounds": full2, "boundary_sizes": sizes})
	run.Set("rule", "one evaluation = one (rounds, size, seed) triple for which PermuteIndex and UnpermuteIndex at EVERY position, ShuffleList, UnshuffleList and their round trip are compared with the per-index spec function; non-trivial = the reference permutation is not the identity. (1) real SHA-256: every size 0..maxN x rounds {0,1,2,3,10,90,255} x 3 seeds. (2a) owned hash: sizes <= 10 (1 round) / <= 6 (2 rounds): EVERY pivot x EVERY position-bit pattern = every behaviour any seed can induce. (2b) owned hash: sizes 1..40, 250..265, 505..520: every pivot x every single-set-bit and single-clear-bit pattern (pins each 8- and 256-position refresh boundary and both ends of both mirror segments).")
	run.Sample(5, map[string]interface{}{"mode": "real-hash", "rounds": 90, "n": 257, "seed": fmt.Sprintf("%x", seeds[0])})
	run.Sample(5, map[string]interface{}{"mode": "owned-hash/full", "rounds": 2, "n": 6, "pivots": []int{5, 0}, "patterns": []string{"0b101101", "0b000111"}})
	run.Sample(5, map[string]interface{}{"mode": "owned-hash/single-bit", "rounds": 1, "n": 257, "pivot": 255, "special_position": 256, "polarity": "set"})
}
