// Package seqlock: the *sequential* mode of the sync shim. Exactly one logical thread uses any
// given mutex; an acquire that could never be granted (Lock on a mutex this thread already holds
// for reading or writing, RLock on a mutex it holds for writing) panics with WouldBlockForever
// instead of hanging. This is how "the call returns without blocking" is decided without any
// wall-clock oracle.
package seqlock

import (
	"fmt"
	"sync"
	"unsafe"

	vsync "github.com/protolambda/zrnt/eth2/verifsync"
)

type WouldBlockForever struct{ Op string }

func (w WouldBlockForever) Error() string { return "would block forever: " + w.Op }

type mstate struct {
	writer  bool
	readers int
}

type hook struct {
	shards [64]struct {
		mu sync.Mutex
		m  map[unsafe.Pointer]*mstate
	}
}

func (h *hook) get(p unsafe.Pointer) (*mstate, *sync.Mutex) {
	s := &h.shards[(uintptr(p)>>4)%64]
	s.mu.Lock()
	if s.m == nil {
		s.m = map[unsafe.Pointer]*mstate{}
	}
	st := s.m[p]
	if st == nil {
		st = &mstate{}
		s.m[p] = st
	}
	return st, &s.mu
}

func (h *hook) Acquire(p unsafe.Pointer, op int) {
	st, mu := h.get(p)
	defer mu.Unlock()
	switch op {
	case vsync.OpLock:
		if st.writer || st.readers > 0 {
			panic(WouldBlockForever{fmt.Sprintf("Lock on a mutex already held (writer=%v readers=%d)", st.writer, st.readers)})
		}
		st.writer = true
	case vsync.OpRLock:
		if st.writer {
			panic(WouldBlockForever{"RLock on a mutex held for writing by the same thread"})
		}
		st.readers++
	}
}

func (h *hook) Release(p unsafe.Pointer, op int) {
	st, mu := h.get(p)
	defer mu.Unlock()
	switch op {
	case vsync.OpUnlock:
		st.writer = false
	case vsync.OpRUnlock:
		st.readers--
	}
	if !st.writer && st.readers == 0 {
		s := &h.shards[(uintptr(p)>>4)%64]
		delete(s.m, p)
	}
}

// Install puts the shim in sequential mode (process-wide). Instances may be used from several
// goroutines as long as each instance is used by one goroutine at a time.
func Install() { vsync.Hook = &hook{} }
