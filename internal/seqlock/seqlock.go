// Package seqlock: the *sequential* mode of the sync shim. Exactly one logical thread uses any
// given mutex; an acquire that could never be granted (Lock on a mutex this thread already holds
// for reading or writing, RLock on a mutex it holds for writing) panics with WouldBlockForever
// instead of hanging. This is how "the call returns without blocking" is decided without any
// wall-clock oracle.
package seqlock

import (
	"fmt"
	"sync"
	"unsafe"

	vsync "github.com/protolambda/zrnt/eth2/verifsync"
)

type WouldBlockForever struct{ Op string }

func (w WouldBlockForever) Error() string { return "would block forever: " + w.Op }

// NonTermination is raised when one harness operation performs more lock acquisitions than the
// budget set with SetBudget allows: the deterministic, crash-free way in which unbounded recursion /
// looping through locked methods is observed (the alternative being a fatal stack overflow).
type NonTermination struct{ Acquisitions int64 }

func (n NonTermination) Error() string {
	return fmt.Sprintf("does not terminate: more than %d lock acquisitions in one call", n.Acquisitions)
}

// budget < 0: disabled. Only meaningful when instrumented code runs on one goroutine at a time.
var budget, budgetInit int64 = -1, -1

// SetBudget arms the per-operation acquisition budget (call before every harness operation).
func SetBudget(n int64) { budget, budgetInit = n, n }

type mstate struct {
	writer  bool
	readers int
}

type hook struct {
	shards [64]struct {
		mu sync.Mutex
		m  map[unsafe.Pointer]*mstate
	}
}

func (h *hook) get(p unsafe.Pointer) (*mstate, *sync.Mutex) {
	s := &h.shards[(uintptr(p)>>4)%64]
	s.mu.Lock()
	if s.m == nil {
		s.m = map[unsafe.Pointer]*mstate{}
	}
	st := s.m[p]
	if st == nil {
		st = &mstate{}
		s.m[p] = st
	}
	return st, &s.mu
}

func (h *hook) Acquire(p unsafe.Pointer, op int) {
	if budget >= 0 {
		if budget == 0 {
			budget = -1
			panic(NonTermination{budgetInit})
		}
		budget--
	}
	st, mu := h.get(p)
	defer mu.Unlock()
	switch op {
	case vsync.OpLock:
		if st.writer || st.readers > 0 {
			panic(WouldBlockForever{fmt.Sprintf("Lock on a mutex already held (writer=%v readers=%d)", st.writer, st.readers)})
		}
		st.writer = true
	case vsync.OpRLock:
		if st.writer {
			panic(WouldBlockForever{"RLock on a mutex held for writing by the same thread"})
		}
		st.readers++
	}
}

func (h *hook) Release(p unsafe.Pointer, op int) {
	st, mu := h.get(p)
	defer mu.Unlock()
	switch op {
	case vsync.OpUnlock:
		st.writer = false
	case vsync.OpRUnlock:
		st.readers--
	}
	if !st.writer && st.readers == 0 {
		s := &h.shards[(uintptr(p)>>4)%64]
		delete(s.m, p)
	}
}

// Install puts the shim in sequential mode (process-wide). Instances may be used from several
// goroutines as long as each instance is used by one goroutine at a time.
func Install() { vsync.Hook = &hook{} }
