package chainh

import (
	"fmt"
	"runtime"
	"sync"
	"sync/atomic"

	kbls "github.com/kilic/bls12-381"
	blsu "github.com/protolambda/bls12-381-util"
	"github.com/protolambda/zrnt/eth2/beacon"
	"github.com/protolambda/zrnt/eth2/beacon/common"
	"github.com/protolambda/zrnt/eth2/beacon/phase0"
	"github.com/protolambda/ztyp/view"

	"verif/internal/core"
	"verif/internal/refspec"
)

// GenOp: one element of the deposit alphabet of the genesis check (C13).
type GenOp struct {
	Kind   string // new | badpop | badkey | new-zerosig | topup | topup-badsig | topup-zerosig | samekey-othercreds
	Amount uint64
	Target int // for top-ups: which earlier NEW validator (0 = first base validator, -1 = latest new one)
}

func (o GenOp) String() string { return fmt.Sprintf("%s(%d,%d)", o.Kind, o.Amount, o.Target) }

func GenAlphabet(c *refspec.Cfg) []GenOp {
	inc, max := c.EffectiveBalanceIncrement, c.MaxEffectiveBalance
	return []GenOp{
		{"new", max, 0}, {"new", max - 1, 0}, {"new", max - inc, 0}, {"new", inc, 0}, {"new", inc - 1, 0}, {"new", max + inc, 0}, {"new", 2 * max, 0},
		{"badpop", max, 0}, {"badkey", max, 0},
		{"topup", inc, 0}, {"topup", inc, -1}, {"topup", max - inc, -1}, {"topup-badsig", inc, -1}, {"samekey-othercreds", inc, -1},
		// signature bytes that are not even a point encoding: a new validator is skipped, a top-up is credited
		{"topup-zerosig", inc, -1}, {"new-zerosig", max, 0},
	}
}

// buildDeposits turns a base of valid deposits plus an op sequence into deposit datas.
func (w *World) buildGenesisDeposits(base int, ops []GenOp, interleaveAt int) []refspec.DepositData {
	var datas []refspec.DepositData
	nextKey := 0
	var newKeys []int // keys that were deposited as "new" (valid or not)
	emit := func(o GenOp) {
		switch o.Kind {
		case "new":
			datas = append(datas, w.MakeDepositData(nextKey, o.Amount, BLSCreds(w.Keys[nextKey].PK), nextKey))
			newKeys = append(newKeys, nextKey)
			nextKey++
		case "badpop":
			datas = append(datas, w.MakeDepositData(nextKey, o.Amount, BLSCreds(w.Keys[nextKey].PK), (nextKey+1)%len(w.Keys)))
			newKeys = append(newKeys, nextKey)
			nextKey++
		case "new-zerosig":
			d := w.MakeDepositData(nextKey, o.Amount, BLSCreds(w.Keys[nextKey].PK), nextKey)
			d.Signature = refspec.Signature{}
			datas = append(datas, d)
			newKeys = append(newKeys, nextKey)
			nextKey++
		case "badkey":
			d := w.MakeDepositData(nextKey, o.Amount, BLSCreds(w.Keys[nextKey].PK), nextKey)
			for i := range d.Pubkey {
				d.Pubkey[i] = 0xff // not a curve point
			}
			datas = append(datas, d)
			nextKey++
		default:
			k := 0
			if o.Target < 0 && len(newKeys) > 0 {
				k = newKeys[len(newKeys)-1]
			}
			signer := k
			if o.Kind == "topup-badsig" {
				signer = (k + 1) % len(w.Keys)
			}
			creds := BLSCreds(w.Keys[k].PK)
			if o.Kind == "samekey-othercreds" {
				creds = Eth1Creds(0x77)
			}
			d := w.MakeDepositData(k, o.Amount, creds, signer)
			if o.Kind == "topup-zerosig" {
				d.Signature = refspec.Signature{}
			}
			datas = append(datas, d)
		}
	}
	for i := 0; i < base; i++ {
		if i == interleaveAt {
			for _, o := range ops {
				emit(o)
			}
		}
		emit(GenOp{"new", w.C.MaxEffectiveBalance, 0})
	}
	if interleaveAt >= base {
		for _, o := range ops {
			emit(o)
		}
	}
	return datas
}

// GenesisCheck enumerates every op sequence of length <= L (appended to, or inserted into, a base
// of valid deposits) x genesis parameters and compares zrnt's genesis with the reference.
func GenesisCheck(run *core.Run, p *Preset, L int) (evals, nontriv int64) {
	w := NewWorld(p, run.Seed, 16)
	c := w.C
	alpha := GenAlphabet(c)
	base := int(c.SlotsPerEpoch)
	type job struct {
		ops   []GenOp
		where int
	}
	var jobs []job
	var rec func(prefix []GenOp)
	rec = func(prefix []GenOp) {
		for _, where := range []int{base, 1} {
			if where == 1 && len(prefix) == 0 {
				continue
			}
			jobs = append(jobs, job{append([]GenOp{}, prefix...), where})
		}
		if len(prefix) == L {
			return
		}
		for _, o := range alpha {
			rec(append(prefix, o))
		}
	}
	rec(nil)
	var idx int64 = -1
	var wg sync.WaitGroup
	rep := func(j job, sig, msg string) {
		var names []string
		for _, o := range j.ops {
			names = append(names, o.String())
		}
		run.Report("C13/"+sig, fmt.Sprintf("deposits: %d valid base deposits with %v inserted at %d: %s", base, names, j.where, msg),
			map[string]interface{}{"engine": "enumx", "preset": p.Name, "ops": names, "insert_at": j.where})
	}
	for wk := 0; wk < runtime.NumCPU(); wk++ {
		wg.Add(1)
		go func() {
			defer wg.Done()
			for {
				i := atomic.AddInt64(&idx, 1)
				if i >= int64(len(jobs)) || run.Expired() {
					return
				}
				j := jobs[i]
				datas := w.buildGenesisDeposits(base, j.ops, j.where)
				deps := DepositsWithProofs(datas, 0, len(datas), func(i int) int { return i + 1 })
				var eth1 refspec.Bytes32
				eth1[0], eth1[31] = byte(i), 0x13
				// timestamps on both sides of MIN_GENESIS_TIME
				for _, ts := range []uint64{p.MinGenesisTime - p.GenesisDelay - 1, p.MinGenesisTime - p.GenesisDelay, p.MinGenesisTime + 7} {
					atomic.AddInt64(&evals, 1)
					ref, rerr := w.Env.InitializeBeaconStateFromEth1(eth1, ts, deps)
					var real *phase0.BeaconStateView
					var epc *common.EpochsContext
					var err error
					pm := func() (pm string) {
						defer func() {
							if r := recover(); r != nil {
								pm = fmt.Sprint(r)
							}
						}()
						real, epc, err = phase0.GenesisFromEth1(w.Spec, common.Root(eth1), common.Timestamp(ts), toRealDeposits(deps), false)
						return
					}()
					if pm != "" {
						rep(j, "panic/GenesisFromEth1", "panic: "+pm)
						break
					}
					if rerr != nil {
						panic("reference genesis rejected harness deposits: " + rerr.Error())
					}
					if uint64(len(ref.Validators)) < c.SlotsPerEpoch {
						// zrnt documents that it refuses fewer validators than slots per epoch: nothing compared
						if err == nil {
							rep(j, "genesis/too-few-validators-accepted", "fewer validators than slots per epoch but no error")
						}
						continue
					}
					if err != nil {
						rep(j, "genesis/error", fmt.Sprintf("zrnt fails (%v) where the specification builds a state with %d validators", err, len(ref.Validators)))
						break
					}
					if len(j.ops) > 0 {
						atomic.AddInt64(&nontriv, 1)
					}
					n := &Node{W: w, Ref: ref, Real: wrapReal(real), EPC: epc}
					if d := n.Diff(); d != "" {
						rep(j, "genesis/state", d)
						break
					}
					// the returned context equals the from-scratch context; assignments equal the spec's
					if fs := ContextHook(n, 0); len(fs) > 0 {
						rep(j, "genesis/"+fs[0].Sig, fs[0].Msg)
						break
					}
					if fs := CommitteeHook(n, 0); len(fs) > 0 {
						rep(j, "genesis/"+fs[0].Sig, fs[0].Msg)
						break
					}
					// validity predicate, on both sides of the active-validator threshold
					for _, minActive := range []uint64{uint64(len(ref.ActiveIndices(0))), uint64(len(ref.ActiveIndices(0))) + 1, 1} {
						sp := *w.Spec
						sp.MIN_GENESIS_ACTIVE_VALIDATOR_COUNT = viewU64(minActive)
						cc := *c
						cc.MinGenesisActiveValidatorCount = minActive
						env2 := *w.Env
						env2.C = &cc
						want := env2.IsValidGenesisState(ref)
						got, err := phase0.IsValidGenesisState(&sp, real)
						if err != nil || got != want {
							rep(j, "genesis/validity-predicate", fmt.Sprintf("IsValidGenesisState = (%v,%v) with genesis_time %d and MIN_GENESIS_ACTIVE_VALIDATOR_COUNT %d (%d active); specification: %v", got, err, ref.GenesisTime, minActive, len(ref.ActiveIndices(0)), want))
						}
					}
				}
				if i%400 == 0 {
					var names []string
					for _, o := range j.ops {
						names = append(names, o.String())
					}
					run.Sample(8, map[string]interface{}{"base_valid_deposits": base, "extra": names, "insert_at": j.where})
				}
			}
		}()
	}
	wg.Wait()
	if run.Expired() {
		run.CapHit("genesis enumeration: time budget")
	}
	// KickStartState: equals the reference on the equivalent deposits (all signatures taken as valid,
	// genesis time set directly)
	evals += kickstartCheck(run, w)
	return
}

func viewU64(x uint64) view.Uint64View { return view.Uint64View(x) }

func wrapReal(st common.BeaconState) *beacon.StandardUpgradeableBeaconState {
	return &beacon.StandardUpgradeableBeaconState{BeaconState: st}
}

func kickstartCheck(run *core.Run, w *World) int64 {
	c := w.C
	placeholder := refspec.Signature((*blsu.Signature)(kbls.NewG2().One()).Serialize())
	var n int64
	for _, count := range []int{int(c.SlotsPerEpoch), int(c.SlotsPerEpoch) + 3, 12} {
		for _, variant := range []int{0, 1} {
			n++
			var vals []phase0.KickstartValidatorData
			var datas []refspec.DepositData
			for i := 0; i < count; i++ {
				bal := c.MaxEffectiveBalance
				if variant == 1 && i%3 == 1 {
					bal = c.MaxEffectiveBalance - c.EffectiveBalanceIncrement/2
				}
				creds := BLSCreds(w.Keys[i].PK)
				vals = append(vals, phase0.KickstartValidatorData{Pubkey: common.BLSPubkey(w.Keys[i].PK), WithdrawalCredentials: common.Root(creds), Balance: common.Gwei(bal)})
				datas = append(datas, refspec.DepositData{Pubkey: w.Keys[i].PK, WithdrawalCredentials: creds, Amount: bal, Signature: placeholder})
			}
			var eth1 refspec.Bytes32
			eth1[5] = byte(count)
			time := uint64(5_000_000 + count)
			env := *w.Env
			env.Verify = func([]refspec.Pubkey, refspec.Root, refspec.Signature) bool { return true }
			deps := DepositsWithProofs(datas, 0, len(datas), func(i int) int { return i + 1 })
			ref, err := env.InitializeBeaconStateFromEth1(eth1, 0, deps)
			if err != nil {
				panic(err)
			}
			ref.GenesisTime = time
			real, epc, kerr := phase0.KickStartState(w.Spec, common.Root(eth1), common.Timestamp(time), vals)
			if kerr != nil {
				run.Report("C13/kickstart/error", fmt.Sprintf("KickStartState with %d validators fails: %v", count, kerr), map[string]interface{}{"engine": "enumx", "validators": count})
				continue
			}
			node := &Node{W: w, Ref: ref, Real: wrapReal(real), EPC: epc}
			if d := node.Diff(); d != "" {
				run.Report("C13/kickstart/state", fmt.Sprintf("KickStartState with %d validators (variant %d): %s", count, variant, d), map[string]interface{}{"engine": "enumx", "validators": count})
			}
		}
	}
	return n
}
