package chainh

import (
	"crypto/sha256"
	"fmt"

	"verif/internal/refspec"
	"verif/internal/refssz"
)

// AttPlan: one attestation of the block.
type AttPlan struct {
	Slot, Index uint64
	// Bits: which committee members attest. "full", "none-but-one" (a single member), "below" (just
	// below 2/3 of the committee), "at" (just at 2/3), or an explicit "1101" string.
	Bits        string
	WrongHead   bool // head root that is not the chain's block at that slot (target still right)
	WrongTarget bool
}

// Plan: everything the block of one slot carries.
type Plan struct {
	Name string
	// Atts == nil -> default: every committee of the previous slot fully attesting.
	Atts    []AttPlan
	NoAtts  bool
	// AttDelays: additionally attest slots (slot - d) for each d (full committees, index 0..)
	AttDelays []uint64
	Sync      string // "", "full" (default), "none", "half", "one"
	ProposerSlashings []uint64
	AttesterSlashings [][]uint64 // each: the validators that double-vote
	SurroundSlashing  []uint64   // validators of one surround-vote slashing
	Exits             []uint64
	// Payload (bellatrix, before the merge is complete only): "" = a payload that builds on the state's header (the
	// merge happens with it if it has not happened yet); "none" = the default (empty) payload of a pre-merge block;
	// "merge-arbitrary-parent" = the merge transition block with a parent hash the state knows nothing about;
	// "merge-zero-block-hash" = the same with an all-zero block hash (a non-default payload all the same).
	Payload string
	// ExitEpochBack: the exits are dated this many epochs before the current one (and signed for that epoch)
	ExitEpochBack uint64
	// NewDeposits: deposit datas appended to the eth1 tree with this block's eth1 vote… (see eth1 flip)
	BLSChanges []uint64
	Txs        int
	Blobs      int
	ExtraData  int
	// Eth1Flip: vote for eth1 data that commits to all deposits known to this history
	Eth1Flip bool
	// AddDeposits: new deposit datas become known to the history's eth1 chain before this block
	AddDeposits []DepSpec
	// Graffiti byte
	Graffiti byte
}

type DepSpec struct {
	Key    int    // key index (pubkey)
	Amount uint64 // Gwei
	BadSig bool   // proof-of-possession by another key
	// ZeroSig: 96 zero bytes as signature — not even decodable as a point. A new validator with it is skipped; a
	// top-up is credited all the same (the signature of a top-up is never looked at).
	ZeroSig bool
}

func committeeBits(mode string, n int) []bool {
	b := make([]bool, n)
	switch mode {
	case "", "full":
		for i := range b {
			b[i] = true
		}
	case "one":
		b[0] = true
	case "last":
		b[n-1] = true
	case "below": // largest k with 3k < 2n
		k := (2*n - 1) / 3
		for i := 0; i < k && i < n; i++ {
			b[i] = true
		}
		if k == 0 {
			b[0] = true
		}
	case "at": // smallest k with 3k >= 2n
		k := (2*n + 2) / 3
		for i := 0; i < k && i < n; i++ {
			b[i] = true
		}
	default:
		for i := range b {
			b[i] = i < len(mode) && mode[i] == '1'
		}
	}
	return b
}

// attData: attestation data for (slot, index) as an honest attester on this chain would produce
// it, read from the pre-block state `pre` (already advanced to the block's slot).
func attData(c *refspec.Cfg, pre *refspec.State, slot, index uint64) refspec.AttestationData {
	e := c.EpochAtSlot(slot)
	d := refspec.AttestationData{Slot: slot, Index: index}
	d.BeaconBlockRoot = pre.BlockRootAtSlot(c, slot)
	start := c.StartSlot(e)
	if start == slot {
		d.Target = refspec.Checkpoint{Epoch: e, Root: d.BeaconBlockRoot}
	} else {
		d.Target = refspec.Checkpoint{Epoch: e, Root: pre.BlockRootAtSlot(c, start)}
	}
	if e == pre.CurrentEpoch(c) {
		d.Source = pre.CurrentJustifiedCheckpoint
	} else {
		d.Source = pre.PreviousJustifiedCheckpoint
	}
	return d
}

func (w *World) valKeys(s *refspec.State, idx []uint64) []int {
	out := make([]int, len(idx))
	for i, v := range idx {
		k := w.KeyIndex(s.Validators[v].Pubkey)
		if k < 0 {
			panic("validator without a known key")
		}
		out[i] = k
	}
	return out
}

func (w *World) signAtt(pre *refspec.State, d *refspec.AttestationData, members []uint64) refspec.Signature {
	dom := pre.Domain(w.C, refspec.DomainBeaconAttester, d.Target.Epoch)
	return w.Sign(w.valKeys(pre, members), refspec.SigningRoot(refssz.Root(d, nil), dom))
}

// Produce builds the block of `slot` on top of node n per the plan. It returns the signed block and
// the reference post-state. The node is not modified.
func (n *Node) Produce(slot uint64, pl *Plan) (*refspec.SignedBlock, *refspec.State, []refspec.DepositData, error) {
	w, c := n.W, n.W.C
	pre := n.Ref.Copy(c)
	if err := w.Env.ProcessSlots(pre, slot, nil); err != nil {
		return nil, nil, nil, fmt.Errorf("reference process_slots: %v", err)
	}
	b := &refspec.Block{F: pre.F, Slot: slot, ProposerIndex: pre.ProposerIndex(c)}
	b.ParentRoot = refssz.Root(&pre.LatestBlockHeader, nil)
	y := &b.Body
	propKey := w.valKeys(pre, []uint64{b.ProposerIndex})
	epoch := pre.CurrentEpoch(c)
	{
		type ep struct{ E uint64 }
		y.RandaoReveal = w.Sign(propKey, refspec.SigningRoot(refssz.Root(&ep{epoch}, nil), pre.Domain(c, refspec.DomainRandao, epoch)))
	}
	y.Graffiti[0] = pl.Graffiti
	// eth1
	deposits := append([]refspec.DepositData{}, n.Deposits...)
	for _, ds := range pl.AddDeposits {
		signer := ds.Key
		if ds.BadSig {
			signer = (ds.Key + 1) % len(w.Keys)
		}
		creds := BLSCreds(w.Keys[ds.Key].PK)
		dd := w.MakeDepositData(ds.Key, ds.Amount, creds, signer)
		if ds.ZeroSig {
			dd.Signature = refspec.Signature{}
		}
		deposits = append(deposits, dd)
	}
	y.Eth1Data = pre.Eth1Data
	if pl.Eth1Flip {
		leaves := make([]refspec.Root, len(deposits))
		for i := range deposits {
			leaves[i] = refssz.Root(&deposits[i], nil)
		}
		_, root := DepositProof(leaves, 0)
		y.Eth1Data = refspec.Eth1Data{DepositRoot: root, DepositCount: uint64(len(deposits)), BlockHash: sha256.Sum256([]byte(fmt.Sprint("eth1-", len(deposits))))}
	}
	// pending deposits that the state's eth1 data already commits to
	// (the vote of THIS block only takes effect in process_eth1_data, which runs before operations)
	eff := pre.Eth1Data
	{
		cnt := uint64(0)
		for _, v := range pre.Eth1DataVotes {
			if v == y.Eth1Data {
				cnt++
			}
		}
		if (cnt+1)*2 > c.EpochsPerEth1VotingPeriod*c.SlotsPerEpoch {
			eff = y.Eth1Data
		}
	}
	if eff.DepositCount > pre.Eth1DepositIndex {
		k := eff.DepositCount - pre.Eth1DepositIndex
		if k > c.MaxDeposits {
			k = c.MaxDeposits
		}
		from := int(pre.Eth1DepositIndex)
		y.Deposits = DepositsWithProofs(deposits[:eff.DepositCount], from, from+int(k), func(int) int { return int(eff.DepositCount) })
	}
	// attestations
	addAtt := func(ap AttPlan) {
		if ap.Slot+c.MinAttestationInclusionDelay > slot {
			return
		}
		if ap.Index >= pre.CommitteeCountPerSlot(c, c.EpochAtSlot(ap.Slot)) {
			return
		}
		comm := pre.BeaconCommittee(c, ap.Slot, ap.Index)
		bits := committeeBits(ap.Bits, len(comm))
		var members []uint64
		for i, on := range bits {
			if on {
				members = append(members, comm[i])
			}
		}
		if len(members) == 0 {
			return
		}
		d := attData(c, pre, ap.Slot, ap.Index)
		if ap.WrongHead {
			d.BeaconBlockRoot = sha256.Sum256([]byte("not-the-head"))
		}
		if ap.WrongTarget {
			d.Target.Root = sha256.Sum256([]byte("not-the-target"))
			d.BeaconBlockRoot = d.Target.Root
		}
		y.Attestations = append(y.Attestations, refspec.Attestation{AggregationBits: bits, Data: d, Signature: w.signAtt(pre, &d, members)})
	}
	if !pl.NoAtts {
		if pl.Atts == nil && slot > 0 {
			cps := pre.CommitteeCountPerSlot(c, c.EpochAtSlot(slot-1))
			for i := uint64(0); i < cps; i++ {
				addAtt(AttPlan{Slot: slot - 1, Index: i, Bits: "full"})
			}
		}
		for _, ap := range pl.Atts {
			addAtt(ap)
		}
		for _, d := range pl.AttDelays {
			if d <= slot {
				s := slot - d
				if c.EpochAtSlot(s)+1 >= epoch {
					cps := pre.CommitteeCountPerSlot(c, c.EpochAtSlot(s))
					for i := uint64(0); i < cps; i++ {
						addAtt(AttPlan{Slot: s, Index: i, Bits: "full"})
					}
				}
			}
		}
		if uint64(len(y.Attestations)) > c.MaxAttestations {
			y.Attestations = y.Attestations[:c.MaxAttestations]
		}
	}
	// proposer slashings: two different headers of the victim at an earlier slot
	for _, v := range pl.ProposerSlashings {
		h1 := refspec.BeaconBlockHeader{Slot: slot - 1, ProposerIndex: v, ParentRoot: sha256.Sum256([]byte("p1")), BodyRoot: sha256.Sum256([]byte("b1"))}
		h2 := h1
		h2.BodyRoot = sha256.Sum256([]byte("b2"))
		dom := pre.Domain(c, refspec.DomainBeaconProposer, c.EpochAtSlot(h1.Slot))
		k := w.valKeys(pre, []uint64{v})
		y.ProposerSlashings = append(y.ProposerSlashings, refspec.ProposerSlashing{
			SignedHeader1: refspec.SignedBeaconBlockHeader{Message: h1, Signature: w.Sign(k, refspec.SigningRoot(refssz.Root(&h1, nil), dom))},
			SignedHeader2: refspec.SignedBeaconBlockHeader{Message: h2, Signature: w.Sign(k, refspec.SigningRoot(refssz.Root(&h2, nil), dom))}})
	}
	mkIA := func(d refspec.AttestationData, vals []uint64) refspec.IndexedAttestation {
		return refspec.IndexedAttestation{AttestingIndices: vals, Data: d, Signature: w.signAtt(pre, &d, vals)}
	}
	for _, vals := range pl.AttesterSlashings {
		d1 := refspec.AttestationData{Slot: slot - 1, Index: 0, BeaconBlockRoot: sha256.Sum256([]byte("x1")), Source: refspec.Checkpoint{Epoch: 0}, Target: refspec.Checkpoint{Epoch: c.EpochAtSlot(slot - 1), Root: sha256.Sum256([]byte("t1"))}}
		d2 := d1
		d2.Target.Root = sha256.Sum256([]byte("t2"))
		y.AttesterSlashings = append(y.AttesterSlashings, refspec.AttesterSlashing{Attestation1: mkIA(d1, vals), Attestation2: mkIA(d2, vals)})
	}
	if len(pl.SurroundSlashing) > 0 && epoch >= 3 {
		// attestation 1 (source e-3, target e) surrounds attestation 2 (source e-2, target e-1)
		d1 := refspec.AttestationData{Slot: c.StartSlot(epoch), Source: refspec.Checkpoint{Epoch: epoch - 3}, Target: refspec.Checkpoint{Epoch: epoch, Root: sha256.Sum256([]byte("s1"))}}
		d2 := refspec.AttestationData{Slot: c.StartSlot(epoch - 1), Source: refspec.Checkpoint{Epoch: epoch - 2}, Target: refspec.Checkpoint{Epoch: epoch - 1, Root: sha256.Sum256([]byte("s2"))}}
		y.AttesterSlashings = append(y.AttesterSlashings, refspec.AttesterSlashing{Attestation1: mkIA(d1, pl.SurroundSlashing), Attestation2: mkIA(d2, pl.SurroundSlashing)})
	}
	for _, v := range pl.Exits {
		e := refspec.VoluntaryExit{Epoch: epoch, ValidatorIndex: v}
		if pl.ExitEpochBack <= epoch {
			e.Epoch = epoch - pl.ExitEpochBack
		}
		var dom refspec.Bytes32
		if pre.F >= refspec.Deneb {
			dom = refspec.ComputeDomain(refspec.DomainVoluntaryExit, c.ForkVersions[refspec.Capella], pre.GenesisValidatorsRoot)
		} else {
			dom = pre.Domain(c, refspec.DomainVoluntaryExit, e.Epoch)
		}
		y.VoluntaryExits = append(y.VoluntaryExits, refspec.SignedVoluntaryExit{Message: e, Signature: w.Sign(w.valKeys(pre, []uint64{v}), refspec.SigningRoot(refssz.Root(&e, nil), dom))})
	}
	if pre.F >= refspec.Capella {
		for _, v := range pl.BLSChanges {
			ch := refspec.BLSToExecutionChange{ValidatorIndex: v, FromBLSPubkey: pre.Validators[v].Pubkey}
			for i := range ch.ToExecutionAddress {
				ch.ToExecutionAddress[i] = byte(0xe0 + v)
			}
			dom := refspec.ComputeDomain(refspec.DomainBLSToExecutionChange, c.GenesisForkVersion, pre.GenesisValidatorsRoot)
			y.BLSToExecutionChanges = append(y.BLSToExecutionChanges, refspec.SignedBLSToExecutionChange{Message: ch, Signature: w.Sign(w.valKeys(pre, []uint64{v}), refspec.SigningRoot(refssz.Root(&ch, nil), dom))})
		}
	}
	// sync aggregate
	if pre.F >= refspec.Altair {
		bits := make([]bool, c.SyncCommitteeSize)
		switch pl.Sync {
		case "", "full":
			for i := range bits {
				bits[i] = true
			}
		case "half":
			for i := range bits {
				bits[i] = i%2 == 0
			}
		case "one":
			bits[len(bits)-1] = true
		}
		y.SyncAggregate = refspec.SyncAggregate{SyncCommitteeBits: bits, SyncCommitteeSignature: refspec.InfinitySignature}
		var signers []int
		for i, on := range bits {
			if on {
				signers = append(signers, w.KeyIndex(pre.CurrentSyncCommittee.Pubkeys[i]))
			}
		}
		if len(signers) > 0 {
			prevSlot := slot - 1
			dom := pre.Domain(c, refspec.DomainSyncCommittee, c.EpochAtSlot(prevSlot))
			y.SyncAggregate.SyncCommitteeSignature = w.Sign(signers, refspec.SigningRoot(pre.BlockRootAtSlot(c, prevSlot), dom))
		}
	}
	// execution payload (merge happens with the first bellatrix block)
	if pre.F >= refspec.Bellatrix {
		p := refspec.DefaultPayload(c)
		if pl.Payload != "" && (pre.F != refspec.Bellatrix || pre.IsMergeTransitionComplete(c)) {
			return nil, nil, nil, fmt.Errorf("plan %q: payload variant %q only exists before the merge is complete", pl.Name, pl.Payload)
		}
		p.ParentHash = pre.LatestExecutionPayloadHeader.BlockHash
		if pl.Payload == "merge-arbitrary-parent" || pl.Payload == "merge-zero-block-hash" {
			p.ParentHash = sha256.Sum256([]byte("terminal-pow-block"))
		}
		p.PrevRandao = pre.RandaoMix(c, epoch)
		p.Timestamp = pre.GenesisTime + slot*c.SecondsPerSlot
		p.BlockNumber = pre.LatestExecutionPayloadHeader.BlockNumber + 1
		p.GasLimit = 30_000_000
		p.BaseFeePerGas[0] = 7
		for i := range p.FeeRecipient {
			p.FeeRecipient[i] = 0xfe
		}
		p.ExtraData = make([]byte, pl.ExtraData)
		for i := 0; i < pl.Txs; i++ {
			p.Transactions = append(p.Transactions, []byte{0x02, byte(i), byte(slot)})
		}
		if pre.F >= refspec.Capella {
			p.Withdrawals = pre.ExpectedWithdrawals(c)
		}
		if pre.F >= refspec.Deneb {
			for i := 0; i < pl.Blobs; i++ {
				var cm refspec.Pubkey
				cm[0], cm[1], cm[2] = 0xc0, byte(i), byte(slot)
				y.BlobKZGCommitments = append(y.BlobKZGCommitments, cm)
			}
			p.BlobGasUsed = uint64(pl.Blobs) * 131072
		}
		p.BlockHash = sha256.Sum256([]byte(fmt.Sprintf("el-block-%d-%x-%d", slot, p.ParentHash, pl.Txs)))
		if pl.Payload == "none" {
			p = refspec.DefaultPayload(c)
		}
		if pl.Payload == "merge-zero-block-hash" {
			p.BlockHash = refspec.Bytes32{} // only the engine judges block hashes
		}
		y.ExecutionPayload = p
	}
	// state root: run the reference block processing on a copy
	post := pre
	sb := &refspec.SignedBlock{Message: *b}
	var perr error
	func() {
		defer func() {
			if r := recover(); r != nil {
				perr = fmt.Errorf("plan %q not applicable at slot %d: the specification rejects the block: %v", pl.Name, slot, r)
			}
		}()
		w.Env.ProcessBlock(post, &sb.Message)
	}()
	if perr != nil {
		return nil, nil, nil, perr
	}
	sb.Message.StateRoot = post.HashTreeRoot(c)
	sb.Signature = w.Sign(propKey, refspec.SigningRoot(sb.Message.HashTreeRoot(c), pre.Domain(c, refspec.DomainBeaconProposer, epoch)))
	return sb, post, deposits, nil
}
