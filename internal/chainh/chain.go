package chainh

import (
	"bytes"
	"context"
	"crypto/sha256"
	"fmt"

	"github.com/protolambda/zrnt/eth2/beacon"
	"github.com/protolambda/zrnt/eth2/beacon/altair"
	"github.com/protolambda/zrnt/eth2/beacon/bellatrix"
	"github.com/protolambda/zrnt/eth2/beacon/capella"
	"github.com/protolambda/zrnt/eth2/beacon/common"
	"github.com/protolambda/zrnt/eth2/beacon/deneb"
	"github.com/protolambda/zrnt/eth2/beacon/phase0"
	"github.com/protolambda/ztyp/codec"
	"github.com/protolambda/ztyp/tree"

	"verif/internal/refspec"
	"verif/internal/refssz"
)

// Node: one point of an explored chain: the reference state and the real (state, context) pair.
type Node struct {
	W    *World
	Ref  *refspec.State
	Real *beacon.StandardUpgradeableBeaconState
	EPC  *common.EpochsContext
	// pending deposits known to the "eth1 chain" of this history (deposit tree leaves)
	Deposits []refspec.DepositData
}

// Branch copies the node the way a client would: CopyState + epc.Clone on the real side, deep copy
// of the reference.
func (n *Node) Branch() *Node {
	st, err := n.Real.BeaconState.CopyState()
	if err != nil {
		panic(err)
	}
	return &Node{W: n.W, Ref: n.Ref.Copy(n.W.C), Real: &beacon.StandardUpgradeableBeaconState{BeaconState: st}, EPC: n.EPC.Clone(),
		Deposits: append([]refspec.DepositData{}, n.Deposits...)}
}

// Reloaded: the same chain position with NOTHING long-lived: the real state re-read from its own bytes and a
// context built from scratch on it (what a node restarted from its database would hold).
func (n *Node) Reloaded() (*Node, error) {
	st, err := LoadReal(n.W.Spec, ForkOfReal(n.Real), RealBytes(Unwrap(n.Real)))
	if err != nil {
		return nil, err
	}
	epc, err := common.NewEpochsContext(n.W.Spec, st)
	if err != nil {
		return nil, err
	}
	return &Node{W: n.W, Ref: n.Ref.Copy(n.W.C), Real: &beacon.StandardUpgradeableBeaconState{BeaconState: st}, EPC: epc,
		Deposits: append([]refspec.DepositData{}, n.Deposits...)}, nil
}

// ---------------------------------------------------------------- deposit tree (independent)

// DepositProof: branch of leaf `index` in the depth-32 tree over the first `count` leaves, plus the
// length mix-in node (33 nodes), and the root.
func DepositProof(leaves []refspec.Root, index int) (proof []refspec.Root, root refspec.Root) {
	zero := make([]refspec.Root, 33)
	for i := 1; i < 33; i++ {
		zero[i] = sha256.Sum256(append(append([]byte{}, zero[i-1][:]...), zero[i-1][:]...))
	}
	layer := append([]refspec.Root{}, leaves...)
	idx := index
	for d := 0; d < 32; d++ {
		sib := idx ^ 1
		if sib < len(layer) {
			proof = append(proof, layer[sib])
		} else {
			proof = append(proof, zero[d])
		}
		next := make([]refspec.Root, (len(layer)+1)/2)
		for i := range next {
			l := layer[2*i]
			r := zero[d]
			if 2*i+1 < len(layer) {
				r = layer[2*i+1]
			}
			next[i] = sha256.Sum256(append(append([]byte{}, l[:]...), r[:]...))
		}
		if len(next) == 0 {
			next = []refspec.Root{zero[d+1]}
		}
		layer = next
		idx /= 2
	}
	var lenNode refspec.Root
	lenNode[0] = byte(len(leaves))
	lenNode[1] = byte(len(leaves) >> 8)
	proof = append(proof, lenNode)
	root = sha256.Sum256(append(append([]byte{}, layer[0][:]...), lenNode[:]...))
	return
}

// MakeDepositData: deposit data signed (really) by key k. badSig: signed by another key.
func (w *World) MakeDepositData(k int, amount uint64, creds refspec.Bytes32, signer int) refspec.DepositData {
	d := refspec.DepositData{Pubkey: w.Keys[k].PK, WithdrawalCredentials: creds, Amount: amount}
	msg := refspec.DepositMessage{Pubkey: d.Pubkey, WithdrawalCredentials: creds, Amount: amount}
	dom := refspec.ComputeDomain(refspec.DomainDeposit, w.C.GenesisForkVersion, refspec.Root{})
	d.Signature = w.Sign([]int{signer}, refspec.SigningRoot(refssz.Root(&msg, nil), dom))
	return d
}

func BLSCreds(pk refspec.Pubkey) (c refspec.Bytes32) {
	c = sha256.Sum256(pk[:])
	c[0] = 0
	return
}
func Eth1Creds(b byte) (c refspec.Bytes32) {
	c[0] = 1
	for i := 12; i < 32; i++ {
		c[i] = b
	}
	return
}

// DepositsWithProofs: each deposit i proven against the tree of the first i+1 leaves (genesis) or
// against the tree of `treeSize` leaves (block deposits).
func DepositsWithProofs(datas []refspec.DepositData, from, to int, treeSize func(i int) int) []refspec.Deposit {
	leaves := make([]refspec.Root, len(datas))
	for i := range datas {
		leaves[i] = refssz.Root(&datas[i], nil)
	}
	var out []refspec.Deposit
	for i := from; i < to; i++ {
		proof, _ := DepositProof(leaves[:treeSize(i)], i)
		out = append(out, refspec.Deposit{Proof: proof, Data: datas[i]})
	}
	return out
}

func toRealDeposits(deps []refspec.Deposit) []common.Deposit {
	out := make([]common.Deposit, len(deps))
	for i, d := range deps {
		for j := range d.Proof {
			out[i].Proof[j] = common.Root(d.Proof[j])
		}
		out[i].Data = common.DepositData{Pubkey: common.BLSPubkey(d.Data.Pubkey), WithdrawalCredentials: common.Root(d.Data.WithdrawalCredentials),
			Amount: common.Gwei(d.Data.Amount), Signature: common.BLSSignature(d.Data.Signature)}
	}
	return out
}

// Genesis: both sides initialised from the same eth1 data and deposits (real signatures, real proofs).
func (w *World) Genesis() (*Node, error) {
	p := w.P
	var datas []refspec.DepositData
	for i := 0; i < int(p.Validators); i++ {
		amt := w.C.MaxEffectiveBalance
		if p.GenesisBalances != nil {
			amt = p.GenesisBalances(i)
		}
		creds := BLSCreds(w.Keys[i].PK)
		// every fifth validator has an execution address: with a sweep of four the windows are 0..3 (nobody), 4..7
		// (first seat), 8..11 (second), 12..15 (third) — every offset inside the sweep, and the empty sweep
		if i%5 == 4 || p.AllEth1Creds {
			creds = Eth1Creds(byte(0x40 + i))
		}
		datas = append(datas, w.MakeDepositData(i, amt, creds, i))
	}
	deps := DepositsWithProofs(datas, 0, len(datas), func(i int) int { return i + 1 })
	var eth1 refspec.Bytes32
	for i := range eth1 {
		eth1[i] = 0x42
	}
	ref, err := w.Env.InitializeBeaconStateFromEth1(eth1, p.MinGenesisTime, deps)
	if err != nil {
		return nil, fmt.Errorf("reference genesis: %v", err)
	}
	var real *phase0.BeaconStateView
	var epc *common.EpochsContext
	func() {
		defer func() {
			if r := recover(); r != nil {
				err = fmt.Errorf("panic: %v", r)
			}
		}()
		real, epc, err = phase0.GenesisFromEth1(w.Spec, common.Root(eth1), common.Timestamp(p.MinGenesisTime), toRealDeposits(deps), false)
	}()
	if err != nil {
		return nil, fmt.Errorf("zrnt genesis: %v", err)
	}
	n := &Node{W: w, Ref: ref, Real: &beacon.StandardUpgradeableBeaconState{BeaconState: real}, EPC: epc, Deposits: datas}
	return n, nil
}

// ---------------------------------------------------------------- comparison

// Diff compares the real state with the reference state byte for byte; on mismatch it names the
// first differing field path.
func (n *Node) Diff() string {
	rb := RealBytes(Unwrap(n.Real))
	fb := n.Ref.Encode(n.W.C)
	rf := ForkOfReal(n.Real)
	if rf != n.Ref.F {
		return fmt.Sprintf("state type: real is %s, specification says %s", refspec.ForkNames[rf], refspec.ForkNames[n.Ref.F])
	}
	if bytes.Equal(rb, fb) {
		// the cached tree root must agree too
		rr := n.Real.HashTreeRoot(tree.GetHashFn())
		if refspec.Root(rr) != n.Ref.HashTreeRoot(n.W.C) {
			return fmt.Sprintf("hash-tree-root: real %x != reference %x although the serialized states are equal (stale cached subtree?)", rr, n.Ref.HashTreeRoot(n.W.C))
		}
		return ""
	}
	dec, err := refspec.DecodeState(n.W.C, rf, rb)
	if err != nil {
		return fmt.Sprintf("real state bytes are not a valid %s state: %v", refspec.ForkNames[rf], err)
	}
	return "state differs at " + FirstDiff(dec.SSZ(), n.Ref.SSZ())
}

// ---------------------------------------------------------------- block application on the real side

func (w *World) digest(f refspec.ForkID, gvr refspec.Root) common.ForkDigest {
	return common.ComputeForkDigest(common.Version(w.C.ForkVersions[f]), common.Root(gvr))
}

// RealEnvelope decodes signed block bytes with zrnt's decoder of the fork and wraps them.
func (w *World) RealEnvelope(f refspec.ForkID, b []byte, gvr refspec.Root) (*common.BeaconBlockEnvelope, error) {
	dr := codec.NewDecodingReader(bytes.NewReader(b), uint64(len(b)))
	dg := w.digest(f, gvr)
	switch f {
	case refspec.Phase0:
		var x phase0.SignedBeaconBlock
		if err := x.Deserialize(w.Spec, dr); err != nil {
			return nil, err
		}
		return x.Envelope(w.Spec, dg), nil
	case refspec.Altair:
		var x altair.SignedBeaconBlock
		if err := x.Deserialize(w.Spec, dr); err != nil {
			return nil, err
		}
		return x.Envelope(w.Spec, dg), nil
	case refspec.Bellatrix:
		var x bellatrix.SignedBeaconBlock
		if err := x.Deserialize(w.Spec, dr); err != nil {
			return nil, err
		}
		return x.Envelope(w.Spec, dg), nil
	case refspec.Capella:
		var x capella.SignedBeaconBlock
		if err := x.Deserialize(w.Spec, dr); err != nil {
			return nil, err
		}
		return x.Envelope(w.Spec, dg), nil
	case refspec.Deneb:
		var x deneb.SignedBeaconBlock
		if err := x.Deserialize(w.Spec, dr); err != nil {
			return nil, err
		}
		return x.Envelope(w.Spec, dg), nil
	}
	return nil, fmt.Errorf("bad fork")
}

// ApplyReal runs zrnt's StateTransition with the given context; a panic is returned as panicMsg.
func (n *Node) ApplyReal(ctx context.Context, sb *refspec.SignedBlock, validate bool) (err error, panicMsg string) {
	env, derr := n.W.RealEnvelope(sb.Message.F, sb.Encode(n.W.C), n.Ref.GenesisValidatorsRoot)
	if derr != nil {
		return fmt.Errorf("decode: %v", derr), ""
	}
	defer func() {
		if r := recover(); r != nil {
			panicMsg = fmt.Sprintf("panic: %v", r)
		}
	}()
	err = common.StateTransition(ctx, n.W.Spec, n.EPC, n.Real, env, validate)
	return
}

// ApplyRealPostSlots: the block part only (state already at the block's slot).
func (n *Node) ApplyRealPostSlots(ctx context.Context, sb *refspec.SignedBlock, validate bool) (err error, panicMsg string) {
	env, derr := n.W.RealEnvelope(sb.Message.F, sb.Encode(n.W.C), n.Ref.GenesisValidatorsRoot)
	if derr != nil {
		return fmt.Errorf("decode: %v", derr), ""
	}
	defer func() {
		if r := recover(); r != nil {
			panicMsg = fmt.Sprintf("panic: %v", r)
		}
	}()
	err = common.PostSlotTransition(ctx, n.W.Spec, n.EPC, n.Real, env, validate)
	return
}

// SlotsReal runs zrnt's ProcessSlots.
func (n *Node) SlotsReal(ctx context.Context, slot uint64) (err error, panicMsg string) {
	defer func() {
		if r := recover(); r != nil {
			panicMsg = fmt.Sprintf("panic: %v", r)
		}
	}()
	err = common.ProcessSlots(ctx, n.W.Spec, n.EPC, n.Real, common.Slot(slot))
	return
}
