package chainh

import (
	"context"
	"errors"
	"fmt"
	"runtime"
	"sort"
	"strings"
	"sync"
	"sync/atomic"
	"time"

	"github.com/protolambda/zrnt/eth2/beacon/common"

	"verif/internal/core"
	"verif/internal/refspec"
	"verif/internal/refssz"
)

// countingCtx: a context whose Err() counts polls and reports cancellation from poll `cancelAt` on
// (0-based; <0 = never). Done() is closed at the same moment for code that selects on it.
type countingCtx struct {
	mu       sync.Mutex
	n        int
	cancelAt int
	done     chan struct{}
	closed   bool
	sites    map[string]int
	// how the context ended: context.Canceled (default) or context.DeadlineExceeded
	endErr error
}

func newCountingCtx(cancelAt int) *countingCtx {
	return &countingCtx{cancelAt: cancelAt, done: make(chan struct{}), sites: map[string]int{}}
}

func (c *countingCtx) Deadline() (time.Time, bool)       { return time.Time{}, false }
func (c *countingCtx) Value(key interface{}) interface{} { return nil }
func (c *countingCtx) Done() <-chan struct{}             { return c.done }
func (c *countingCtx) Err() error {
	c.mu.Lock()
	defer c.mu.Unlock()
	i := c.n
	c.n++
	if c.cancelAt < 0 {
		// counting run: remember the poll site
		var pcs [8]uintptr
		k := runtime.Callers(2, pcs[:])
		fr := runtime.CallersFrames(pcs[:k])
		for {
			f, more := fr.Next()
			if strings.Contains(f.File, "/eth2/") {
				file := f.File[strings.Index(f.File, "/eth2/")+1:]
				c.sites[fmt.Sprintf("%s:%s", file, f.Function[strings.LastIndex(f.Function, "/")+1:])]++
				break
			}
			if !more {
				break
			}
		}
	}
	if c.cancelAt >= 0 && i >= c.cancelAt {
		if !c.closed {
			close(c.done)
			c.closed = true
		}
		if c.endErr != nil {
			return c.endErr
		}
		return context.Canceled
	}
	return nil
}

type FaultStats struct {
	Transitions  int64 // instrumented base transitions (block or slot advance)
	Runs         int64 // executions of the real transition (all fault variants)
	CancelPoints int64
	EngineFaults int64
	Sites        sync.Map
}

// FaultCheck: for every transition of the scenario's default history (and one-deviation variants
// from `menu`), enumerate every cancellation point and every engine verdict.
func FaultCheck(run *core.Run, sc *Scenario, menu func(n *Node, slot uint64) []Choice, st *FaultStats) {
	type task struct {
		slot uint64
		idx  int // -1 = default choice
	}
	// learn menu sizes on a throw-away spine
	w0 := NewWorld(sc.Preset, run.Seed, sc.NKeys)
	spine0, err := buildSpine(w0, sc)
	if err != nil {
		run.Report("C18/harness", err.Error(), nil)
		return
	}
	var tasks []task
	for s := uint64(1); s <= sc.Slots; s++ {
		tasks = append(tasks, task{s, -1})
		if menu != nil {
			for i := range menu(spine0[s-1], s) {
				tasks = append(tasks, task{s, i})
			}
		}
	}
	var next int64 = -1
	var wg sync.WaitGroup
	workers := runtime.NumCPU()
	if workers > len(tasks) {
		workers = len(tasks)
	}
	for wk := 0; wk < workers; wk++ {
		wg.Add(1)
		go func() {
			defer wg.Done()
			w := NewWorld(sc.Preset, run.Seed, sc.NKeys)
			w.Eng.Record = true
			spine, err := buildSpine(w, sc)
			if err != nil {
				return
			}
			for {
				i := atomic.AddInt64(&next, 1)
				if i >= int64(len(tasks)) {
					return
				}
				if run.Expired() {
					run.CapHit(sc.Name + ": time budget")
					return
				}
				t := tasks[i]
				ch := sc.Default(t.slot)
				if t.idx >= 0 {
					m := menu(spine[t.slot-1], t.slot)
					if t.idx >= len(m) {
						continue
					}
					ch = m[t.idx]
				}
				faultOne(run, sc, w, spine[t.slot-1], t.slot, ch, st)
			}
		}()
	}
	wg.Wait()
}

func buildSpine(w *World, sc *Scenario) ([]*Node, error) {
	g, err := w.Genesis()
	if err != nil {
		return nil, err
	}
	spine := []*Node{g}
	ctx := context.Background()
	for s := uint64(1); s <= sc.Slots; s++ {
		n := spine[s-1].Branch()
		ch := sc.Default(s)
		var r StepResult
		if ch.Skip {
			r = n.StepSlots(ctx, s)
		} else {
			r = n.StepBlock(ctx, s, ch.Plan)
		}
		if r.Mismatch != "" {
			return nil, fmt.Errorf("default history of %s fails at slot %d: %s", sc.Name, s, r.Mismatch)
		}
		spine = append(spine, n)
	}
	return spine, nil
}

// faultOne: all fault variants of one transition from node `from`.
func faultOne(run *core.Run, sc *Scenario, w *World, from *Node, slot uint64, ch Choice, st *FaultStats) {
	faultOneMode(run, sc, w, from, slot, ch, st, true)
	if !ch.Skip {
		// the caller that does not ask for the state-root check (block production, replay of trusted blocks) must
		// see the faults as well: nothing downstream would reveal the incomplete work
		faultOneMode(run, sc, w, from, slot, ch, st, false)
	}
}

func faultOneMode(run *core.Run, sc *Scenario, w *World, from *Node, slot uint64, ch Choice, st *FaultStats, validate bool) {
	mode := "validateResult=true"
	if !validate {
		mode = "validateResult=false"
	}
	rep := func(sig, msg string) {
		run.Report("C18/"+sig, fmt.Sprintf("scenario %s, transition to slot %d (%s, %s): %s", sc.Name, slot, ch, mode, msg),
			map[string]interface{}{"engine": "faultx", "scenario": sc.Name, "slot": slot, "choice": ch.String(), "mode": mode})
	}
	var sb *refspec.SignedBlock
	if !ch.Skip {
		var err error
		sb, _, _, err = from.Produce(slot, ch.Plan)
		if err != nil {
			return // not applicable in this state
		}
	}
	apply := func(n *Node, ctx context.Context) (error, string) {
		if ch.Skip {
			return n.SlotsReal(ctx, slot)
		}
		return n.ApplyReal(ctx, sb, validate)
	}
	atomic.AddInt64(&st.Transitions, 1)
	// plain run
	plain := from.Branch()
	w.Eng.Script = nil
	w.Eng.Reset()
	perr, pm := apply(plain, context.Background())
	atomic.AddInt64(&st.Runs, 1)
	if pm != "" || perr != nil {
		rep("plain-run-fails", fmt.Sprintf("the undisturbed transition fails: %v %s", perr, pm))
		return
	}
	plainBytes := RealBytes(Unwrap(plain.Real))
	plainCalls := append([]EngineCall{}, w.Eng.Calls...)
	// instrumented, undisturbed run: identical result
	cc := newCountingCtx(-1)
	inst := from.Branch()
	w.Eng.Reset()
	ierr, ipm := apply(inst, cc)
	atomic.AddInt64(&st.Runs, 1)
	if ipm != "" || ierr != nil {
		rep("instrumented-run-fails", fmt.Sprintf("with a counting context and a recording engine (no fault injected) the transition fails: %v %s", ierr, ipm))
		return
	}
	if string(RealBytes(Unwrap(inst.Real))) != string(plainBytes) {
		rep("instrumented-run-differs", "with a counting context (never cancelled) the post-state differs from the plain run")
	}
	P := cc.n
	for k, v := range cc.sites {
		c, _ := st.Sites.LoadOrStore(k, new(int64))
		atomic.AddInt64(c.(*int64), int64(v))
	}
	E := len(plainCalls)
	// engine arguments = what the specification prescribes
	if !ch.Skip && sb.Message.F >= refspec.Bellatrix {
		c := w.C
		wantRoot := refssz.Root(payloadSSZOf(sb), c.Params())
		for _, call := range plainCalls {
			if refspec.Root(call.PayloadRoot) != wantRoot {
				rep("engine-args/payload", fmt.Sprintf("engine call %q was shown a payload with root %s, the block's payload has root %x", call.Method, call.PayloadRoot, wantRoot))
			}
			if sb.Message.F >= refspec.Deneb && (call.Method == "notify" || call.Method == "blockhash") {
				if refspec.Root(call.ParentRoot) != sb.Message.ParentRoot {
					rep("engine-args/parent-beacon-block-root", fmt.Sprintf("engine call %q got parent beacon block root %s, expected the block's parent root %x", call.Method, call.ParentRoot, sb.Message.ParentRoot))
				}
			}
			if call.Method == "versionedhashes" {
				var want []common.Hash32
				for _, cm := range sb.Message.Body.BlobKZGCommitments {
					want = append(want, common.Hash32(refspec.KZGCommitmentToVersionedHash(cm)))
				}
				if fmt.Sprint(call.Hashes) != fmt.Sprint(want) {
					rep("engine-args/versioned-hashes", fmt.Sprintf("engine was shown versioned hashes %v, expected %v", call.Hashes, want))
				}
			}
		}
		// is_execution_enabled: a pre-merge block with the default payload is the one case without engine calls
		enabled := true
		{
			adv := from.Ref.Copy(c)
			if adv.Slot < sb.Message.Slot {
				w.Env.ProcessSlots(adv, sb.Message.Slot, nil)
			}
			enabled = w.Env.IsExecutionEnabled(adv, &sb.Message)
		}
		if E == 0 && enabled {
			rep("engine-not-consulted", "a block with an execution payload was accepted without consulting the execution engine")
		}
		if E != 0 && !enabled {
			rep("engine-consulted-before-the-merge", fmt.Sprintf("a pre-merge block with the default payload made %d engine calls", E))
		}
		hasNotify := false
		for _, call := range plainCalls {
			hasNotify = hasNotify || call.Method == "notify"
		}
		if E > 0 && !hasNotify {
			rep("engine-not-notified", "the payload was never passed to notify_new_payload")
		}
		// the queries verify_and_notify_new_payload prescribes for the fork, each exactly once (an engine that would
		// answer a skipped query with invalid/error is an engine that did not approve the payload)
		want := []string{"blockhash", "notify"}
		if sb.Message.F >= refspec.Deneb {
			want = []string{"blockhash", "versionedhashes", "notify"}
		}
		got := map[string]int{}
		for _, call := range plainCalls {
			got[call.Method]++
		}
		for _, m := range want {
			if enabled && got[m] != 1 {
				rep("engine-query-set/"+m, fmt.Sprintf("the specification consults the engine with %v for every %s payload; %q was made %d times (calls: %v, %d blob commitments)", want, refspec.ForkNames[sb.Message.F], m, got[m], methods(plainCalls), len(sb.Message.Body.BlobKZGCommitments)))
			}
		}
	}
	// every cancellation point
	for i := 0; i < P; i++ {
		for _, kind := range []error{context.Canceled, context.DeadlineExceeded} { // a context ends by cancel() or by its deadline
			n := from.Branch()
			w.Eng.Reset()
			cctx := newCountingCtx(i)
			cctx.endErr = kind
			err, pm := apply(n, cctx)
			atomic.AddInt64(&st.Runs, 1)
			atomic.AddInt64(&st.CancelPoints, 1)
			if pm != "" {
				rep("panic/cancelled", fmt.Sprintf("context ended (%v) from poll %d of %d on: %s", kind, i, P, pm))
			} else if err == nil {
				rep("cancellation-swallowed", fmt.Sprintf("context ended (%v) from poll %d of %d on, but the transition reports success", kind, i, P))
			}
		}
	}
	// every engine verdict vector (3^E, E small), which includes every single-call fault
	// verdict kinds: 0 valid, 1 invalid, 2 plain error, 3 error wrapping context.Canceled, 4 error wrapping
	// context.DeadlineExceeded (an engine client that timed out on its own, while the caller's context is alive)
	const kinds = 6 // 5: the engine client reports an error together with valid=true (the error wins)
	if E > 0 && E <= 4 {
		total := 1
		for i := 0; i < E; i++ {
			total *= kinds
		}
		for v := 1; v < total; v++ {
			vec := make([]int, E)
			x := v
			for i := range vec {
				vec[i] = x % kinds
				x /= kinds
			}
			n := from.Branch()
			w.Eng.Reset()
			w.Eng.Script = func(call int, method string) (bool, error) {
				if call < len(vec) {
					switch vec[call] {
					case 1:
						return false, nil
					case 2:
						return false, errors.New("engine unavailable (injected)")
					case 3:
						return false, fmt.Errorf("engine request failed: %w", context.Canceled)
					case 4:
						return false, fmt.Errorf("engine request failed: %w", context.DeadlineExceeded)
					case 5:
						return true, errors.New("engine answered, then the connection failed (injected)")
					}
				}
				return true, nil
			}
			err, pm := apply(n, context.Background())
			w.Eng.Script = nil
			atomic.AddInt64(&st.Runs, 1)
			atomic.AddInt64(&st.EngineFaults, 1)
			if pm != "" {
				rep("panic/engine-fault", fmt.Sprintf("engine verdicts %v (0=valid,1=invalid,2=error,3=error wrapping context.Canceled,4=error wrapping DeadlineExceeded,5=valid together with an error): %s", vec, pm))
			} else if err == nil {
				rep("engine-fault-swallowed", fmt.Sprintf("engine verdicts %v (0=valid,1=invalid,2=error,3=error wrapping context.Canceled,4=error wrapping DeadlineExceeded,5=valid together with an error) over calls %v, but the transition reports success", vec, methods(plainCalls)))
			}
		}
	}
}

func methods(cs []EngineCall) []string {
	var out []string
	for _, c := range cs {
		out = append(out, c.Method)
	}
	return out
}

func payloadSSZOf(sb *refspec.SignedBlock) interface{} {
	b := sb.Message
	switch b.F {
	case refspec.Bellatrix:
		return &b.BodySSZ().(*refspec.BeaconBlockBodyBellatrix).ExecutionPayload
	case refspec.Capella:
		return &b.BodySSZ().(*refspec.BeaconBlockBodyCapella).ExecutionPayload
	}
	return &b.BodySSZ().(*refspec.BeaconBlockBodyDeneb).ExecutionPayload
}

func (st *FaultStats) SiteList() []string {
	var out []string
	st.Sites.Range(func(k, v interface{}) bool {
		out = append(out, fmt.Sprintf("%s x%d", k.(string), *v.(*int64)))
		return true
	})
	sort.Strings(out)
	return out
}
