// Package chainh: the harness shared by the chain-based checks (C01 C02 C03 C07 C08 C13 C14 C18):
// presets (one set of numbers -> zrnt *common.Spec and refspec.Cfg), deterministic keys with real BLS
// signing + a symbolic signature table for the reference model, genesis, block production driven by
// the REFERENCE state, application to the real zrnt state, byte-level comparison.
package chainh

import (
	"bytes"
	"context"
	"crypto/sha256"
	"encoding/binary"
	"fmt"
	"sort"
	"sync"

	blsu "github.com/protolambda/bls12-381-util"
	"github.com/protolambda/zrnt/eth2/beacon"
	"github.com/protolambda/zrnt/eth2/beacon/altair"
	"github.com/protolambda/zrnt/eth2/beacon/bellatrix"
	"github.com/protolambda/zrnt/eth2/beacon/capella"
	"github.com/protolambda/zrnt/eth2/beacon/common"
	"github.com/protolambda/zrnt/eth2/beacon/deneb"
	"github.com/protolambda/zrnt/eth2/beacon/phase0"
	"github.com/protolambda/zrnt/eth2/configs"
	"github.com/protolambda/ztyp/codec"
	"github.com/protolambda/ztyp/tree"
	"github.com/protolambda/ztyp/view"

	"verif/internal/refspec"
)

const Far = ^uint64(0)

// Preset: the tiny configuration family. All numbers in one place.
type Preset struct {
	Name                                                         string
	SPE, Validators                                              uint64
	MaxCommitteesPerSlot, TargetCommitteeSize                    uint64
	ForkEpochs                                                   [5]uint64 // altair..deneb in [1..4]
	EjectionBalance                                              uint64
	MinChurn, ChurnQuotient                                      uint64
	InactivityPenaltyQuotient                                    uint64 // all forks (0 = default tiny-preset value)
	GenesisBalances                                              func(i int) uint64
	MinGenesisActive, MinGenesisTime, GenesisDelay               uint64
	MaxPerEpochActivationChurnLimit                              uint64
	SyncCommitteeSize                                            uint64
	MaxValidatorsPerCommittee                                    uint64 // 0 = 32
	AllEth1Creds                                                 bool   // every genesis validator has 0x01 credentials (default: every 4th)
	OddVectors                                                   bool   // history vectors whose lengths are not powers of two (9 mixes, 12 roots, 5 slashings)
}

func T4(forks [5]uint64) *Preset {
	return &Preset{Name: "T4", SPE: 4, Validators: 16, MaxCommitteesPerSlot: 2, TargetCommitteeSize: 2, ForkEpochs: forks,
		EjectionBalance: 16_000_000_000, MinChurn: 2, ChurnQuotient: 8, SyncCommitteeSize: 8, MaxPerEpochActivationChurnLimit: 2,
		MinGenesisActive: 4, MinGenesisTime: 1000, GenesisDelay: 100}
}

// TAgg: committees of 32 and sync subcommittees of 32, so that aggregator selection (modulo 2 for
// both committee kinds) really selects: about half of the members are aggregators (C12).
func TAgg(forks [5]uint64) *Preset {
	p := T4(forks)
	p.Name, p.Validators, p.MaxCommitteesPerSlot, p.TargetCommitteeSize, p.SyncCommitteeSize = "TAgg", 128, 1, 32, 128
	p.MinGenesisActive = 64
	p.MaxValidatorsPerCommittee = 44 // committees of 32 stay below the limit (a bitlist at a limit that is a multiple of 8 is the recorded ztyp finding of C04)
	return p
}

// TSync32: 32 sync committee seats for 16 validators — every validator holds two seats, in two different
// subcommittees (C12: per-subnet membership; C01/C07: duplicate members in the aggregate).
func TSync32(forks [5]uint64) *Preset {
	p := T4(forks)
	p.Name, p.SyncCommitteeSize = "TSync32", 32
	return p
}

var AllForks = [5]uint64{0, 1, 2, 3, 4}

// Spec builds the zrnt configuration of the preset.
func (p *Preset) Spec() *common.Spec {
	s := *configs.Minimal
	u := func(x uint64) view.Uint64View { return view.Uint64View(x) }
	s.MAX_COMMITTEES_PER_SLOT = u(p.MaxCommitteesPerSlot)
	s.TARGET_COMMITTEE_SIZE = u(p.TargetCommitteeSize)
	s.MAX_VALIDATORS_PER_COMMITTEE = u(32)
	if p.MaxValidatorsPerCommittee != 0 {
		s.MAX_VALIDATORS_PER_COMMITTEE = u(p.MaxValidatorsPerCommittee)
	}
	s.SHUFFLE_ROUND_COUNT = 3
	s.HYSTERESIS_QUOTIENT, s.HYSTERESIS_DOWNWARD_MULTIPLIER, s.HYSTERESIS_UPWARD_MULTIPLIER = 4, 1, 5
	s.MIN_DEPOSIT_AMOUNT, s.MAX_EFFECTIVE_BALANCE, s.EFFECTIVE_BALANCE_INCREMENT = 1_000_000_000, 32_000_000_000, 1_000_000_000
	s.MIN_ATTESTATION_INCLUSION_DELAY = 1
	s.SLOTS_PER_EPOCH = common.Slot(p.SPE)
	s.MIN_SEED_LOOKAHEAD, s.MAX_SEED_LOOKAHEAD = 1, 2
	s.EPOCHS_PER_ETH1_VOTING_PERIOD = 2
	s.SLOTS_PER_HISTORICAL_ROOT = common.Slot(2 * p.SPE)
	s.MIN_EPOCHS_TO_INACTIVITY_PENALTY = 2
	s.EPOCHS_PER_HISTORICAL_VECTOR = 8
	s.EPOCHS_PER_SLASHINGS_VECTOR = 4
	s.HISTORICAL_ROOTS_LIMIT = 64
	if p.OddVectors {
		s.EPOCHS_PER_HISTORICAL_VECTOR, s.EPOCHS_PER_SLASHINGS_VECTOR = 9, 5
		s.SLOTS_PER_HISTORICAL_ROOT = common.Slot(3 * p.SPE)
		s.HISTORICAL_ROOTS_LIMIT = 100
	}
	s.VALIDATOR_REGISTRY_LIMIT = 1 << 12
	s.BASE_REWARD_FACTOR = 64
	s.WHISTLEBLOWER_REWARD_QUOTIENT = 512
	s.PROPOSER_REWARD_QUOTIENT = 8
	ipq := p.InactivityPenaltyQuotient
	if ipq == 0 {
		ipq = 1 << 10
	}
	s.INACTIVITY_PENALTY_QUOTIENT = u(ipq)
	s.MIN_SLASHING_PENALTY_QUOTIENT = 64
	s.PROPORTIONAL_SLASHING_MULTIPLIER = 2
	s.MAX_PROPOSER_SLASHINGS, s.MAX_ATTESTER_SLASHINGS, s.MAX_ATTESTATIONS, s.MAX_DEPOSITS, s.MAX_VOLUNTARY_EXITS = 2, 2, 8, 3, 3
	// altair
	s.INACTIVITY_PENALTY_QUOTIENT_ALTAIR = u(ipq * 3 / 4)
	s.MIN_SLASHING_PENALTY_QUOTIENT_ALTAIR = 32
	s.PROPORTIONAL_SLASHING_MULTIPLIER_ALTAIR = 2
	s.SYNC_COMMITTEE_SIZE = u(p.SyncCommitteeSize)
	s.EPOCHS_PER_SYNC_COMMITTEE_PERIOD = 2
	s.MIN_SYNC_COMMITTEE_PARTICIPANTS = 1
	s.INACTIVITY_SCORE_BIAS, s.INACTIVITY_SCORE_RECOVERY_RATE = 4, 16
	// bellatrix
	s.INACTIVITY_PENALTY_QUOTIENT_BELLATRIX = u(ipq / 2)
	s.MIN_SLASHING_PENALTY_QUOTIENT_BELLATRIX = 16
	s.PROPORTIONAL_SLASHING_MULTIPLIER_BELLATRIX = 3
	s.MAX_BYTES_PER_TRANSACTION, s.MAX_TRANSACTIONS_PER_PAYLOAD, s.BYTES_PER_LOGS_BLOOM, s.MAX_EXTRA_DATA_BYTES = 64, 4, 256, 32 // logs bloom and extra data sizes are Go constants in zrnt
	// capella
	s.MAX_BLS_TO_EXECUTION_CHANGES, s.MAX_WITHDRAWALS_PER_PAYLOAD, s.MAX_VALIDATORS_PER_WITHDRAWALS_SWEEP = 2, 2, 4
	// deneb
	s.MAX_BLOB_COMMITMENTS_PER_BLOCK = 8
	s.MAX_BLOBS_PER_BLOCK = 3
	s.MAX_PER_EPOCH_ACTIVATION_CHURN_LIMIT = u(p.MaxPerEpochActivationChurnLimit)
	// config
	s.MIN_GENESIS_ACTIVE_VALIDATOR_COUNT = u(p.MinGenesisActive)
	s.MIN_GENESIS_TIME = common.Timestamp(p.MinGenesisTime)
	s.GENESIS_DELAY = common.Timestamp(p.GenesisDelay)
	s.GENESIS_FORK_VERSION = common.Version{0, 0, 0, 9}
	s.ALTAIR_FORK_VERSION, s.BELLATRIX_FORK_VERSION, s.CAPELLA_FORK_VERSION, s.DENEB_FORK_VERSION = common.Version{1, 0, 0, 9}, common.Version{2, 0, 0, 9}, common.Version{3, 0, 0, 9}, common.Version{4, 0, 0, 9}
	s.ELECTRA_FORK_VERSION, s.FULU_FORK_VERSION = common.Version{5, 0, 0, 9}, common.Version{6, 0, 0, 9}
	s.ALTAIR_FORK_EPOCH, s.BELLATRIX_FORK_EPOCH, s.CAPELLA_FORK_EPOCH, s.DENEB_FORK_EPOCH = common.Epoch(p.ForkEpochs[1]), common.Epoch(p.ForkEpochs[2]), common.Epoch(p.ForkEpochs[3]), common.Epoch(p.ForkEpochs[4])
	s.ELECTRA_FORK_EPOCH, s.FULU_FORK_EPOCH = common.Epoch(Far), common.Epoch(Far)
	s.SECONDS_PER_SLOT = 6
	s.MIN_VALIDATOR_WITHDRAWABILITY_DELAY = 1
	s.SHARD_COMMITTEE_PERIOD = 1
	s.EJECTION_BALANCE = common.Gwei(p.EjectionBalance)
	s.MIN_PER_EPOCH_CHURN_LIMIT = u(p.MinChurn)
	s.CHURN_LIMIT_QUOTIENT = u(p.ChurnQuotient)
	return &s
}

// CfgOf copies every number of a zrnt spec into the reference configuration (the reference model
// is parametrised by the same numbers; C14 checks the built-in constants themselves).
func CfgOf(s *common.Spec) *refspec.Cfg {
	c := &refspec.Cfg{
		MaxCommitteesPerSlot: uint64(s.MAX_COMMITTEES_PER_SLOT), TargetCommitteeSize: uint64(s.TARGET_COMMITTEE_SIZE), MaxValidatorsPerCommittee: uint64(s.MAX_VALIDATORS_PER_COMMITTEE),
		ShuffleRoundCount: uint64(s.SHUFFLE_ROUND_COUNT), HysteresisQuotient: uint64(s.HYSTERESIS_QUOTIENT), HysteresisDownwardMultiplier: uint64(s.HYSTERESIS_DOWNWARD_MULTIPLIER),
		HysteresisUpwardMultiplier: uint64(s.HYSTERESIS_UPWARD_MULTIPLIER), MinDepositAmount: uint64(s.MIN_DEPOSIT_AMOUNT), MaxEffectiveBalance: uint64(s.MAX_EFFECTIVE_BALANCE),
		EffectiveBalanceIncrement: uint64(s.EFFECTIVE_BALANCE_INCREMENT), MinAttestationInclusionDelay: uint64(s.MIN_ATTESTATION_INCLUSION_DELAY), SlotsPerEpoch: uint64(s.SLOTS_PER_EPOCH),
		MinSeedLookahead: uint64(s.MIN_SEED_LOOKAHEAD), MaxSeedLookahead: uint64(s.MAX_SEED_LOOKAHEAD), EpochsPerEth1VotingPeriod: uint64(s.EPOCHS_PER_ETH1_VOTING_PERIOD),
		SlotsPerHistoricalRoot: uint64(s.SLOTS_PER_HISTORICAL_ROOT), MinEpochsToInactivityPenalty: uint64(s.MIN_EPOCHS_TO_INACTIVITY_PENALTY), EpochsPerHistoricalVector: uint64(s.EPOCHS_PER_HISTORICAL_VECTOR),
		EpochsPerSlashingsVector: uint64(s.EPOCHS_PER_SLASHINGS_VECTOR), HistoricalRootsLimit: uint64(s.HISTORICAL_ROOTS_LIMIT), ValidatorRegistryLimit: uint64(s.VALIDATOR_REGISTRY_LIMIT),
		BaseRewardFactor: uint64(s.BASE_REWARD_FACTOR), WhistleblowerRewardQuotient: uint64(s.WHISTLEBLOWER_REWARD_QUOTIENT), ProposerRewardQuotient: uint64(s.PROPOSER_REWARD_QUOTIENT),
		InactivityPenaltyQuotient: uint64(s.INACTIVITY_PENALTY_QUOTIENT), MinSlashingPenaltyQuotient: uint64(s.MIN_SLASHING_PENALTY_QUOTIENT), ProportionalSlashingMultiplier: uint64(s.PROPORTIONAL_SLASHING_MULTIPLIER),
		MaxProposerSlashings: uint64(s.MAX_PROPOSER_SLASHINGS), MaxAttesterSlashings: uint64(s.MAX_ATTESTER_SLASHINGS), MaxAttestations: uint64(s.MAX_ATTESTATIONS), MaxDeposits: uint64(s.MAX_DEPOSITS),
		MaxVoluntaryExits: uint64(s.MAX_VOLUNTARY_EXITS),
		InactivityPenaltyQuotientAltair: uint64(s.INACTIVITY_PENALTY_QUOTIENT_ALTAIR), MinSlashingPenaltyQuotientAltair: uint64(s.MIN_SLASHING_PENALTY_QUOTIENT_ALTAIR),
		ProportionalSlashingMultiplierAltair: uint64(s.PROPORTIONAL_SLASHING_MULTIPLIER_ALTAIR), SyncCommitteeSize: uint64(s.SYNC_COMMITTEE_SIZE), EpochsPerSyncCommitteePeriod: uint64(s.EPOCHS_PER_SYNC_COMMITTEE_PERIOD),
		InactivityScoreBias: uint64(s.INACTIVITY_SCORE_BIAS), InactivityScoreRecoveryRate: uint64(s.INACTIVITY_SCORE_RECOVERY_RATE),
		InactivityPenaltyQuotientBellatrix: uint64(s.INACTIVITY_PENALTY_QUOTIENT_BELLATRIX), MinSlashingPenaltyQuotientBellatrix: uint64(s.MIN_SLASHING_PENALTY_QUOTIENT_BELLATRIX),
		ProportionalSlashingMultiplierBellatrix: uint64(s.PROPORTIONAL_SLASHING_MULTIPLIER_BELLATRIX), MaxBytesPerTransaction: uint64(s.MAX_BYTES_PER_TRANSACTION),
		MaxTransactionsPerPayload: uint64(s.MAX_TRANSACTIONS_PER_PAYLOAD), BytesPerLogsBloom: uint64(s.BYTES_PER_LOGS_BLOOM), MaxExtraDataBytes: uint64(s.MAX_EXTRA_DATA_BYTES),
		MaxBLSToExecutionChanges: uint64(s.MAX_BLS_TO_EXECUTION_CHANGES), MaxWithdrawalsPerPayload: uint64(s.MAX_WITHDRAWALS_PER_PAYLOAD), MaxValidatorsPerWithdrawalsSweep: uint64(s.MAX_VALIDATORS_PER_WITHDRAWALS_SWEEP),
		MaxBlobCommitmentsPerBlock: uint64(s.MAX_BLOB_COMMITMENTS_PER_BLOCK), MaxBlobsPerBlock: uint64(s.MAX_BLOBS_PER_BLOCK), MaxPerEpochActivationChurnLimit: uint64(s.MAX_PER_EPOCH_ACTIVATION_CHURN_LIMIT),
		MinGenesisActiveValidatorCount: uint64(s.MIN_GENESIS_ACTIVE_VALIDATOR_COUNT), MinGenesisTime: uint64(s.MIN_GENESIS_TIME), GenesisDelay: uint64(s.GENESIS_DELAY),
		GenesisForkVersion: refspec.Version(s.GENESIS_FORK_VERSION),
		SecondsPerSlot:     uint64(s.SECONDS_PER_SLOT), MinValidatorWithdrawabilityDelay: uint64(s.MIN_VALIDATOR_WITHDRAWABILITY_DELAY), ShardCommitteePeriod: uint64(s.SHARD_COMMITTEE_PERIOD),
		EjectionBalance: uint64(s.EJECTION_BALANCE), MinPerEpochChurnLimit: uint64(s.MIN_PER_EPOCH_CHURN_LIMIT), ChurnLimitQuotient: uint64(s.CHURN_LIMIT_QUOTIENT),
	}
	c.ForkVersions = [5]refspec.Version{refspec.Version(s.GENESIS_FORK_VERSION), refspec.Version(s.ALTAIR_FORK_VERSION), refspec.Version(s.BELLATRIX_FORK_VERSION), refspec.Version(s.CAPELLA_FORK_VERSION), refspec.Version(s.DENEB_FORK_VERSION)}
	c.ForkEpochs = [5]uint64{0, uint64(s.ALTAIR_FORK_EPOCH), uint64(s.BELLATRIX_FORK_EPOCH), uint64(s.CAPELLA_FORK_EPOCH), uint64(s.DENEB_FORK_EPOCH)}
	return c
}

// ---------------------------------------------------------------- keys and signatures

type Key struct {
	SK *blsu.SecretKey
	PK refspec.Pubkey
}

type sigEntry struct {
	pks  string // sorted concatenation of the signer pubkeys
	root refspec.Root
}

type World struct {
	P    *Preset
	Spec *common.Spec
	C    *refspec.Cfg
	Keys []Key
	Env  *refspec.Env
	Eng  *Engine

	mu    sync.Mutex
	sigs  map[refspec.Signature][]sigEntry
	memoAgg map[string]refspec.Signature // (signer list, root) -> serialized aggregate
	aggPK map[string]refspec.Pubkey
}

func NewWorld(p *Preset, seed int64, nKeys int) *World {
	w := &World{P: p, Spec: p.Spec(), sigs: map[refspec.Signature][]sigEntry{}, memoAgg: map[string]refspec.Signature{}, aggPK: map[string]refspec.Pubkey{}}
	w.C = CfgOf(w.Spec)
	w.Eng = &Engine{spec: w.Spec}
	w.Spec.ExecutionEngine = w.Eng
	for i := 0; i < nKeys; i++ {
		h := sha256.Sum256([]byte(fmt.Sprintf("verif-key-%d-%d", seed, i)))
		h[0] &= 0x3f // below the curve order
		var sk blsu.SecretKey
		if err := sk.Deserialize(&h); err != nil {
			panic(err)
		}
		pk, err := blsu.SkToPk(&sk)
		if err != nil {
			panic(err)
		}
		w.Keys = append(w.Keys, Key{SK: &sk, PK: pk.Serialize()})
	}
	w.Env = &refspec.Env{C: w.C, Verify: w.verify, AggregatePubkeys: w.aggregatePubkeys}
	return w
}

func pkKey(pks []refspec.Pubkey) string {
	ss := make([]string, len(pks))
	for i, p := range pks {
		ss[i] = string(p[:])
	}
	sort.Strings(ss)
	var b bytes.Buffer
	for _, s := range ss {
		b.WriteString(s)
	}
	return b.String()
}

// verify: the symbolic FastAggregateVerify of the reference model.
func (w *World) verify(pks []refspec.Pubkey, root refspec.Root, sig refspec.Signature) bool {
	if len(pks) == 0 {
		return false
	}
	w.mu.Lock()
	defer w.mu.Unlock()
	k := pkKey(pks)
	for _, e := range w.sigs[sig] {
		if e.root == root && e.pks == k {
			return true
		}
	}
	return false
}

func (w *World) aggregatePubkeys(pks []refspec.Pubkey) refspec.Pubkey {
	w.mu.Lock()
	defer w.mu.Unlock()
	var kb bytes.Buffer
	for _, p := range pks {
		kb.Write(p[:])
	}
	if v, ok := w.aggPK[kb.String()]; ok {
		return v
	}
	var ps []*blsu.Pubkey
	for i := range pks {
		var p blsu.Pubkey
		if err := p.Deserialize((*[48]byte)(&pks[i])); err != nil {
			panic(err)
		}
		ps = append(ps, &p)
	}
	agg, err := blsu.AggregatePubkeys(ps)
	if err != nil {
		panic(err)
	}
	out := refspec.Pubkey(agg.Serialize())
	w.aggPK[kb.String()] = out
	return out
}

// KeyIndex returns the index of the key with this pubkey (-1 if none).
func (w *World) KeyIndex(pk refspec.Pubkey) int {
	for i := range w.Keys {
		if w.Keys[i].PK == pk {
			return i
		}
	}
	return -1
}

// Sign: real BLS signatures by the given keys over root, aggregated; registered in the table.
// Memoised on (signer list, root) as serialized bytes: blsu objects are never shared between
// goroutines (serialisation normalises points in place).
func (w *World) Sign(keys []int, root refspec.Root) refspec.Signature {
	if len(keys) == 0 {
		panic("sign: no signers")
	}
	mk := fmt.Sprintf("%v/%x", keys, root)
	w.mu.Lock()
	if s, ok := w.memoAgg[mk]; ok {
		w.mu.Unlock()
		return s
	}
	w.mu.Unlock()
	var sigs []*blsu.Signature
	var pks []refspec.Pubkey
	for _, k := range keys {
		sigs = append(sigs, blsu.Sign(w.Keys[k].SK, root[:]))
		pks = append(pks, w.Keys[k].PK)
	}
	agg := sigs[0]
	if len(sigs) > 1 {
		var err error
		agg, err = blsu.Aggregate(sigs)
		if err != nil {
			panic(err)
		}
	}
	out := refspec.Signature(agg.Serialize())
	w.mu.Lock()
	w.memoAgg[mk] = out
	w.sigs[out] = append(w.sigs[out], sigEntry{pkKey(pks), root})
	w.mu.Unlock()
	return out
}

// ---------------------------------------------------------------- execution engine (scripted)

type EngineCall struct {
	Method      string
	PayloadRoot common.Root
	Hashes      []common.Hash32
	ParentRoot  common.Root
}

// Engine implements the bellatrix, capella and deneb engine interfaces; records every call and
// answers from Script (by call number; default valid).
type Engine struct {
	Record bool // keep the call log (off for the big explorations)
	mu     sync.Mutex
	Calls  []EngineCall
	Script func(call int, method string) (valid bool, err error)
	spec   *common.Spec
}

func (e *Engine) answer(c EngineCall) (bool, error) {
	e.mu.Lock()
	n := len(e.Calls)
	if e.Record {
		e.Calls = append(e.Calls, c)
	}
	sc := e.Script
	e.mu.Unlock()
	if sc != nil {
		return sc(n, c.Method)
	}
	return true, nil
}

func (e *Engine) Reset() { e.mu.Lock(); e.Calls = nil; e.mu.Unlock() }

func (e *Engine) BellatrixNotifyNewPayload(ctx context.Context, p *bellatrix.ExecutionPayload) (bool, error) {
	return e.answer(EngineCall{Method: "notify", PayloadRoot: p.HashTreeRoot(e.spec, tree.GetHashFn())})
}
func (e *Engine) BellatrixIsValidBlockHash(ctx context.Context, p *bellatrix.ExecutionPayload) (bool, error) {
	return e.answer(EngineCall{Method: "blockhash", PayloadRoot: p.HashTreeRoot(e.spec, tree.GetHashFn())})
}
func (e *Engine) CapellaNotifyNewPayload(ctx context.Context, p *capella.ExecutionPayload) (bool, error) {
	return e.answer(EngineCall{Method: "notify", PayloadRoot: p.HashTreeRoot(e.spec, tree.GetHashFn())})
}
func (e *Engine) CapellaIsValidBlockHash(ctx context.Context, p *capella.ExecutionPayload) (bool, error) {
	return e.answer(EngineCall{Method: "blockhash", PayloadRoot: p.HashTreeRoot(e.spec, tree.GetHashFn())})
}
func (e *Engine) DenebNotifyNewPayload(ctx context.Context, p *deneb.ExecutionPayload, parent common.Root) (bool, error) {
	return e.answer(EngineCall{Method: "notify", PayloadRoot: p.HashTreeRoot(e.spec, tree.GetHashFn()), ParentRoot: parent})
}
func (e *Engine) DenebIsValidVersionedHashes(ctx context.Context, p *deneb.ExecutionPayload, hs []common.Hash32) (bool, error) {
	return e.answer(EngineCall{Method: "versionedhashes", PayloadRoot: p.HashTreeRoot(e.spec, tree.GetHashFn()), Hashes: append([]common.Hash32{}, hs...)})
}
func (e *Engine) DenebIsValidBlockHash(ctx context.Context, p *deneb.ExecutionPayload, parent common.Root) (bool, error) {
	return e.answer(EngineCall{Method: "blockhash", PayloadRoot: p.HashTreeRoot(e.spec, tree.GetHashFn()), ParentRoot: parent})
}

// ---------------------------------------------------------------- real-state helpers

// RealBytes serialises a zrnt state view.
func RealBytes(st common.BeaconState) []byte {
	var buf bytes.Buffer
	type ser interface {
		Serialize(w *codec.EncodingWriter) error
	}
	if err := st.(ser).Serialize(codec.NewEncodingWriter(&buf)); err != nil {
		panic(err)
	}
	return buf.Bytes()
}

// Unwrap strips the upgradeable wrapper.
func Unwrap(st common.BeaconState) common.BeaconState {
	if u, ok := st.(*beacon.StandardUpgradeableBeaconState); ok {
		return u.BeaconState
	}
	return st
}

// ForkOfReal names the dynamic fork type of a zrnt state.
func ForkOfReal(st common.BeaconState) refspec.ForkID {
	switch Unwrap(st).(type) {
	case *phase0.BeaconStateView:
		return refspec.Phase0
	case *altair.BeaconStateView:
		return refspec.Altair
	case *bellatrix.BeaconStateView:
		return refspec.Bellatrix
	case *capella.BeaconStateView:
		return refspec.Capella
	case *deneb.BeaconStateView:
		return refspec.Deneb
	}
	return -1
}

// LoadReal builds a zrnt state view of the given fork from bytes.
func LoadReal(spec *common.Spec, f refspec.ForkID, b []byte) (common.BeaconState, error) {
	dr := codec.NewDecodingReader(bytes.NewReader(b), uint64(len(b)))
	switch f {
	case refspec.Phase0:
		return phase0.AsBeaconStateView(phase0.BeaconStateType(spec).Deserialize(dr))
	case refspec.Altair:
		return altair.AsBeaconStateView(altair.BeaconStateType(spec).Deserialize(dr))
	case refspec.Bellatrix:
		return bellatrix.AsBeaconStateView(bellatrix.BeaconStateType(spec).Deserialize(dr))
	case refspec.Capella:
		return capella.AsBeaconStateView(capella.BeaconStateType(spec).Deserialize(dr))
	case refspec.Deneb:
		return deneb.AsBeaconStateView(deneb.BeaconStateType(spec).Deserialize(dr))
	}
	return nil, fmt.Errorf("bad fork")
}

func u64(b []byte) uint64 { return binary.LittleEndian.Uint64(b) }
