package chainh

import (
	"context"
	"fmt"
	"sync/atomic"

	"github.com/protolambda/zrnt/eth2/beacon"
	"github.com/protolambda/zrnt/eth2/beacon/common"

	"verif/internal/core"
	"verif/internal/refspec"
)

// SyntheticRegistries (C07 part b, also a non-initial-state source for C02): states that no short chain reaches.
// Start from states of a real default chain (one per fork), then EDIT the reference state's registry with every
// combination of (registry size, effective-balance pattern, activity pattern), encode it, load it into zrnt and
// build the context from scratch. On each such state:
//   - every committee / count / proposer / sync-committee answer of the context vs the specification (CommitteeHook);
//   - zrnt's ComputeSyncCommitteeIndices for the next period vs get_next_sync_committee_indices of the specification
//     (committee sizes above and below the active set: the sampling loop wraps; low balances: candidates are
//     rejected and re-visited);
//   - both sides are advanced through the next two epoch transitions (one of them a sync-committee period boundary)
//     and compared after every slot, with the committee comparison repeated at the end.
type SynthStats struct{ States, Transitions, Skipped int64 }

type regPattern struct {
	name string
	eff  func(i, n int) uint64 // effective balance in increments (1..32)
}

type actPattern struct {
	name string
	// returns activation and exit epoch for validator i given the current epoch
	f func(i, n int, cur uint64) (act, exit uint64)
}

func SyntheticRegistries(run *core.Run, p *Preset, thorough bool, st *SynthStats) {
	SyntheticRegistriesFor(run, p, thorough, st, "C07")
}

// SyntheticRegistriesFor: prop "C07" evaluates the committee hook (context vs specification), prop "C08" the context
// hook (the context carried through the transitions vs a from-scratch one). Balances are either equal to the
// effective balances or those of the neighbour (so that effective balances change a lot at the next epoch boundary).
func SyntheticRegistriesFor(run *core.Run, p *Preset, thorough bool, st *SynthStats, prop string) {
	hook := CommitteeHook
	if prop == "C08" {
		hook = ContextHook
	}
	if prop == "C01" {
		hook = func(*Node, uint64) []HookFinding { return nil }
	}
	w := NewWorld(p, run.Seed, 48)
	c := w.C
	g, err := w.Genesis()
	if err != nil {
		run.Report(prop+"/harness", "genesis: "+err.Error(), nil)
		return
	}
	ctx := context.Background()
	effs := []regPattern{
		{"all-32", func(i, n int) uint64 { return 32 }},
		{"alternating-32-16", func(i, n int) uint64 { return uint64(32 - 16*(i%2)) }},
		{"one-32-rest-1", func(i, n int) uint64 {
			if i == n/2 {
				return 32
			}
			return 1
		}},
		{"descending-32..17", func(i, n int) uint64 { return uint64(32 - i%16) }},
		{"thirds-32-31-8", func(i, n int) uint64 { return []uint64{32, 31, 8}[i%3] }},
	}
	acts := []actPattern{
		{"all-active", func(i, n int, cur uint64) (uint64, uint64) { return 0, refspec.FarFutureEpoch }},
		{"every-third-exited", func(i, n int, cur uint64) (uint64, uint64) {
			if i%3 == 2 {
				return 0, cur
			}
			return 0, refspec.FarFutureEpoch
		}},
		{"last-quarter-activates-next-epoch+first-exits-next-epoch", func(i, n int, cur uint64) (uint64, uint64) {
			if i >= n-n/4 {
				return cur + 1, refspec.FarFutureEpoch
			}
			if i == 0 {
				return 0, cur + 1
			}
			return 0, refspec.FarFutureEpoch
		}},
	}
	sizes := []int{5, 9, 16, 17, 23, 31, 40}
	if !thorough {
		sizes = []int{5, 16, 17, 31}
	}
	if prop == "C08" && !thorough {
		sizes = []int{9, 17}
	}
	// base states: the default chain, one state per fork, taken in the middle of an epoch and at the last slot
	// before a sync-committee period boundary
	n := g
	var bases []*Node
	for slot := uint64(1); slot <= 22; slot++ {
		nn := n.Branch()
		if r := nn.StepBlock(ctx, slot, &Plan{Name: "default"}); r.Mismatch != "" {
			run.Report(prop+"/harness", "base chain: "+r.Mismatch, nil)
			return
		}
		n = nn
		if slot == 2 || slot == 6 || slot == 7 || slot == 14 || slot == 19 || slot == 22 {
			bases = append(bases, n)
		}
	}
	for _, base := range bases {
		cur := base.Ref.CurrentEpoch(c)
		for _, size := range sizes {
			for _, ep := range effs {
				for _, ap := range acts {
					balModes := []string{"balances = effective balances", "balances of the neighbour"}
					if prop == "C01" {
						balModes = []string{"balances = effective balances + 1.1 increments", "balances of the neighbour"}
					}
					for _, balMode := range balModes {
						if run.Expired() {
							run.CapHit("synthetic registries: time budget")
							return
						}
						ref := base.Ref.Copy(c)
						// resize the registry
						for len(ref.Validators) > size {
							k := len(ref.Validators) - 1
							ref.Validators, ref.Balances = ref.Validators[:k], ref.Balances[:k]
							if ref.F >= refspec.Altair {
								ref.PreviousEpochParticipation, ref.CurrentEpochParticipation, ref.InactivityScores = ref.PreviousEpochParticipation[:k], ref.CurrentEpochParticipation[:k], ref.InactivityScores[:k]
							}
						}
						for len(ref.Validators) < size {
							k := len(ref.Validators)
							ref.Validators = append(ref.Validators, refspec.Validator{Pubkey: w.Keys[k].PK, WithdrawalCredentials: BLSCreds(w.Keys[k].PK), WithdrawableEpoch: refspec.FarFutureEpoch, ExitEpoch: refspec.FarFutureEpoch})
							ref.Balances = append(ref.Balances, 0)
							if ref.F >= refspec.Altair {
								ref.PreviousEpochParticipation, ref.CurrentEpochParticipation, ref.InactivityScores = append(ref.PreviousEpochParticipation, 0), append(ref.CurrentEpochParticipation, 0), append(ref.InactivityScores, 0)
							}
						}
						if ref.F == refspec.Phase0 {
							// pending attestations name committee positions of the old registry
							ref.PreviousEpochAttestations, ref.CurrentEpochAttestations = nil, nil
						}
						for i := range ref.Validators {
							v := &ref.Validators[i]
							v.EffectiveBalance = ep.eff(i, size) * c.EffectiveBalanceIncrement
							ref.Balances[i] = v.EffectiveBalance
							switch balMode {
							case "balances of the neighbour":
								ref.Balances[i] = ep.eff((i+1)%size, size) * c.EffectiveBalanceIncrement
							case "balances = effective balances + 1.1 increments":
								ref.Balances[i] = v.EffectiveBalance + c.EffectiveBalanceIncrement*11/10
							}
							v.ActivationEpoch, v.ExitEpoch = ap.f(i, size, cur)
							v.ActivationEligibilityEpoch = 0
							v.Slashed = false
							v.WithdrawableEpoch = refspec.FarFutureEpoch
							if v.ExitEpoch != refspec.FarFutureEpoch {
								v.WithdrawableEpoch = v.ExitEpoch + c.MinValidatorWithdrawabilityDelay
							}
						}
						if ref.F >= refspec.Capella && ref.NextWithdrawalValidatorIndex >= uint64(size) {
							ref.NextWithdrawalValidatorIndex = 0
						}
						if ref.F >= refspec.Altair {
							// the stored committees must name members of THIS registry: sample them from it
							if len(ref.ActiveIndices(cur+1)) == 0 {
								atomic.AddInt64(&st.Skipped, 1)
								continue
							}
							// two DIFFERENT committees of this registry (the next one sampled under another randao mix), so
							// that a context that mixes them up is noticed
							ref.CurrentSyncCommittee = w.Env.NextSyncCommittee(ref)
							alt := ref.Copy(c)
							for k := range alt.RandaoMixes {
								alt.RandaoMixes[k][0] ^= 0x5a
							}
							ref.NextSyncCommittee = w.Env.NextSyncCommittee(alt)
						}
						desc := fmt.Sprintf("preset %s, base slot %d (%s), %d validators, effective balances %s, %s, activity %s", p.Name, base.Ref.Slot, refspec.ForkNames[ref.F], size, ep.name, balMode, ap.name)
						rep := func(sig, msg string) {
							run.Report(prop+"/synthetic/"+sig, desc+": "+msg, map[string]interface{}{"engine": "enumx", "state": desc})
						}
						real, err := LoadReal(w.Spec, ref.F, ref.Encode(c))
						if err != nil {
							rep("load", "zrnt cannot load the state: "+err.Error())
							continue
						}
						var epc *common.EpochsContext
						if pm := guardS(func() { epc, err = common.NewEpochsContext(w.Spec, real) }); pm != "" || err != nil {
							if len(ref.ActiveIndices(cur)) == 0 {
								atomic.AddInt64(&st.Skipped, 1)
								continue
							}
							rep("context", fmt.Sprintf("NewEpochsContext fails: %v %s", err, pm))
							continue
						}
						node := &Node{W: w, Ref: ref, Real: &beacon.StandardUpgradeableBeaconState{BeaconState: real}, EPC: epc}
						atomic.AddInt64(&st.States, 1)
						if fs := hook(node, ref.Slot); len(fs) > 0 {
							rep(fs[0].Sig, fs[0].Msg)
							continue
						}
						if ref.F >= refspec.Altair {
							want := ref.NextSyncCommitteeIndices(c)
							var active []common.ValidatorIndex
							for _, i := range ref.ActiveIndices(cur + 1) {
								active = append(active, common.ValidatorIndex(i))
							}
							var got []common.ValidatorIndex
							var serr error
							if pm := guardS(func() { got, serr = common.ComputeSyncCommitteeIndices(w.Spec, real, common.Epoch(cur+1), active) }); pm != "" {
								rep("panic/ComputeSyncCommitteeIndices", pm)
								continue
							}
							if len(active) == 0 {
								if serr == nil {
									rep("sync-sampling", "no active validator but ComputeSyncCommitteeIndices returned no error")
								}
							} else if serr != nil || fmt.Sprint(got) != fmt.Sprint(want) {
								rep("sync-sampling", fmt.Sprintf("ComputeSyncCommitteeIndices(next epoch) = %v (err %v), get_next_sync_committee_indices: %v", got, serr, want))
								continue
							}
						}
						if prop == "C01" {
							// a default block on the synthetic state (withdrawals, rewards, sync aggregate over this registry)
							if len(ref.ActiveIndices(cur)) == 0 {
								continue
							}
							b := node.Branch()
							atomic.AddInt64(&st.Transitions, 1)
							// four consecutive blocks: the withdrawal sweep (4 validators per block) passes over the whole small registry
							for k := uint64(1); k <= 4; k++ {
								atomic.AddInt64(&st.Transitions, 1)
								if r := b.StepBlock(ctx, ref.Slot+k, &Plan{Name: "default"}); r.Mismatch != "" {
									if !r.Skipped {
										rep("block/"+r.Sig, r.Mismatch)
									}
									break
								}
							}
							continue
						}
						// two epoch transitions, compared after every slot
						end := (cur + 2) * c.SlotsPerEpoch
						if len(ref.ActiveIndices(cur+1)) == 0 || len(ref.ActiveIndices(cur+2)) == 0 || len(ref.ActiveIndices(cur+3)) == 0 {
							continue
						}
						atomic.AddInt64(&st.Transitions, int64(end-ref.Slot))
						// the hook is evaluated after EACH of the two boundaries: the first one is where the effective
						// balances of the "neighbour" registries move, and a context that rotates with stale data is
						// right again one rotation later (seeded change C08-o)
						failed := false
						for _, stop := range []uint64{(cur + 1) * c.SlotsPerEpoch, end} {
							if r := node.StepSlots(ctx, stop); r.Mismatch != "" {
								rep("transition/"+r.Sig, r.Mismatch)
								failed = true
								break
							}
							if fs := hook(node, node.Ref.Slot); len(fs) > 0 {
								rep("after-transition/"+fs[0].Sig, fs[0].Msg)
								failed = true
								break
							}
						}
						if failed {
							continue
						}
					}
				}
			}
		}
	}
}

func guardS(f func()) (pm string) {
	defer func() {
		if r := recover(); r != nil {
			pm = fmt.Sprintf("panic: %v", r)
		}
	}()
	f()
	return
}

// SyntheticEpochs (C02, non-initial states): at the last slot of an epoch of the default chain (one base per fork
// altair..deneb) the reference state's epoch-processing inputs are EDITED with every combination of
//   - justification inputs: previous/current justified epochs, the four justification bits, finalized epoch
//     (recent or far back, so that the inactivity leak is on);
//   - participation: which validators carry the source/target/head flags in the previous and in the current epoch
//     (everyone, nobody, exactly two thirds of the stake, just below two thirds, target without source);
//   - balances around both hysteresis thresholds, a slashed validator at its correlation-penalty epoch with a small
//     or a large slashings sum, inactivity scores 0 / small / large;
//
// then ONE epoch transition is run on both sides and the states are compared. These are states no short chain of
// the menus reaches (e.g. all finalization rules with every bit pattern).
func SyntheticEpochs(run *core.Run, p *Preset, thorough bool, st *SynthStats) {
	w := NewWorld(p, run.Seed, 24)
	c := w.C
	g, err := w.Genesis()
	if err != nil {
		run.Report("C02/harness", "genesis: "+err.Error(), nil)
		return
	}
	ctx := context.Background()
	n := g
	var bases []*Node
	for slot := uint64(1); slot <= 23; slot++ {
		nn := n.Branch()
		if r := nn.StepBlock(ctx, slot, &Plan{Name: "default"}); r.Mismatch != "" {
			run.Report("C02/harness", "base chain: "+r.Mismatch, nil)
			return
		}
		n = nn
		if slot%c.SlotsPerEpoch == c.SlotsPerEpoch-1 && slot >= 7 {
			bases = append(bases, n)
		}
	}
	type part struct {
		name string
		f    func(i, n int) uint8
	}
	all := uint8(7)
	parts := []part{
		{"everyone", func(i, n int) uint8 { return all }},
		{"nobody", func(i, n int) uint8 { return 0 }},
		{"exactly-two-thirds", func(i, n int) uint8 {
			if 3*i < 2*n+0 && 3*(i+1) <= 2*n+2 {
				return all
			}
			return 0
		}},
		{"just-below-two-thirds-target-without-head", func(i, n int) uint8 {
			if 3*(i+2) <= 2*n {
				return 3
			}
			if i == n-1 {
				return 2 // target only
			}
			return 0
		}},
	}
	type misc struct {
		name string
		f    func(ref *refspec.State, E uint64)
	}
	inc := c.EffectiveBalanceIncrement
	miscs := []misc{
		{"plain", func(ref *refspec.State, E uint64) {}},
		{"balances-at-hysteresis-edges", func(ref *refspec.State, E uint64) {
			// downward threshold: eff - inc/4 ; upward: eff + 5*inc/4
			edges := []uint64{32*inc - inc/4, 32*inc - inc/4 - 1, 31*inc + 5*inc/4, 31*inc + 5*inc/4 - 1, 40 * inc, 1}
			for i := range ref.Validators {
				if i%2 == 0 {
					ref.Validators[i].EffectiveBalance = 31 * inc
				}
				ref.Balances[i] = edges[i%len(edges)]
			}
		}},
		{"slashed-at-penalty-epoch-small-sum", func(ref *refspec.State, E uint64) {
			v := &ref.Validators[1]
			v.Slashed, v.ExitEpoch, v.WithdrawableEpoch = true, E+1, E+c.EpochsPerSlashingsVector/2
			ref.Slashings[0] = 32 * inc
		}},
		{"slashed-at-penalty-epoch-large-sum+inactivity-scores", func(ref *refspec.State, E uint64) {
			for _, i := range []int{1, 2, 5} {
				v := &ref.Validators[i]
				v.Slashed, v.ExitEpoch, v.WithdrawableEpoch = true, E+1, E+c.EpochsPerSlashingsVector/2
			}
			for i := range ref.Slashings {
				ref.Slashings[i] = 70 * inc
			}
			for i := range ref.InactivityScores {
				ref.InactivityScores[i] = []uint64{0, 3, 100, 1}[i%4]
			}
		}},
	}
	for _, base := range bases {
		E := base.Ref.CurrentEpoch(c)
		for pj := int64(E) - 3; pj <= int64(E)-1; pj++ {
			for cj := pj; cj <= int64(E)-1; cj++ {
				if pj < 0 || cj < int64(E)-2 {
					continue
				}
				for _, bits := range []uint8{0, 1, 2, 3, 6, 7, 15, 5} {
					for _, finBack := range []bool{false, true} {
						for pi, pp := range parts {
							for ci, cp := range parts {
								if !thorough && (pi+ci+int(bits))%2 == 1 && bits != 7 && bits != 3 {
									continue // quick tier: half of the grid, the bit patterns of the finalization rules in full
								}
								for _, mm := range miscs {
									if run.Expired() {
										run.CapHit("synthetic epochs: time budget")
										return
									}
									ref := base.Ref.Copy(c)
									rootOf := func(e uint64) (r refspec.Root) {
										if s := c.StartSlot(e); s < ref.Slot && s+c.SlotsPerHistoricalRoot >= ref.Slot {
											return ref.BlockRoot(c, e)
										}
										r[0], r[1] = 0xcc, byte(e) // older than the root history: any root will do
										return
									}
									ref.PreviousJustifiedCheckpoint = refspec.Checkpoint{Epoch: uint64(pj), Root: rootOf(uint64(pj))}
									ref.CurrentJustifiedCheckpoint = refspec.Checkpoint{Epoch: uint64(cj), Root: rootOf(uint64(cj))}
									fe := uint64(pj)
									if fe > 0 {
										fe--
									}
									if finBack {
										fe = 0
									}
									ref.FinalizedCheckpoint = refspec.Checkpoint{Epoch: fe, Root: rootOf(fe)}
									for b := 0; b < 4; b++ {
										ref.JustificationBits[b] = bits&(1<<uint(b)) != 0
									}
									nv := len(ref.Validators)
									for i := 0; i < nv; i++ {
										ref.PreviousEpochParticipation[i] = pp.f(i, nv)
										ref.CurrentEpochParticipation[i] = cp.f(i, nv)
									}
									mm.f(ref, E)
									desc := fmt.Sprintf("preset %s, base slot %d (%s): previous justified %d, current justified %d, bits %04b, finalized %d, previous-epoch participation %s, current-epoch participation %s, %s",
										p.Name, base.Ref.Slot, refspec.ForkNames[ref.F], pj, cj, bits, fe, pp.name, cp.name, mm.name)
									rep := func(sig, msg string) {
										run.Report("C02/synthetic/"+sig, desc+": "+msg, map[string]interface{}{"engine": "enumx", "state": desc})
									}
									real, err := LoadReal(w.Spec, ref.F, ref.Encode(c))
									if err != nil {
										rep("load", "zrnt cannot load the state: "+err.Error())
										continue
									}
									var epc *common.EpochsContext
									if pm := guardS(func() { epc, err = common.NewEpochsContext(w.Spec, real) }); pm != "" || err != nil {
										rep("context", fmt.Sprintf("NewEpochsContext fails: %v %s", err, pm))
										continue
									}
									node := &Node{W: w, Ref: ref, Real: &beacon.StandardUpgradeableBeaconState{BeaconState: real}, EPC: epc}
									atomic.AddInt64(&st.States, 1)
									atomic.AddInt64(&st.Transitions, 1)
									if r := node.StepSlots(ctx, ref.Slot+1); r.Mismatch != "" {
										rep("transition/"+r.Sig, r.Mismatch)
									}
								}
							}
						}
					}
				}
			}
		}
	}
}
