package chainh

import (
	"context"
	"fmt"

	"verif/internal/refspec"
)

// StepResult of applying one slot choice to a node (in place).
type StepResult struct {
	Skipped  bool   // the plan was not applicable in this state (nothing happened)
	Mismatch string // non-empty: real and reference disagree (or real panicked)
	Sig      string // signature class of the mismatch
}

// StepBlock produces the block of `slot` per plan from the reference state, applies it to the
// reference and (through bytes) to zrnt with validateResult=true, and compares the post-states.
func (n *Node) StepBlock(ctx context.Context, slot uint64, pl *Plan) StepResult {
	return n.StepBlockMode(ctx, slot, pl, false)
}

// StepBlockMode: with perSlot the slots up to the block's slot are processed one by one on both
// sides and compared after EACH slot (C02); the block is then applied to the slot-processed state.
func (n *Node) StepBlockMode(ctx context.Context, slot uint64, pl *Plan, perSlot bool) StepResult {
	sb, post, deposits, err := n.Produce(slot, pl)
	if err != nil {
		return StepResult{Skipped: true, Mismatch: err.Error()}
	}
	var rerr error
	var pm string
	if perSlot {
		if r := n.StepSlots(ctx, slot); r.Mismatch != "" {
			return r
		}
		rerr, pm = n.ApplyRealPostSlots(ctx, sb, true)
	} else {
		rerr, pm = n.ApplyReal(ctx, sb, true)
	}
	n.Ref = post
	n.Deposits = deposits
	if pm != "" {
		return StepResult{Mismatch: fmt.Sprintf("block %q at slot %d: zrnt %s", pl.Name, slot, pm), Sig: "panic/StateTransition"}
	}
	if rerr != nil {
		return StepResult{Mismatch: fmt.Sprintf("block %q at slot %d (%s) is valid per the specification but zrnt rejects it: %v", pl.Name, slot, forkName(sb), rerr), Sig: "valid-block-rejected"}
	}
	if d := n.Diff(); d != "" {
		return StepResult{Mismatch: fmt.Sprintf("after block %q at slot %d (%s): %s", pl.Name, slot, forkName(sb), d), Sig: "post-state"}
	}
	return StepResult{}
}

// StepSlots advances both sides to `slot` without a block, comparing after EACH slot.
func (n *Node) StepSlots(ctx context.Context, slot uint64) StepResult {
	for s := n.Ref.Slot + 1; s <= slot; s++ {
		if err := n.W.Env.ProcessSlots(n.Ref, s, nil); err != nil {
			panic(fmt.Sprintf("reference process_slots failed: %v", err))
		}
		rerr, pm := n.SlotsReal(ctx, s)
		if pm != "" {
			return StepResult{Mismatch: fmt.Sprintf("ProcessSlots to slot %d: zrnt %s", s, pm), Sig: "panic/ProcessSlots"}
		}
		if rerr != nil {
			return StepResult{Mismatch: fmt.Sprintf("ProcessSlots to slot %d: zrnt error %v", s, rerr), Sig: "slots-error"}
		}
		if d := n.Diff(); d != "" {
			return StepResult{Mismatch: fmt.Sprintf("after ProcessSlots to slot %d (epoch %d): %s", s, s/n.W.C.SlotsPerEpoch, d), Sig: "slot-state"}
		}
	}
	return StepResult{}
}

func forkName(sb *refspec.SignedBlock) string { return refspec.ForkNames[sb.Message.F] }
