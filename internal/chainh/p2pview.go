package chainh

import (
	"context"
	"errors"
	"fmt"
	"time"

	"github.com/protolambda/zrnt/eth2/beacon"
	"github.com/protolambda/zrnt/eth2/beacon/common"

	"verif/internal/refspec"
	"verif/internal/refssz"
)

// View: a node's chain view for gossip validation — a block tree of real states and contexts
// produced by real transitions (ancestry answered by the explicit tree), a clock, seen-caches that
// record every Mark* call. It implements every gossipval backend interface and beacon.Chain.
type View struct {
	W      *World
	Blocks map[common.Root]*ViewBlock
	Order  []*ViewBlock
	HeadR  common.Root
	Fin    common.Checkpoint
	Just   common.Checkpoint
	GVR    common.Root
	// clock: current time = start of NowSlot + OffsetMs milliseconds
	NowSlot  uint64
	OffsetMs int64
	Bad      map[common.Root]bool
	Seen     map[string]bool // pre-marked entries
	Marks    []string        // every Mark* call, in order
	towards  map[string]*Node
}

type ViewBlock struct {
	Root   common.Root
	Parent common.Root
	Slot   uint64
	Node   *Node // post-block (real state + context + reference state)
	Signed *refspec.SignedBlock
}

func NewView(w *World, genesis *Node) *View {
	v := &View{W: w, Blocks: map[common.Root]*ViewBlock{}, Bad: map[common.Root]bool{}, Seen: map[string]bool{}, towards: map[string]*Node{}}
	v.GVR = common.Root(genesis.Ref.GenesisValidatorsRoot)
	// genesis block root: latest header with the state root filled in
	h := genesis.Ref.LatestBlockHeader
	h.StateRoot = genesis.Ref.HashTreeRoot(w.C)
	gr := common.Root(refssz.Root(&h, nil))
	b := &ViewBlock{Root: gr, Slot: 0, Node: genesis}
	v.Blocks[gr] = b
	v.Order = append(v.Order, b)
	v.HeadR = gr
	v.Fin = common.Checkpoint{Epoch: 0, Root: gr}
	v.Just = v.Fin
	return v
}

// AddBlock applies a (valid) plan on top of `parent` at `slot`, stores the resulting block.
func (v *View) AddBlock(parent common.Root, slot uint64, pl *Plan) (*ViewBlock, error) {
	pb, ok := v.Blocks[parent]
	if !ok {
		return nil, errors.New("unknown parent")
	}
	n := pb.Node.Branch()
	sb, _, _, err := n.Produce(slot, pl)
	if err != nil {
		return nil, err
	}
	if r := n.StepBlock(context.Background(), slot, pl); r.Mismatch != "" {
		return nil, errors.New(r.Mismatch)
	}
	root := common.Root(sb.Message.HashTreeRoot(v.W.C))
	b := &ViewBlock{Root: root, Parent: parent, Slot: slot, Node: n, Signed: sb}
	v.Blocks[root] = b
	v.Order = append(v.Order, b)
	return b, nil
}

// SetHead makes `root` the head and takes justified/finalized checkpoints from its state.
func (v *View) SetHead(root common.Root) {
	v.HeadR = root
	st := v.Blocks[root].Node.Ref
	v.Fin = common.Checkpoint{Epoch: common.Epoch(st.FinalizedCheckpoint.Epoch), Root: common.Root(st.FinalizedCheckpoint.Root)}
	v.Just = common.Checkpoint{Epoch: common.Epoch(st.CurrentJustifiedCheckpoint.Epoch), Root: common.Root(st.CurrentJustifiedCheckpoint.Root)}
	if st.FinalizedCheckpoint.Epoch == 0 {
		v.Fin.Root = v.Order[0].Root
	}
	if st.CurrentJustifiedCheckpoint.Epoch == 0 {
		v.Just.Root = v.Order[0].Root
	}
}

// Fork returns a copy of the view with fresh seen-caches / marks / clock (blocks are shared).
func (v *View) Session(nowSlot uint64, offsetMs int64) *View {
	c := *v
	c.Seen = map[string]bool{}
	c.Marks = nil
	c.Bad = map[common.Root]bool{}
	c.NowSlot, c.OffsetMs = nowSlot, offsetMs
	return &c
}

// ---- ancestry (explicit tree)

func (v *View) isAncestor(anc, r common.Root) (unknown, in bool) {
	if _, ok := v.Blocks[anc]; !ok {
		return true, false
	}
	b, ok := v.Blocks[r]
	if !ok {
		return true, false
	}
	for {
		if b.Root == anc {
			return false, true
		}
		if b.Slot == 0 {
			return false, false
		}
		b = v.Blocks[b.Parent]
	}
}

// ---- entries

type entry struct {
	v    *View
	n    *Node
	blk  *ViewBlock
	step common.Step
}

func (e *entry) Step() common.Step                   { return e.step }
func (e *entry) BlockRoot() (common.Root, error)     { return e.blk.Root, nil }
func (e *entry) ParentRoot() (common.Root, error)    { return e.blk.Parent, nil }
func (e *entry) StateRoot() (common.Root, error)     { return common.Root(e.n.Ref.HashTreeRoot(e.v.W.C)), nil }
func (e *entry) EpochsContext(ctx context.Context) (*common.EpochsContext, error) { return e.n.EPC, nil }
func (e *entry) State(ctx context.Context) (common.BeaconState, error)           { return e.n.Real, nil }

func (v *View) blockEntry(b *ViewBlock) *entry {
	return &entry{v: v, n: b.Node, blk: b, step: common.AsStep(common.Slot(b.Slot), true)}
}

// advanced: the state of block `root` advanced through empty slots to `slot` (cached).
func (v *View) advanced(root common.Root, slot uint64) (*entry, error) {
	b, ok := v.Blocks[root]
	if !ok {
		return nil, fmt.Errorf("unknown block %s", root)
	}
	if slot < b.Slot {
		return nil, fmt.Errorf("block %s is at slot %d, after the requested slot %d", root, b.Slot, slot)
	}
	if slot == b.Slot {
		return v.blockEntry(b), nil
	}
	key := fmt.Sprintf("%x/%d", root, slot)
	n, ok := v.towards[key]
	if !ok {
		n = b.Node.Branch()
		if r := n.StepSlots(context.Background(), slot); r.Mismatch != "" {
			return nil, errors.New(r.Mismatch)
		}
		v.towards[key] = n
	}
	return &entry{v: v, n: n, blk: b, step: common.AsStep(common.Slot(slot), false)}, nil
}

// ---- beacon.Chain

func (v *View) ByStateRoot(root common.Root) (beacon.ChainEntry, bool) { return nil, false }
func (v *View) ByBlock(root common.Root) (beacon.ChainEntry, bool) {
	b, ok := v.Blocks[root]
	if !ok {
		return nil, false
	}
	return v.blockEntry(b), true
}
func (v *View) ByBlockSlot(root common.Root, slot common.Slot) (beacon.ChainEntry, bool) {
	e, err := v.advanced(root, uint64(slot))
	if err != nil {
		return nil, false
	}
	return e, true
}
func (v *View) Search(parentRoot *common.Root, slot *common.Slot) ([]beacon.SearchEntry, error) {
	return nil, errors.New("not supported")
}
func (v *View) Closest(from common.Root, toSlot common.Slot) (beacon.ChainEntry, bool) {
	return v.ByBlock(from)
}
func (v *View) InSubtree(anchor, root common.Root) (bool, bool) { return v.isAncestor(anchor, root) }
func (v *View) ByCanonStep(step common.Step) (beacon.ChainEntry, bool) { return nil, false }
func (v *View) Iter() (beacon.ChainIter, error)                         { return nil, errors.New("not supported") }
func (v *View) JustifiedCheckpoint() common.Checkpoint                  { return v.Just }
func (v *View) FinalizedCheckpoint() common.Checkpoint                  { return v.Fin }
func (v *View) Justified() (beacon.ChainEntry, error) {
	e, ok := v.ByBlock(v.Just.Root)
	if !ok {
		return nil, errors.New("unknown")
	}
	return e, nil
}
func (v *View) Finalized() (beacon.ChainEntry, error) {
	e, ok := v.ByBlock(v.Fin.Root)
	if !ok {
		return nil, errors.New("unknown")
	}
	return e, nil
}
func (v *View) Head() (beacon.ChainEntry, error) {
	// the head state as of the current slot is what operations are validated against
	e, err := v.advanced(v.HeadR, maxU(v.Blocks[v.HeadR].Slot, v.NowSlot))
	if err != nil {
		return nil, err
	}
	return e, nil
}
func (v *View) Towards(ctx context.Context, from common.Root, toSlot common.Slot) (beacon.ChainEntry, error) {
	if err := ctx.Err(); err != nil {
		return nil, err
	}
	return v.advanced(from, uint64(toSlot))
}
func (v *View) Genesis() beacon.GenesisInfo {
	return beacon.GenesisInfo{Time: common.Timestamp(v.Order[0].Node.Ref.GenesisTime), ValidatorsRoot: v.GVR}
}

func maxU(a, b uint64) uint64 {
	if a > b {
		return a
	}
	return b
}

// ---- gossipval backend pieces

func (v *View) Spec() *common.Spec                  { return v.W.Spec }
func (v *View) Chain() beacon.Chain                 { return v }
func (v *View) GenesisValidatorsRoot() common.Root  { return v.GVR }
func (v *View) IsBadBlock(root common.Root) bool    { return v.Bad[root] }

// SlotAfter: the slot at (now + delta), clipping on genesis.
func (v *View) SlotAfter(delta time.Duration) common.Slot {
	ms := int64(v.NowSlot)*int64(v.W.C.SecondsPerSlot)*1000 + v.OffsetMs + delta.Milliseconds()
	if ms < 0 {
		return 0
	}
	return common.Slot(uint64(ms) / (v.W.C.SecondsPerSlot * 1000))
}

// GetDomain: from the reference head state's fork record (independent of zrnt's domain helpers).
func (v *View) GetDomain(typ common.BLSDomainType, epoch common.Epoch) (common.BLSDomain, error) {
	st := v.Blocks[v.HeadR].Node.Ref
	c := v.W.C
	f := c.ForkAtEpoch(uint64(epoch))
	_ = st
	return common.BLSDomain(refspec.ComputeDomain([4]byte(typ), c.ForkVersions[f], refspec.Root(v.GVR))), nil
}

func (v *View) HeadInfo(ctx context.Context) (beacon.ChainEntry, *common.EpochsContext, common.BeaconState, error) {
	e, err := v.Head()
	if err != nil {
		return nil, nil, nil, err
	}
	en := e.(*entry)
	return e, en.n.EPC, en.n.Real, nil
}

func (v *View) seen(k string) bool { return v.Seen[k] }
func (v *View) mark(k string)      { v.Marks = append(v.Marks, k); v.Seen[k] = true }

func (v *View) SeenBlock(slot common.Slot, p common.ValidatorIndex) bool { return v.seen(fmt.Sprintf("block/%d/%d", slot, p)) }
func (v *View) MarkBlock(slot common.Slot, p common.ValidatorIndex)      { v.mark(fmt.Sprintf("block/%d/%d", slot, p)) }
func (v *View) SeenAttestation(e common.Epoch, i common.ValidatorIndex) bool {
	return v.seen(fmt.Sprintf("att/%d/%d", e, i))
}
func (v *View) MarkAttestation(e common.Epoch, i common.ValidatorIndex) { v.mark(fmt.Sprintf("att/%d/%d", e, i)) }
func (v *View) SeenAggregate(r common.Root) bool                        { return v.seen(fmt.Sprintf("agg/%x", r)) }
func (v *View) MarkAggregate(r common.Root)                             { v.mark(fmt.Sprintf("agg/%x", r)) }
func (v *View) SeenAggregator(e common.Epoch, i common.ValidatorIndex) bool {
	return v.seen(fmt.Sprintf("aggregator/%d/%d", e, i))
}
func (v *View) MarkAggregator(e common.Epoch, i common.ValidatorIndex) { v.mark(fmt.Sprintf("aggregator/%d/%d", e, i)) }
func (v *View) SeenExit(i common.ValidatorIndex) bool                  { return v.seen(fmt.Sprintf("exit/%d", i)) }
func (v *View) MarkExit(i common.ValidatorIndex)                       { v.mark(fmt.Sprintf("exit/%d", i)) }
func (v *View) SeenProposerSlashing(i common.ValidatorIndex) bool      { return v.seen(fmt.Sprintf("ps/%d", i)) }
func (v *View) MarkProposerSlashing(i common.ValidatorIndex)           { v.mark(fmt.Sprintf("ps/%d", i)) }
func (v *View) AttesterSlashableAllSeen(idx []common.ValidatorIndex) bool {
	for _, i := range idx {
		if !v.seen(fmt.Sprintf("as/%d", i)) {
			return false
		}
	}
	return true
}
func (v *View) MarkAttesterSlashings(idx []common.ValidatorIndex) {
	for _, i := range idx {
		v.mark(fmt.Sprintf("as/%d", i))
	}
}
func (v *View) SeenSyncCommMsg(i common.ValidatorIndex, s common.Slot, subnet uint64) bool {
	return v.seen(fmt.Sprintf("syncmsg/%d/%d/%d", i, s, subnet))
}
func (v *View) MarkSyncCommMsg(i common.ValidatorIndex, s common.Slot, subnet uint64) {
	v.mark(fmt.Sprintf("syncmsg/%d/%d/%d", i, s, subnet))
}
func (v *View) SeenContribution(i common.ValidatorIndex, s common.Slot, subnet uint64) bool {
	return v.seen(fmt.Sprintf("contrib/%d/%d/%d", i, s, subnet))
}
func (v *View) MarkContribution(i common.ValidatorIndex, s common.Slot, subnet uint64) {
	v.mark(fmt.Sprintf("contrib/%d/%d/%d", i, s, subnet))
}
