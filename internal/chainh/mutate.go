package chainh

import (
	"crypto/sha256"
	"fmt"

	"verif/internal/refspec"
	"verif/internal/refssz"
)

// MutCtx: a valid signed block about to be corrupted in exactly one rule.
type MutCtx struct {
	W   *World
	Pre *refspec.State // reference state advanced to the block's slot (before the block)
	SB  *refspec.SignedBlock
}

type Mutator struct {
	Name string
	// Apply corrupts m.SB in place; returns false if not applicable to this block.
	Apply func(m *MutCtx) bool
}

func flip(r refspec.Root) refspec.Root { r[7] ^= 0x40; return r }

func (m *MutCtx) key(v uint64) []int { return m.W.valKeys(m.Pre, []uint64{v}) }

// signWith: signature of keys over (objRoot, domain(dt, version, gvr)).
func (m *MutCtx) signWith(keys []int, objRoot refspec.Root, dt [4]byte, version refspec.Version, gvr refspec.Root) refspec.Signature {
	return m.W.Sign(keys, refspec.SigningRoot(objRoot, refspec.ComputeDomain(dt, version, gvr)))
}

// otherVersions: every fork version other than v.
func (m *MutCtx) otherVersions(v refspec.Version) []refspec.Version {
	var out []refspec.Version
	for _, x := range m.W.C.ForkVersions {
		if x != v {
			out = append(out, x)
		}
	}
	return out
}

var allDomains = [][4]byte{refspec.DomainBeaconProposer, refspec.DomainBeaconAttester, refspec.DomainRandao, refspec.DomainDeposit, refspec.DomainVoluntaryExit,
	refspec.DomainSelectionProof, refspec.DomainAggregateAndProof, refspec.DomainSyncCommittee, refspec.DomainContributionAndProof, refspec.DomainBLSToExecutionChange}

// ResignProposer: proposer signature over the (mutated) block under the right domain.
func (m *MutCtx) ResignProposer() {
	c := m.W.C
	b := &m.SB.Message
	if b.ProposerIndex >= uint64(len(m.Pre.Validators)) {
		return
	}
	k := m.W.KeyIndex(m.Pre.Validators[b.ProposerIndex].Pubkey)
	if k < 0 {
		return
	}
	m.SB.Signature = m.W.Sign([]int{k}, refspec.SigningRoot(b.HashTreeRoot(c), m.Pre.Domain(c, refspec.DomainBeaconProposer, m.Pre.CurrentEpoch(c))))
}

// Mutators: the single-rule corruption table (DESIGN.md C03), written rule by rule from the spec.
func Mutators() []Mutator {
	var ms []Mutator
	add := func(name string, f func(m *MutCtx) bool) { ms = append(ms, Mutator{name, f}) }
	body := func(m *MutCtx) *refspec.Body { return &m.SB.Message.Body }

	// ---- header
	add("header/parent-root", func(m *MutCtx) bool { m.SB.Message.ParentRoot = flip(m.SB.Message.ParentRoot); return true })
	add("header/proposer-index-other", func(m *MutCtx) bool {
		m.SB.Message.ProposerIndex = (m.SB.Message.ProposerIndex + 1) % uint64(len(m.Pre.Validators))
		return true
	})
	add("header/proposer-index-out-of-range", func(m *MutCtx) bool { m.SB.Message.ProposerIndex = uint64(len(m.Pre.Validators)); return true })
	add("header/slot-plus-1", func(m *MutCtx) bool { m.SB.Message.Slot++; return true })
	add("header/slot-not-after-latest-header", func(m *MutCtx) bool {
		if m.Pre.LatestBlockHeader.Slot == 0 {
			return false
		}
		m.SB.Message.Slot = m.Pre.LatestBlockHeader.Slot
		return true
	})
	add("header/state-root", func(m *MutCtx) bool { m.SB.Message.StateRoot = flip(m.SB.Message.StateRoot); return true })
	// ---- randao
	add("randao/other-key", func(m *MutCtx) bool {
		c := m.W.C
		e := m.Pre.CurrentEpoch(c)
		type ep struct{ E uint64 }
		other := (m.SB.Message.ProposerIndex + 1) % uint64(len(m.Pre.Validators))
		body(m).RandaoReveal = m.W.Sign(m.key(other), refspec.SigningRoot(refssz.Root(&ep{e}, nil), m.Pre.Domain(c, refspec.DomainRandao, e)))
		return true
	})
	add("randao/wrong-epoch", func(m *MutCtx) bool {
		c := m.W.C
		e := m.Pre.CurrentEpoch(c)
		type ep struct{ E uint64 }
		body(m).RandaoReveal = m.W.Sign(m.key(m.SB.Message.ProposerIndex), refspec.SigningRoot(refssz.Root(&ep{e + 1}, nil), m.Pre.Domain(c, refspec.DomainRandao, e)))
		return true
	})
	for di, dt := range allDomains {
		dt := dt
		if dt == refspec.DomainRandao {
			continue
		}
		add(fmt.Sprintf("randao/domain-type-%d", di), func(m *MutCtx) bool {
			c := m.W.C
			e := m.Pre.CurrentEpoch(c)
			type ep struct{ E uint64 }
			body(m).RandaoReveal = m.W.Sign(m.key(m.SB.Message.ProposerIndex), refspec.SigningRoot(refssz.Root(&ep{e}, nil), m.Pre.Domain(c, dt, e)))
			return true
		})
	}
	add("randao/other-fork-version", func(m *MutCtx) bool {
		c := m.W.C
		e := m.Pre.CurrentEpoch(c)
		type ep struct{ E uint64 }
		v := m.otherVersions(m.Pre.Fork.CurrentVersion)[0]
		body(m).RandaoReveal = m.signWith(m.key(m.SB.Message.ProposerIndex), refssz.Root(&ep{e}, nil), refspec.DomainRandao, v, m.Pre.GenesisValidatorsRoot)
		_ = c
		return true
	})
	add("randao/other-chain", func(m *MutCtx) bool {
		e := m.Pre.CurrentEpoch(m.W.C)
		type ep struct{ E uint64 }
		body(m).RandaoReveal = m.signWith(m.key(m.SB.Message.ProposerIndex), refssz.Root(&ep{e}, nil), refspec.DomainRandao, m.Pre.Fork.CurrentVersion, flip(m.Pre.GenesisValidatorsRoot))
		return true
	})

	// ---- attestations (first attestation of the block)
	att := func(m *MutCtx) *refspec.Attestation {
		if len(body(m).Attestations) == 0 {
			return nil
		}
		return &body(m).Attestations[0]
	}
	resignAtt := func(m *MutCtx, a *refspec.Attestation) {
		c := m.W.C
		defer func() { recover() }()
		members := m.Pre.AttestingIndices(c, &a.Data, a.AggregationBits)
		if len(members) > 0 {
			a.Signature = m.W.signAtt(m.Pre, &a.Data, members)
		}
	}
	attMut := func(name string, f func(m *MutCtx, a *refspec.Attestation) bool, resign bool) {
		add("attestation/"+name, func(m *MutCtx) bool {
			a := att(m)
			if a == nil {
				return false
			}
			if !f(m, a) {
				return false
			}
			if resign {
				resignAtt(m, a)
			}
			return true
		})
	}
	attMut("slot-too-new", func(m *MutCtx, a *refspec.Attestation) bool {
		a.Data.Slot = m.SB.Message.Slot
		a.Data.Target.Epoch = m.W.C.EpochAtSlot(a.Data.Slot)
		return true
	}, true)
	attMut("slot-plus-1-target-epoch-kept", func(m *MutCtx, a *refspec.Attestation) bool { a.Data.Slot++; return true }, true)
	attMut("too-old", func(m *MutCtx, a *refspec.Attestation) bool {
		c := m.W.C
		if m.SB.Message.Slot < c.SlotsPerEpoch+2 {
			return false
		}
		a.Data.Slot = m.SB.Message.Slot - c.SlotsPerEpoch - 1
		e := c.EpochAtSlot(a.Data.Slot)
		if e+1 < m.Pre.CurrentEpoch(c) {
			return false
		}
		a.Data.Target.Epoch = e
		a.Data.Source = m.Pre.PreviousJustifiedCheckpoint
		return true
	}, true)
	attMut("committee-index-out-of-range", func(m *MutCtx, a *refspec.Attestation) bool {
		a.Data.Index = m.Pre.CommitteeCountPerSlot(m.W.C, a.Data.Target.Epoch)
		return true
	}, false)
	attMut("bits-one-longer", func(m *MutCtx, a *refspec.Attestation) bool { a.AggregationBits = append(a.AggregationBits, false); return true }, false)
	attMut("bits-one-shorter", func(m *MutCtx, a *refspec.Attestation) bool {
		a.AggregationBits = a.AggregationBits[:len(a.AggregationBits)-1]
		return true
	}, true)
	attMut("bits-empty-participation", func(m *MutCtx, a *refspec.Attestation) bool {
		for i := range a.AggregationBits {
			a.AggregationBits[i] = false
		}
		return true
	}, false)
	attMut("source-epoch", func(m *MutCtx, a *refspec.Attestation) bool { a.Data.Source.Epoch++; return true }, true)
	attMut("source-root", func(m *MutCtx, a *refspec.Attestation) bool { a.Data.Source.Root = flip(a.Data.Source.Root); return true }, true)
	attMut("source-and-target-swapped", func(m *MutCtx, a *refspec.Attestation) bool {
		a.Data.Source, a.Data.Target = a.Data.Target, a.Data.Source
		return true
	}, true)
	attMut("target-epoch-plus-1", func(m *MutCtx, a *refspec.Attestation) bool { a.Data.Target.Epoch++; return true }, true)
	attMut("target-epoch-minus-1", func(m *MutCtx, a *refspec.Attestation) bool {
		if a.Data.Target.Epoch == 0 {
			return false
		}
		a.Data.Target.Epoch--
		return true
	}, true)
	attMut("signature-by-other-member", func(m *MutCtx, a *refspec.Attestation) bool {
		other := (m.Pre.AttestingIndices(m.W.C, &a.Data, a.AggregationBits)[0] + 1) % uint64(len(m.Pre.Validators))
		a.Signature = m.W.signAtt(m.Pre, &a.Data, []uint64{other})
		return true
	}, false)
	attMut("signature-subset-of-members", func(m *MutCtx, a *refspec.Attestation) bool {
		mem := m.Pre.AttestingIndices(m.W.C, &a.Data, a.AggregationBits)
		if len(mem) < 2 {
			return false
		}
		a.Signature = m.W.signAtt(m.Pre, &a.Data, mem[:1])
		return true
	}, false)
	attMut("signature-data-changed-after-signing", func(m *MutCtx, a *refspec.Attestation) bool {
		a.Data.BeaconBlockRoot = flip(a.Data.BeaconBlockRoot)
		return true
	}, false)
	for di, dt := range allDomains {
		dt := dt
		if dt == refspec.DomainBeaconAttester {
			continue
		}
		attMut(fmt.Sprintf("signature-domain-type-%d", di), func(m *MutCtx, a *refspec.Attestation) bool {
			mem := m.Pre.AttestingIndices(m.W.C, &a.Data, a.AggregationBits)
			a.Signature = m.W.Sign(m.W.valKeys(m.Pre, mem), refspec.SigningRoot(refssz.Root(&a.Data, nil), m.Pre.Domain(m.W.C, dt, a.Data.Target.Epoch)))
			return true
		}, false)
	}
	attMut("signature-other-fork-version", func(m *MutCtx, a *refspec.Attestation) bool {
		mem := m.Pre.AttestingIndices(m.W.C, &a.Data, a.AggregationBits)
		cur := m.Pre.Fork.CurrentVersion
		if a.Data.Target.Epoch < m.Pre.Fork.Epoch {
			cur = m.Pre.Fork.PreviousVersion
		}
		a.Signature = m.signWith(m.W.valKeys(m.Pre, mem), refssz.Root(&a.Data, nil), refspec.DomainBeaconAttester, m.otherVersions(cur)[0], m.Pre.GenesisValidatorsRoot)
		return true
	}, false)
	attMut("signature-other-chain", func(m *MutCtx, a *refspec.Attestation) bool {
		mem := m.Pre.AttestingIndices(m.W.C, &a.Data, a.AggregationBits)
		cur := m.Pre.Fork.CurrentVersion
		if a.Data.Target.Epoch < m.Pre.Fork.Epoch {
			cur = m.Pre.Fork.PreviousVersion
		}
		a.Signature = m.signWith(m.W.valKeys(m.Pre, mem), refssz.Root(&a.Data, nil), refspec.DomainBeaconAttester, cur, flip(m.Pre.GenesisValidatorsRoot))
		return true
	}, false)
	add("attestation/duplicated", func(m *MutCtx) bool {
		if att(m) == nil || uint64(len(body(m).Attestations)) >= m.W.C.MaxAttestations {
			return false
		}
		body(m).Attestations = append(body(m).Attestations, body(m).Attestations[0])
		return true
	})

	// ---- proposer slashings
	ps := func(m *MutCtx) *refspec.ProposerSlashing {
		if len(body(m).ProposerSlashings) == 0 {
			return nil
		}
		return &body(m).ProposerSlashings[0]
	}
	signHdr := func(m *MutCtx, h *refspec.SignedBeaconBlockHeader, signer uint64) {
		c := m.W.C
		dom := m.Pre.Domain(c, refspec.DomainBeaconProposer, c.EpochAtSlot(h.Message.Slot))
		h.Signature = m.W.Sign(m.key(signer), refspec.SigningRoot(refssz.Root(&h.Message, nil), dom))
	}
	psMut := func(name string, f func(m *MutCtx, p *refspec.ProposerSlashing) bool) {
		add("proposer-slashing/"+name, func(m *MutCtx) bool {
			p := ps(m)
			if p == nil {
				return false
			}
			return f(m, p)
		})
	}
	psMut("identical-headers", func(m *MutCtx, p *refspec.ProposerSlashing) bool { p.SignedHeader2 = p.SignedHeader1; return true })
	psMut("different-slots", func(m *MutCtx, p *refspec.ProposerSlashing) bool {
		p.SignedHeader2.Message.Slot++
		signHdr(m, &p.SignedHeader2, p.SignedHeader2.Message.ProposerIndex)
		return true
	})
	psMut("different-proposers", func(m *MutCtx, p *refspec.ProposerSlashing) bool {
		p.SignedHeader2.Message.ProposerIndex = (p.SignedHeader2.Message.ProposerIndex + 1) % uint64(len(m.Pre.Validators))
		signHdr(m, &p.SignedHeader2, p.SignedHeader2.Message.ProposerIndex)
		return true
	})
	psMut("header-2-signed-by-other-validator", func(m *MutCtx, p *refspec.ProposerSlashing) bool {
		signHdr(m, &p.SignedHeader2, (p.SignedHeader2.Message.ProposerIndex+1)%uint64(len(m.Pre.Validators)))
		return true
	})
	psMut("header-1-changed-after-signing", func(m *MutCtx, p *refspec.ProposerSlashing) bool {
		p.SignedHeader1.Message.StateRoot = flip(p.SignedHeader1.Message.StateRoot)
		return true
	})
	psMut("proposer-index-out-of-range", func(m *MutCtx, p *refspec.ProposerSlashing) bool {
		p.SignedHeader1.Message.ProposerIndex = uint64(len(m.Pre.Validators))
		p.SignedHeader2.Message.ProposerIndex = uint64(len(m.Pre.Validators))
		return true
	})
	psMut("same-validator-slashed-twice-in-block", func(m *MutCtx, p *refspec.ProposerSlashing) bool {
		if uint64(len(body(m).ProposerSlashings)) >= m.W.C.MaxProposerSlashings {
			return false
		}
		body(m).ProposerSlashings = append(body(m).ProposerSlashings, *p)
		return true
	})
	psMut("signed-under-attester-domain", func(m *MutCtx, p *refspec.ProposerSlashing) bool {
		c := m.W.C
		h := &p.SignedHeader1
		dom := m.Pre.Domain(c, refspec.DomainBeaconAttester, c.EpochAtSlot(h.Message.Slot))
		h.Signature = m.W.Sign(m.key(h.Message.ProposerIndex), refspec.SigningRoot(refssz.Root(&h.Message, nil), dom))
		return true
	})

	// ---- attester slashings
	as := func(m *MutCtx) *refspec.AttesterSlashing {
		if len(body(m).AttesterSlashings) == 0 {
			return nil
		}
		return &body(m).AttesterSlashings[0]
	}
	resignIA := func(m *MutCtx, ia *refspec.IndexedAttestation) {
		defer func() { recover() }()
		var ok []uint64
		for _, i := range ia.AttestingIndices {
			if i < uint64(len(m.Pre.Validators)) {
				ok = append(ok, i)
			}
		}
		if len(ok) > 0 {
			ia.Signature = m.W.signAtt(m.Pre, &ia.Data, ok)
		}
	}
	asMut := func(name string, f func(m *MutCtx, a *refspec.AttesterSlashing) bool) {
		add("attester-slashing/"+name, func(m *MutCtx) bool {
			a := as(m)
			if a == nil {
				return false
			}
			return f(m, a)
		})
	}
	asMut("same-data-not-slashable", func(m *MutCtx, a *refspec.AttesterSlashing) bool { a.Attestation2 = a.Attestation1; return true })
	asMut("different-target-epochs-no-surround", func(m *MutCtx, a *refspec.AttesterSlashing) bool {
		a.Attestation2.Data.Target.Epoch++
		resignIA(m, &a.Attestation2)
		return true
	})
	// the slashability predicate on its whole small grid: source/target epochs of both attestations (double vote
	// iff equal targets and different data; surround iff s1 < s2 and t2 < t1 — in THAT order only); the
	// reference decides which of the 81 pairs are slashable
	for s1 := uint64(0); s1 < 3; s1++ {
		for t1 := uint64(2); t1 < 5; t1++ {
			for s2 := uint64(0); s2 < 3; s2++ {
				for t2 := uint64(2); t2 < 5; t2++ {
					s1, t1, s2, t2 := s1, t1, s2, t2
					asMut(fmt.Sprintf("epochs(source %d target %d | source %d target %d)", s1, t1, s2, t2), func(m *MutCtx, a *refspec.AttesterSlashing) bool {
						a.Attestation1.Data.Source.Epoch, a.Attestation1.Data.Target.Epoch = s1, t1
						a.Attestation2.Data.Source.Epoch, a.Attestation2.Data.Target.Epoch = s2, t2
						resignIA(m, &a.Attestation1)
						resignIA(m, &a.Attestation2)
						return true
					})
				}
			}
		}
	}
	asMut("indices-unsorted", func(m *MutCtx, a *refspec.AttesterSlashing) bool {
		x := a.Attestation1.AttestingIndices
		if len(x) < 2 {
			return false
		}
		a.Attestation1.AttestingIndices = append([]uint64{}, x...)
		a.Attestation1.AttestingIndices[0], a.Attestation1.AttestingIndices[1] = x[1], x[0]
		return true
	})
	asMut("indices-duplicate", func(m *MutCtx, a *refspec.AttesterSlashing) bool {
		x := a.Attestation1.AttestingIndices
		a.Attestation1.AttestingIndices = append([]uint64{x[0]}, x...)
		return true
	})
	asMut("indices-duplicate-at-the-end", func(m *MutCtx, a *refspec.AttesterSlashing) bool {
		x := a.Attestation1.AttestingIndices
		if len(x) == 0 {
			return false
		}
		a.Attestation1.AttestingIndices = append(append([]uint64{}, x...), x[len(x)-1])
		// signed by every listed index (the duplicate signs twice): only the uniqueness rule can refuse it
		a.Attestation1.Signature = m.W.signAtt(m.Pre, &a.Attestation1.Data, a.Attestation1.AttestingIndices)
		return true
	})
	asMut("indices-duplicate-in-the-middle", func(m *MutCtx, a *refspec.AttesterSlashing) bool {
		x := a.Attestation1.AttestingIndices
		if len(x) < 3 {
			return false
		}
		y := append([]uint64{}, x[:2]...)
		y = append(y, x[1])
		y = append(y, x[2:]...)
		a.Attestation1.AttestingIndices = y
		a.Attestation1.Signature = m.W.signAtt(m.Pre, &a.Attestation1.Data, y)
		return true
	})
	asMut("indices-empty", func(m *MutCtx, a *refspec.AttesterSlashing) bool { a.Attestation1.AttestingIndices = nil; return true })
	asMut("index-out-of-range", func(m *MutCtx, a *refspec.AttesterSlashing) bool {
		a.Attestation1.AttestingIndices = append(append([]uint64{}, a.Attestation1.AttestingIndices...), uint64(len(m.Pre.Validators)))
		a.Attestation2.AttestingIndices = append(append([]uint64{}, a.Attestation2.AttestingIndices...), uint64(len(m.Pre.Validators)))
		return true
	})
	asMut("disjoint-indices", func(m *MutCtx, a *refspec.AttesterSlashing) bool {
		last := a.Attestation1.AttestingIndices[len(a.Attestation1.AttestingIndices)-1]
		other := (last + 1) % uint64(len(m.Pre.Validators))
		for _, i := range a.Attestation1.AttestingIndices {
			if i == other {
				return false
			}
		}
		a.Attestation2.AttestingIndices = []uint64{other}
		resignIA(m, &a.Attestation2)
		return true
	})
	asMut("attestation-2-bad-signature", func(m *MutCtx, a *refspec.AttesterSlashing) bool {
		a.Attestation2.Signature = a.Attestation1.Signature
		return true
	})
	asMut("same-slashing-twice-in-block", func(m *MutCtx, a *refspec.AttesterSlashing) bool {
		if uint64(len(body(m).AttesterSlashings)) >= m.W.C.MaxAttesterSlashings {
			return false
		}
		body(m).AttesterSlashings = append(body(m).AttesterSlashings, *a)
		return true
	})

	// ---- voluntary exits
	ex := func(m *MutCtx) *refspec.SignedVoluntaryExit {
		if len(body(m).VoluntaryExits) == 0 {
			return nil
		}
		return &body(m).VoluntaryExits[0]
	}
	signExit := func(m *MutCtx, e *refspec.SignedVoluntaryExit, signer uint64, dt [4]byte, forceCurrentForkDomain bool) {
		c := m.W.C
		var dom refspec.Bytes32
		if m.Pre.F >= refspec.Deneb && !forceCurrentForkDomain {
			dom = refspec.ComputeDomain(dt, c.ForkVersions[refspec.Capella], m.Pre.GenesisValidatorsRoot)
		} else {
			dom = m.Pre.Domain(c, dt, e.Message.Epoch)
		}
		e.Signature = m.W.Sign(m.key(signer), refspec.SigningRoot(refssz.Root(&e.Message, nil), dom))
	}
	exMut := func(name string, f func(m *MutCtx, e *refspec.SignedVoluntaryExit) bool) {
		add("exit/"+name, func(m *MutCtx) bool {
			e := ex(m)
			if e == nil {
				return false
			}
			return f(m, e)
		})
	}
	exMut("epoch-in-the-future", func(m *MutCtx, e *refspec.SignedVoluntaryExit) bool {
		e.Message.Epoch = m.Pre.CurrentEpoch(m.W.C) + 1
		signExit(m, e, e.Message.ValidatorIndex, refspec.DomainVoluntaryExit, false)
		return true
	})
	exMut("dated-previous-epoch(valid)", func(m *MutCtx, e *refspec.SignedVoluntaryExit) bool {
		cur := m.Pre.CurrentEpoch(m.W.C)
		if cur == 0 {
			return false
		}
		e.Message.Epoch = cur - 1
		signExit(m, e, e.Message.ValidatorIndex, refspec.DomainVoluntaryExit, false)
		return true
	})
	exMut("dated-previous-epoch-but-signed-for-the-current-epoch", func(m *MutCtx, e *refspec.SignedVoluntaryExit) bool {
		c := m.W.C
		cur := m.Pre.CurrentEpoch(c)
		if cur == 0 || m.Pre.F >= refspec.Deneb {
			return false
		}
		e.Message.Epoch = cur - 1
		dom := m.Pre.Domain(c, refspec.DomainVoluntaryExit, cur)
		e.Signature = m.W.Sign(m.key(e.Message.ValidatorIndex), refspec.SigningRoot(refssz.Root(&e.Message, nil), dom))
		return true
	})
	exMut("signed-by-other-validator", func(m *MutCtx, e *refspec.SignedVoluntaryExit) bool {
		signExit(m, e, (e.Message.ValidatorIndex+1)%uint64(len(m.Pre.Validators)), refspec.DomainVoluntaryExit, false)
		return true
	})
	exMut("validator-index-out-of-range", func(m *MutCtx, e *refspec.SignedVoluntaryExit) bool {
		e.Message.ValidatorIndex = uint64(len(m.Pre.Validators))
		return true
	})
	exMut("same-exit-twice-in-block", func(m *MutCtx, e *refspec.SignedVoluntaryExit) bool {
		if uint64(len(body(m).VoluntaryExits)) >= m.W.C.MaxVoluntaryExits {
			return false
		}
		body(m).VoluntaryExits = append(body(m).VoluntaryExits, *e)
		return true
	})
	// exits added to a block that has none (so that states without any exitable validator are covered too)
	addExit := func(name string, pick func(m *MutCtx) (uint64, bool)) {
		add("exit/added:"+name, func(m *MutCtx) bool {
			if len(body(m).VoluntaryExits) != 0 {
				return false
			}
			v, ok := pick(m)
			if !ok {
				return false
			}
			e := refspec.SignedVoluntaryExit{Message: refspec.VoluntaryExit{Epoch: m.Pre.CurrentEpoch(m.W.C), ValidatorIndex: v}}
			signExit(m, &e, v, refspec.DomainVoluntaryExit, false)
			body(m).VoluntaryExits = []refspec.SignedVoluntaryExit{e}
			return true
		})
	}
	addExit("too-young", func(m *MutCtx) (uint64, bool) {
		c := m.W.C
		cur := m.Pre.CurrentEpoch(c)
		for i := range m.Pre.Validators {
			v := &m.Pre.Validators[i]
			if refspec.IsActive(v, cur) && v.ExitEpoch == refspec.FarFutureEpoch && cur < v.ActivationEpoch+c.ShardCommitteePeriod {
				return uint64(i), true
			}
		}
		return 0, false
	})
	addExit("just-old-enough(valid)", func(m *MutCtx) (uint64, bool) {
		c := m.W.C
		cur := m.Pre.CurrentEpoch(c)
		for i := len(m.Pre.Validators) - 1; i >= 0; i-- {
			v := &m.Pre.Validators[i]
			if refspec.IsActive(v, cur) && v.ExitEpoch == refspec.FarFutureEpoch && cur == v.ActivationEpoch+c.ShardCommitteePeriod && !v.Slashed {
				return uint64(i), true
			}
		}
		return 0, false
	})
	addExit("not-yet-active", func(m *MutCtx) (uint64, bool) {
		for i := range m.Pre.Validators {
			if m.Pre.Validators[i].ActivationEpoch > m.Pre.CurrentEpoch(m.W.C) {
				return uint64(i), true
			}
		}
		return 0, false
	})
	addExit("already-exiting", func(m *MutCtx) (uint64, bool) {
		for i := range m.Pre.Validators {
			if m.Pre.Validators[i].ExitEpoch != refspec.FarFutureEpoch && refspec.IsActive(&m.Pre.Validators[i], m.Pre.CurrentEpoch(m.W.C)) {
				return uint64(i), true
			}
		}
		return 0, false
	})
	addExit("already-exited", func(m *MutCtx) (uint64, bool) {
		for i := range m.Pre.Validators {
			if m.Pre.Validators[i].ExitEpoch <= m.Pre.CurrentEpoch(m.W.C) {
				return uint64(i), true
			}
		}
		return 0, false
	})
	exMut("validator-already-exiting", func(m *MutCtx, e *refspec.SignedVoluntaryExit) bool {
		for i := range m.Pre.Validators {
			if m.Pre.Validators[i].ExitEpoch != refspec.FarFutureEpoch {
				e.Message.ValidatorIndex = uint64(i)
				signExit(m, e, uint64(i), refspec.DomainVoluntaryExit, false)
				return true
			}
		}
		return false
	})
	exMut("validator-not-yet-active", func(m *MutCtx, e *refspec.SignedVoluntaryExit) bool {
		for i := range m.Pre.Validators {
			if m.Pre.Validators[i].ActivationEpoch > m.Pre.CurrentEpoch(m.W.C) {
				e.Message.ValidatorIndex = uint64(i)
				signExit(m, e, uint64(i), refspec.DomainVoluntaryExit, false)
				return true
			}
		}
		return false
	})
	for di, dt := range allDomains {
		dt := dt
		if dt == refspec.DomainVoluntaryExit {
			continue
		}
		exMut(fmt.Sprintf("signature-domain-type-%d", di), func(m *MutCtx, e *refspec.SignedVoluntaryExit) bool {
			signExit(m, e, e.Message.ValidatorIndex, dt, false)
			return true
		})
	}
	exMut("signature-under-current-fork-version", func(m *MutCtx, e *refspec.SignedVoluntaryExit) bool {
		// deneb pins the exit domain to the capella version: a signature under the current (deneb) version is invalid
		if m.Pre.F < refspec.Deneb {
			return false
		}
		signExit(m, e, e.Message.ValidatorIndex, refspec.DomainVoluntaryExit, true)
		return true
	})
	exMut("signature-other-fork-version", func(m *MutCtx, e *refspec.SignedVoluntaryExit) bool {
		right := m.Pre.Fork.CurrentVersion
		if m.Pre.F >= refspec.Deneb {
			right = m.W.C.ForkVersions[refspec.Capella]
		}
		for _, v := range m.otherVersions(right) {
			if m.Pre.F < refspec.Deneb && v == m.Pre.Fork.PreviousVersion && e.Message.Epoch < m.Pre.Fork.Epoch {
				continue
			}
			e.Signature = m.signWith(m.key(e.Message.ValidatorIndex), refssz.Root(&e.Message, nil), refspec.DomainVoluntaryExit, v, m.Pre.GenesisValidatorsRoot)
			return true
		}
		return false
	})
	exMut("signature-other-chain", func(m *MutCtx, e *refspec.SignedVoluntaryExit) bool {
		right := m.Pre.Fork.CurrentVersion
		if m.Pre.F >= refspec.Deneb {
			right = m.W.C.ForkVersions[refspec.Capella]
		}
		e.Signature = m.signWith(m.key(e.Message.ValidatorIndex), refssz.Root(&e.Message, nil), refspec.DomainVoluntaryExit, right, flip(m.Pre.GenesisValidatorsRoot))
		return true
	})

	// ---- deposits
	add("deposit/one-too-few", func(m *MutCtx) bool {
		if len(body(m).Deposits) == 0 {
			return false
		}
		body(m).Deposits = body(m).Deposits[:len(body(m).Deposits)-1]
		return true
	})
	add("deposit/one-too-many", func(m *MutCtx) bool {
		if len(body(m).Deposits) == 0 || uint64(len(body(m).Deposits)) >= m.W.C.MaxDeposits {
			return false
		}
		body(m).Deposits = append(body(m).Deposits, body(m).Deposits[len(body(m).Deposits)-1])
		return true
	})
	add("deposit/unexpected-deposit", func(m *MutCtx) bool {
		if len(body(m).Deposits) != 0 || m.Pre.Eth1Data.DepositCount != m.Pre.Eth1DepositIndex {
			return false
		}
		d := m.W.MakeDepositData(len(m.W.Keys)-1, m.W.C.MaxEffectiveBalance, BLSCreds(m.W.Keys[len(m.W.Keys)-1].PK), len(m.W.Keys)-1)
		body(m).Deposits = []refspec.Deposit{{Proof: make([]refspec.Root, 33), Data: d}}
		return true
	})
	add("deposit/proof-node-flipped", func(m *MutCtx) bool {
		if len(body(m).Deposits) == 0 {
			return false
		}
		p := append([]refspec.Root{}, body(m).Deposits[0].Proof...)
		p[3] = flip(p[3])
		body(m).Deposits[0].Proof = p
		return true
	})
	add("deposit/amount-changed-after-proof", func(m *MutCtx) bool {
		if len(body(m).Deposits) == 0 {
			return false
		}
		body(m).Deposits[0].Data.Amount++
		return true
	})
	add("deposit/order-swapped", func(m *MutCtx) bool {
		d := body(m).Deposits
		if len(d) < 2 {
			return false
		}
		body(m).Deposits = append([]refspec.Deposit{d[1], d[0]}, d[2:]...)
		return true
	})

	// ---- BLS changes
	bc := func(m *MutCtx) *refspec.SignedBLSToExecutionChange {
		if len(body(m).BLSToExecutionChanges) == 0 {
			return nil
		}
		return &body(m).BLSToExecutionChanges[0]
	}
	signBC := func(m *MutCtx, b *refspec.SignedBLSToExecutionChange, signer uint64, dt [4]byte, v refspec.Version, gvr refspec.Root) {
		b.Signature = m.signWith(m.key(signer), refssz.Root(&b.Message, nil), dt, v, gvr)
	}
	bcMut := func(name string, f func(m *MutCtx, b *refspec.SignedBLSToExecutionChange) bool) {
		add("bls-change/"+name, func(m *MutCtx) bool {
			b := bc(m)
			if b == nil {
				return false
			}
			return f(m, b)
		})
	}
	bcMut("validator-has-eth1-credentials", func(m *MutCtx, b *refspec.SignedBLSToExecutionChange) bool {
		for i := range m.Pre.Validators {
			if m.Pre.Validators[i].WithdrawalCredentials[0] == 1 {
				b.Message.ValidatorIndex = uint64(i)
				b.Message.FromBLSPubkey = m.Pre.Validators[i].Pubkey
				signBC(m, b, uint64(i), refspec.DomainBLSToExecutionChange, m.W.C.GenesisForkVersion, m.Pre.GenesisValidatorsRoot)
				return true
			}
		}
		return false
	})
	bcMut("from-pubkey-does-not-match-credentials", func(m *MutCtx, b *refspec.SignedBLSToExecutionChange) bool {
		other := (b.Message.ValidatorIndex + 1) % uint64(len(m.Pre.Validators))
		b.Message.FromBLSPubkey = m.Pre.Validators[other].Pubkey
		signBC(m, b, other, refspec.DomainBLSToExecutionChange, m.W.C.GenesisForkVersion, m.Pre.GenesisValidatorsRoot)
		return true
	})
	bcMut("signed-by-other-key", func(m *MutCtx, b *refspec.SignedBLSToExecutionChange) bool {
		signBC(m, b, (b.Message.ValidatorIndex+1)%uint64(len(m.Pre.Validators)), refspec.DomainBLSToExecutionChange, m.W.C.GenesisForkVersion, m.Pre.GenesisValidatorsRoot)
		return true
	})
	bcMut("validator-index-out-of-range", func(m *MutCtx, b *refspec.SignedBLSToExecutionChange) bool {
		b.Message.ValidatorIndex = uint64(len(m.Pre.Validators))
		return true
	})
	bcMut("same-change-twice-in-block", func(m *MutCtx, b *refspec.SignedBLSToExecutionChange) bool {
		if uint64(len(body(m).BLSToExecutionChanges)) >= m.W.C.MaxBLSToExecutionChanges {
			return false
		}
		body(m).BLSToExecutionChanges = append(body(m).BLSToExecutionChanges, *b)
		return true
	})
	bcMut("signature-under-current-fork-version", func(m *MutCtx, b *refspec.SignedBLSToExecutionChange) bool {
		signBC(m, b, b.Message.ValidatorIndex, refspec.DomainBLSToExecutionChange, m.Pre.Fork.CurrentVersion, m.Pre.GenesisValidatorsRoot)
		return true
	})
	bcMut("signature-with-zero-genesis-validators-root", func(m *MutCtx, b *refspec.SignedBLSToExecutionChange) bool {
		signBC(m, b, b.Message.ValidatorIndex, refspec.DomainBLSToExecutionChange, m.W.C.GenesisForkVersion, refspec.Root{})
		return true
	})
	bcMut("signature-under-exit-domain", func(m *MutCtx, b *refspec.SignedBLSToExecutionChange) bool {
		signBC(m, b, b.Message.ValidatorIndex, refspec.DomainVoluntaryExit, m.W.C.GenesisForkVersion, m.Pre.GenesisValidatorsRoot)
		return true
	})

	// ---- sync aggregate
	add("sync/bit-flipped-after-signing", func(m *MutCtx) bool {
		if m.SB.Message.F < refspec.Altair {
			return false
		}
		b := append([]bool{}, body(m).SyncAggregate.SyncCommitteeBits...)
		b[0] = !b[0]
		body(m).SyncAggregate.SyncCommitteeBits = b
		return true
	})
	add("sync/participants-with-infinity-signature", func(m *MutCtx) bool {
		if m.SB.Message.F < refspec.Altair {
			return false
		}
		body(m).SyncAggregate.SyncCommitteeSignature = refspec.InfinitySignature
		return true
	})
	add("sync/no-participants-but-real-signature", func(m *MutCtx) bool {
		if m.SB.Message.F < refspec.Altair {
			return false
		}
		body(m).SyncAggregate.SyncCommitteeBits = make([]bool, len(body(m).SyncAggregate.SyncCommitteeBits))
		return true
	})
	add("sync/signed-wrong-block-root", func(m *MutCtx) bool {
		if m.SB.Message.F < refspec.Altair {
			return false
		}
		c := m.W.C
		var signers []int
		for i, on := range body(m).SyncAggregate.SyncCommitteeBits {
			if on {
				signers = append(signers, m.W.KeyIndex(m.Pre.CurrentSyncCommittee.Pubkeys[i]))
			}
		}
		if len(signers) == 0 {
			return false
		}
		prev := m.SB.Message.Slot - 1
		body(m).SyncAggregate.SyncCommitteeSignature = m.W.Sign(signers, refspec.SigningRoot(flip(m.Pre.BlockRootAtSlot(c, prev)), m.Pre.Domain(c, refspec.DomainSyncCommittee, c.EpochAtSlot(prev))))
		return true
	})
	add("sync/signed-under-attester-domain", func(m *MutCtx) bool {
		if m.SB.Message.F < refspec.Altair {
			return false
		}
		c := m.W.C
		var signers []int
		for i, on := range body(m).SyncAggregate.SyncCommitteeBits {
			if on {
				signers = append(signers, m.W.KeyIndex(m.Pre.CurrentSyncCommittee.Pubkeys[i]))
			}
		}
		if len(signers) == 0 {
			return false
		}
		prev := m.SB.Message.Slot - 1
		body(m).SyncAggregate.SyncCommitteeSignature = m.W.Sign(signers, refspec.SigningRoot(m.Pre.BlockRootAtSlot(c, prev), m.Pre.Domain(c, refspec.DomainBeaconAttester, c.EpochAtSlot(prev))))
		return true
	})

	// ---- execution payload
	pl := func(m *MutCtx) *refspec.Payload {
		if m.SB.Message.F < refspec.Bellatrix {
			return nil
		}
		return &body(m).ExecutionPayload
	}
	plMut := func(name string, f func(m *MutCtx, p *refspec.Payload) bool) {
		add("payload/"+name, func(m *MutCtx) bool {
			p := pl(m)
			if p == nil {
				return false
			}
			return f(m, p)
		})
	}
	plMut("parent-hash", func(m *MutCtx, p *refspec.Payload) bool { p.ParentHash = flip(p.ParentHash); return true })
	plMut("prev-randao", func(m *MutCtx, p *refspec.Payload) bool { p.PrevRandao = flip(p.PrevRandao); return true })
	plMut("timestamp-plus-1", func(m *MutCtx, p *refspec.Payload) bool { p.Timestamp++; return true })
	plMut("timestamp-minus-1", func(m *MutCtx, p *refspec.Payload) bool { p.Timestamp--; return true })
	plMut("timestamp-of-previous-slot", func(m *MutCtx, p *refspec.Payload) bool { p.Timestamp -= m.W.C.SecondsPerSlot; return true })
	plMut("withdrawals-one-dropped", func(m *MutCtx, p *refspec.Payload) bool {
		if len(p.Withdrawals) == 0 {
			return false
		}
		p.Withdrawals = p.Withdrawals[:len(p.Withdrawals)-1]
		return true
	})
	plMut("withdrawals-extra", func(m *MutCtx, p *refspec.Payload) bool {
		if m.SB.Message.F < refspec.Capella || uint64(len(p.Withdrawals)) >= m.W.C.MaxWithdrawalsPerPayload {
			return false
		}
		p.Withdrawals = append(append([]refspec.Withdrawal{}, p.Withdrawals...), refspec.Withdrawal{Index: m.Pre.NextWithdrawalIndex + uint64(len(p.Withdrawals)), ValidatorIndex: 0, Amount: 1})
		return true
	})
	wdMut := func(name string, f func(w *refspec.Withdrawal)) {
		plMut("withdrawal-"+name, func(m *MutCtx, p *refspec.Payload) bool {
			if len(p.Withdrawals) == 0 {
				return false
			}
			p.Withdrawals = append([]refspec.Withdrawal{}, p.Withdrawals...)
			f(&p.Withdrawals[len(p.Withdrawals)-1])
			return true
		})
	}
	wdMut("amount-plus-1", func(w *refspec.Withdrawal) { w.Amount++ })
	wdMut("index-plus-1", func(w *refspec.Withdrawal) { w.Index++ })
	wdMut("validator-index", func(w *refspec.Withdrawal) { w.ValidatorIndex++ })
	wdMut("address", func(w *refspec.Withdrawal) { w.Address[3] ^= 1 })
	add("payload/blob-commitments-over-max-blobs", func(m *MutCtx) bool {
		if m.SB.Message.F < refspec.Deneb {
			return false
		}
		var cms []refspec.Pubkey
		for i := uint64(0); i <= m.W.C.MaxBlobsPerBlock; i++ {
			var cm refspec.Pubkey
			cm[0], cm[1] = 0xc0, byte(i)
			cms = append(cms, cm)
		}
		body(m).BlobKZGCommitments = cms
		return true
	})
	_ = sha256.Sum256
	return ms
}
