package chainh

import (
	"fmt"

	"verif/internal/refspec"
)

// Choice: what happens in one slot of a history.
type Choice struct {
	Skip bool
	Plan *Plan
}

func (c Choice) String() string {
	if c.Skip {
		return "skip"
	}
	return c.Plan.Name
}

// Scenario: a base history (default choice per slot) plus the menu of deviations.
type Scenario struct {
	Name   string
	Preset *Preset
	Slots  uint64
	// Default choice of the base scenario at a slot.
	Default func(slot uint64) Choice
	// Menu of deviations offered at (node, slot), simplest first. Computed from the REFERENCE state.
	Menu func(n *Node, slot uint64) []Choice
	NKeys int
}

func defaultBlock(uint64) Choice { return Choice{Plan: &Plan{Name: "default"}} }

// candidates: validators that are active, not slashed, not exiting, not the proposer of the slot
func candidates(n *Node, slot uint64, k int) []uint64 {
	c := n.W.C
	pre := n.Ref
	e := c.EpochAtSlot(slot)
	var out []uint64
	for i := len(pre.Validators) - 1; i >= 0 && len(out) < k; i-- {
		v := &pre.Validators[i]
		if refspec.IsActive(v, e) && !v.Slashed && v.ExitEpoch == refspec.FarFutureEpoch {
			out = append(out, uint64(i))
		}
	}
	return out
}

// FullMenu: the C01 menu (DESIGN.md C01), entries that make sense at this slot/fork.
func FullMenu(n *Node, slot uint64) []Choice {
	c := n.W.C
	f := c.ForkAtEpoch(c.EpochAtSlot(slot))
	var out []Choice
	add := func(p *Plan) { out = append(out, Choice{Plan: p}) }
	out = append(out, Choice{Skip: true})
	// attestation variants
	add(&Plan{Name: "atts:none", NoAtts: true})
	if slot >= 1 {
		add(&Plan{Name: "atts:one-member", Atts: []AttPlan{{Slot: slot - 1, Index: 0, Bits: "one"}, {Slot: slot - 1, Index: 1, Bits: "last"}}})
		add(&Plan{Name: "atts:just-below-2/3", Atts: []AttPlan{{Slot: slot - 1, Index: 0, Bits: "below"}, {Slot: slot - 1, Index: 1, Bits: "below"}}})
		add(&Plan{Name: "atts:wrong-head", Atts: []AttPlan{{Slot: slot - 1, Index: 0, Bits: "full", WrongHead: true}, {Slot: slot - 1, Index: 1, Bits: "full"}}})
		add(&Plan{Name: "atts:wrong-target", Atts: []AttPlan{{Slot: slot - 1, Index: 0, Bits: "full", WrongTarget: true}, {Slot: slot - 1, Index: 1, Bits: "full"}}})
		add(&Plan{Name: "atts:overlapping-aggregates", Atts: []AttPlan{{Slot: slot - 1, Index: 0, Bits: "full"}, {Slot: slot - 1, Index: 0, Bits: "one"}, {Slot: slot - 1, Index: 1, Bits: "full"}}})
	}
	for _, d := range []uint64{2, 3, c.SlotsPerEpoch, c.SlotsPerEpoch + 1} {
		if slot >= d {
			if d > c.SlotsPerEpoch && f < refspec.Deneb {
				continue // outside the inclusion window before deneb (C03 covers the rejection)
			}
			add(&Plan{Name: fmt.Sprintf("atts:delay-%d", d), NoAtts: false, Atts: []AttPlan{}, AttDelays: []uint64{d}})
		}
	}
	if f >= refspec.Altair {
		add(&Plan{Name: "sync:none", Sync: "none"})
		add(&Plan{Name: "sync:half", Sync: "half"})
		add(&Plan{Name: "sync:one", Sync: "one"})
	}
	cands := candidates(n, slot, 4)
	if len(cands) >= 1 && slot >= 1 {
		add(&Plan{Name: fmt.Sprintf("proposer-slashing(%d)", cands[0]), ProposerSlashings: []uint64{cands[0]}})
		add(&Plan{Name: fmt.Sprintf("attester-slashing(%d)", cands[0]), AttesterSlashings: [][]uint64{{cands[0]}}})
		add(&Plan{Name: fmt.Sprintf("exit(%d)", cands[0]), Exits: []uint64{cands[0]}})
		if c.EpochAtSlot(slot) >= 1 {
			// dated (and signed) for the previous epoch: before the latest fork whenever the fork epoch is the current one
			add(&Plan{Name: fmt.Sprintf("exit-dated-previous-epoch(%d)", cands[0]), Exits: []uint64{cands[0]}, ExitEpochBack: 1})
		}
	}
	if len(cands) >= 3 && slot >= 1 {
		srt := []uint64{cands[2], cands[1], cands[0]} // ascending (candidates are collected descending)
		add(&Plan{Name: "attester-slashing(3 validators)", AttesterSlashings: [][]uint64{srt}})
		add(&Plan{Name: "two-attester-slashings-overlapping", AttesterSlashings: [][]uint64{{cands[1], cands[0]}, {cands[2], cands[1]}}})
		add(&Plan{Name: "surround-slashing", SurroundSlashing: []uint64{cands[1], cands[0]}})
		add(&Plan{Name: "exits(3)", Exits: srt})
		add(&Plan{Name: "proposer-slashings(2)", ProposerSlashings: []uint64{cands[1], cands[0]}})
		add(&Plan{Name: "slashing+exit+attester-slashing", ProposerSlashings: []uint64{cands[0]}, AttesterSlashings: [][]uint64{{cands[1]}}, Exits: []uint64{cands[2]}})
	}
	if f >= refspec.Bellatrix {
		add(&Plan{Name: "payload:txs", Txs: 2, ExtraData: 32})
	}
	if f == refspec.Bellatrix && (n.Ref.F < refspec.Bellatrix || !n.Ref.IsMergeTransitionComplete(c)) {
		add(&Plan{Name: "payload:none(pre-merge block)", Payload: "none"})
		add(&Plan{Name: "payload:merge-transition-with-unknown-parent-hash", Payload: "merge-arbitrary-parent", Txs: 1})
		add(&Plan{Name: "payload:merge-transition-with-zero-block-hash", Payload: "merge-zero-block-hash", Txs: 1})
	}
	if f >= refspec.Capella {
		var bls []uint64
		for i := range n.Ref.Validators {
			if n.Ref.Validators[i].WithdrawalCredentials[0] == 0 && len(bls) < 2 {
				bls = append(bls, uint64(i))
			}
		}
		if len(bls) > 0 {
			add(&Plan{Name: fmt.Sprintf("bls-change(%d)", bls[0]), BLSChanges: bls[:1]})
		}
		if len(bls) > 1 && len(cands) >= 2 {
			add(&Plan{Name: "bls-changes(2)+exit+slashing", BLSChanges: bls, Exits: []uint64{cands[0]}, ProposerSlashings: []uint64{cands[1]}})
		}
	}
	if f >= refspec.Deneb {
		add(&Plan{Name: "blobs:1", Blobs: 1})
		add(&Plan{Name: "blobs:max", Blobs: int(c.MaxBlobsPerBlock), Txs: 1})
	}
	return out
}

// SmallMenu: the interacting sub-menu used for 2-deviation exploration.
func SmallMenu(n *Node, slot uint64) []Choice {
	full := FullMenu(n, slot)
	keep := map[string]bool{"skip": true, "atts:none": true, "sync:none": true, "exits(3)": true, "attester-slashing(3 validators)": true,
		"slashing+exit+attester-slashing": true, "atts:delay-2": true, "bls-changes(2)+exit+slashing": true}
	var out []Choice
	for _, c := range full {
		if keep[c.String()] || (len(c.String()) > 5 && (c.String()[:5] == "exit(" || c.String()[:5] == "propo")) {
			out = append(out, c)
		}
	}
	return out
}

// ---------------------------------------------------------------- base scenarios

func Scenarios(tier string) []*Scenario {
	healthy := &Scenario{Name: "healthy/all-forks", Preset: T4(AllForks), Slots: 24, Default: defaultBlock, Menu: FullMenu, NKeys: 24}
	// ~50% participation: no justification, inactivity leak from epoch 3 on, across the fork boundaries
	leak := &Scenario{Name: "leak/all-forks", Preset: T4(AllForks), Slots: 28, Menu: FullMenu, NKeys: 24,
		Default: func(slot uint64) Choice {
			if slot == 0 {
				return defaultBlock(slot)
			}
			return Choice{Plan: &Plan{Name: "default(50%)", Atts: []AttPlan{{Slot: slot - 1, Index: 0, Bits: "one"}, {Slot: slot - 1, Index: 1, Bits: "one"}}, Sync: "half"}}
		}}
	// deposits: new validators / top-ups / invalid proof-of-possession become known at slot 1 and
	// every block votes for the eth1 data that commits to them
	dep := &Scenario{Name: "deposits/all-forks", Preset: T4(AllForks), Slots: 24, NKeys: 24,
		Default: func(slot uint64) Choice {
			p := &Plan{Name: "default+eth1vote", Eth1Flip: true}
			if slot == 1 {
				p.AddDeposits = []DepSpec{{Key: 16, Amount: 32_000_000_000}, {Key: 3, Amount: 1_000_000_000}, {Key: 17, Amount: 32_000_000_000, BadSig: true},
					{Key: 18, Amount: 31_000_000_000}, {Key: 16, Amount: 2_000_000_000}, {Key: 19, Amount: 32_000_000_000}, {Key: 18, Amount: 1_000_000_000},
					{Key: 5, Amount: 1_000_000_000, ZeroSig: true}, {Key: 20, Amount: 32_000_000_000, ZeroSig: true}}
				p.Name = "default+eth1vote+9 new deposits"
			}
			return Choice{Plan: p}
		},
		// the sibling histories learn of OTHER deposits at slot 1: the same validator indices get other keys than on
		// the base history (whose entries are already in the shared pubkey cache), top-ups hit other validators
		Menu: func(n *Node, slot uint64) []Choice {
			out := SmallMenu(n, slot)
			if slot == 1 {
				out = append(out,
					Choice{Plan: &Plan{Name: "other-deposits:keys-in-other-order", Eth1Flip: true, AddDeposits: []DepSpec{{Key: 19, Amount: 32_000_000_000}, {Key: 16, Amount: 32_000_000_000},
						{Key: 7, Amount: 2_000_000_000, BadSig: true}, {Key: 18, Amount: 32_000_000_000}, {Key: 19, Amount: 1_000_000_000, ZeroSig: true}}}},
					Choice{Plan: &Plan{Name: "other-deposits:one-new-key", Eth1Flip: true, AddDeposits: []DepSpec{{Key: 21, Amount: 32_000_000_000}, {Key: 21, Amount: 1_000_000_000, BadSig: true}}}})
			}
			return out
		}}
	// the same deposits on a chain that stays in phase0 (deposit processing is the last operation kind of a phase0
	// block that has no exits)
	depP0 := &Scenario{Name: "deposits/phase0-only", Preset: T4([5]uint64{0, Far, Far, Far, Far}), Slots: 16, NKeys: 24, Default: dep.Default, Menu: SmallMenu}
	phase0only := &Scenario{Name: "healthy/phase0-only", Preset: T4([5]uint64{0, Far, Far, Far, Far}), Slots: 20, Default: defaultBlock, Menu: FullMenu, NKeys: 24}
	altairLong := &Scenario{Name: "healthy/altair-at-1", Preset: T4([5]uint64{0, 1, Far, Far, Far}), Slots: 24, Default: defaultBlock, Menu: FullMenu, NKeys: 24}
	sameEpoch := &Scenario{Name: "healthy/two-upgrades-in-epoch-2", Preset: T4([5]uint64{0, 1, 2, 2, 3}), Slots: 20, Default: defaultBlock, Menu: SmallMenu, NKeys: 24}
	// ejections + churn: some validators start just above the ejection balance, leak pushes them below
	ejectP := T4(AllForks)
	ejectP.Name = "T4-eject"
	ejectP.MinChurn, ejectP.ChurnQuotient = 1, 32
	ejectP.EjectionBalance = 30_000_000_000
	ejectP.GenesisBalances = func(i int) uint64 {
		if i%5 == 1 {
			return 32_000_000_000 // hovering: effective 32 but balance will fall below with penalties
		}
		return 32_000_000_000
	}
	eject := &Scenario{Name: "leak+eject/all-forks", Preset: ejectP, Slots: 32, Menu: SmallMenu, NKeys: 24, Default: leak.Default}
	// mass ejection: the ejection balance equals the maximum effective balance, so the first epoch transition
	// ejects the whole registry at once and the exit queue (churn limit 2) is filled epoch after epoch
	massP := T4(AllForks)
	massP.Name = "T4-mass-eject"
	massP.EjectionBalance = 32_000_000_000
	mass := &Scenario{Name: "mass-ejection/all-forks", Preset: massP, Slots: 20, Menu: SmallMenu, NKeys: 24, Default: defaultBlock}
	// withdrawals: every validator has an execution address; from capella on every payload carries the maximum
	// number of withdrawals and the sweep wraps around the registry every 8 blocks
	wdP := T4(AllForks)
	wdP.Name = "T4-withdrawals"
	wdP.AllEth1Creds = true
	wd := &Scenario{Name: "withdrawals/all-forks", Preset: wdP, Slots: 32, Menu: SmallMenu, NKeys: 24, Default: defaultBlock}
	// 32 sync committee seats for 16 validators: every validator sits twice in each aggregate
	sync32 := &Scenario{Name: "healthy/sync-committee-of-32", Preset: TSync32(AllForks), Slots: 24, Default: defaultBlock, Menu: SmallMenu, NKeys: 24}
	oddP := T4(AllForks)
	oddP.Name, oddP.OddVectors = "T4-odd-vectors", true
	oddVec := &Scenario{Name: "healthy/odd-vector-lengths", Preset: oddP, Slots: 44, Default: defaultBlock, Menu: SmallMenu, NKeys: 24}
	if tier == "thorough" {
		return []*Scenario{healthy, leak, dep, phase0only, altairLong, sameEpoch, eject, mass, wd, sync32, depP0, oddVec}
	}
	// quick tier: the full menu on the healthy and the leak history (late attestations only change something where
	// participation was partial); the interacting sub-menu on the phase0-only history
	phase0only.Menu = SmallMenu
	return []*Scenario{healthy, mass, dep, depP0, wd, leak, phase0only}
}

// SlotMenu: C02 — deviations that shape slot/epoch processing: gaps and registry-changing blocks.
func SlotMenu(n *Node, slot uint64) []Choice {
	keep := map[string]bool{"skip": true, "atts:none": true, "sync:none": true, "exits(3)": true, "attester-slashing(3 validators)": true, "atts:just-below-2/3": true,
		"atts:wrong-target": true, "atts:wrong-head": true, "sync:half": true,
		// the same vote included again later (other timeliness flags for the same validator; at the altair upgrade the
		// pending attestations of both inclusions are translated)
		"atts:delay-2": true, "atts:delay-3": true}
	var out []Choice
	for _, c := range FullMenu(n, slot) {
		if keep[c.String()] {
			out = append(out, c)
		}
	}
	return out
}

// SlotScenarios: base histories for C02 (per-slot comparison).
func SlotScenarios(tier string) []*Scenario {
	empty := &Scenario{Name: "no-blocks/all-forks", Preset: T4(AllForks), Slots: 40, Menu: SlotMenu, NKeys: 24, Default: func(uint64) Choice { return Choice{Skip: true} }}
	sparse := &Scenario{Name: "one-block-per-epoch/all-forks", Preset: T4(AllForks), Slots: 40, Menu: SlotMenu, NKeys: 24,
		Default: func(slot uint64) Choice {
			if slot%4 == 1 {
				return Choice{Plan: &Plan{Name: "default", AttDelays: []uint64{2, 3, 4}}}
			}
			return Choice{Skip: true}
		}}
	out := []*Scenario{}
	if tier != "thorough" {
		// forks that share an activation epoch: several in-place upgrades at one slot (short history, small menu)
		out = append(out, &Scenario{Name: "healthy/three-upgrades-in-epoch-1", Preset: T4([5]uint64{0, 1, 1, 1, 2}), Slots: 8, Default: defaultBlock, Menu: SmallMenu, NKeys: 24})
	}
	for _, sc := range Scenarios(tier) {
		c := *sc
		c.Menu = SlotMenu
		c.Slots = sc.Slots + 8
		out = append(out, &c)
	}
	return append([]*Scenario{empty, sparse}, out...)
}
