package chainh

import (
	"bytes"
	"context"
	"crypto/sha256"
	"fmt"
	"strings"

	"github.com/protolambda/zrnt/eth2/beacon/altair"
	"github.com/protolambda/zrnt/eth2/beacon/common"
	"github.com/protolambda/zrnt/eth2/beacon/phase0"
	"github.com/protolambda/zrnt/eth2/gossipval"
	"github.com/protolambda/ztyp/codec"

	"verif/internal/refspec"
	"verif/internal/refssz"
)

// Expectation classes (refp2p): every condition of the networking spec holds => ACCEPT; some
// validity-class condition fails => anything but ACCEPT; only timing-class conditions fail => IGNORE.
const (
	ExpAccept    = "ACCEPT"
	ExpNotAccept = "NOT-ACCEPT" // a REJECT-class condition fails
	ExpIgnore    = "IGNORE"     // only timing-class conditions fail (an honest sender can cause this)
)

type P2PCase struct {
	Topic, Name string
	Expect      string
	// Run validates on a fresh session of the view and returns zrnt's verdict.
	Run func(v *View) gossipval.GossipValidatorResult
	// Clock: current slot + millisecond offset
	NowSlot  uint64
	OffsetMs int64
	Premark  []string
	// Honest: after the refused message, this (honest) message must still be ACCEPTed on the same session.
	Honest func(v *View) gossipval.GossipValidatorResult
}

func decodeInto(spec *common.Spec, b []byte, dst interface{}) {
	dr := codec.NewDecodingReader(bytes.NewReader(b), uint64(len(b)))
	var err error
	switch d := dst.(type) {
	case common.SpecObj:
		err = d.Deserialize(spec, dr)
	case codec.Deserializable:
		err = d.Deserialize(dr)
	default:
		panic("cannot decode")
	}
	if err != nil {
		panic(fmt.Sprintf("harness: zrnt cannot decode a harness message: %v", err))
	}
}

func toRealAtt(w *World, a *refspec.Attestation) *phase0.Attestation {
	var out phase0.Attestation
	decodeInto(w.Spec, refssz.Encode(a, w.C.Params()), &out)
	return &out
}

// StandardView: main chain of default blocks at slots 1..18 (finalizes by then), a conflicting
// branch from slot 1 (block at slot 3 on the block of slot 1), and a fork near the head (block at
// slot 18 on the block of slot 16).
type Std struct {
	V        *View
	Main     map[uint64]*ViewBlock // by slot
	OldFork  *ViewBlock            // conflicts with the finalized checkpoint
	NearFork *ViewBlock            // sibling near the head
	Head     *ViewBlock
	Thorough bool
}

func BuildStd(w *World, lastSlot uint64) (*Std, error) {
	g, err := w.Genesis()
	if err != nil {
		return nil, err
	}
	v := NewView(w, g)
	s := &Std{V: v, Main: map[uint64]*ViewBlock{0: v.Order[0]}}
	prev := v.Order[0]
	for slot := uint64(1); slot <= lastSlot; slot++ {
		if slot == lastSlot-1 {
			continue // a gap slot right before the head
		}
		b, err := v.AddBlock(prev.Root, slot, &Plan{Name: "default"})
		if err != nil {
			return nil, fmt.Errorf("main chain slot %d: %v", slot, err)
		}
		s.Main[slot] = b
		prev = b
	}
	s.Head = prev
	if s.OldFork, err = v.AddBlock(s.Main[1].Root, 3, &Plan{Name: "default", Graffiti: 0xf1}); err != nil {
		return nil, fmt.Errorf("old fork: %v", err)
	}
	if s.NearFork, err = v.AddBlock(s.Main[lastSlot-2].Root, lastSlot, &Plan{Name: "default", Graffiti: 0xf2}); err != nil {
		return nil, fmt.Errorf("near fork: %v", err)
	}
	v.SetHead(s.Head.Root)
	return s, nil
}

// slotAt: the slot of the clock position (now slot, offset) shifted by d milliseconds (clipped at genesis).
func slotAt(c *refspec.Cfg, now uint64, off, d int64) uint64 {
	t := int64(now)*int64(c.SecondsPerSlot)*1000 + off + d
	if t < 0 {
		return 0
	}
	return uint64(t) / (c.SecondsPerSlot * 1000)
}

const disparityMs = 500

// notFuture: message.slot <= current_slot, with the disparity allowance.
func notFuture(c *refspec.Cfg, slot, now uint64, off int64) bool {
	return slot <= slotAt(c, now, off, disparityMs)
}

// attWindow: the propagation window of attestations and aggregates for a message of `slot`.
// Before deneb: slot + 32 >= current_slot >= slot. From deneb on (EIP-7045): slot <= current_slot and
// epoch(slot) in (previous, current) epoch — each bound with the disparity allowance.
func attWindow(c *refspec.Cfg, slot, now uint64, off int64) bool {
	if !notFuture(c, slot, now, off) {
		return false
	}
	low := slotAt(c, now, off, -disparityMs)
	if c.ForkAtEpoch(c.EpochAtSlot(slot)) >= refspec.Deneb {
		e := c.EpochAtSlot(low)
		if e > 0 {
			e--
		}
		return c.EpochAtSlot(slot) >= e
	}
	return slot+32 >= low
}

// currentSlotOnly: message.slot == current_slot with the disparity allowance on both sides.
func currentSlotOnly(c *refspec.Cfg, slot, now uint64, off int64) bool {
	return slot <= slotAt(c, now, off, disparityMs) && slot >= slotAt(c, now, off, -disparityMs)
}

// clockGrid: every (slot, offset) with slot in [lo, hi] and the offsets around both disparity edges.
func clockGrid(c *refspec.Cfg, lo, hi uint64, f func(now uint64, off int64)) {
	ms := int64(c.SecondsPerSlot) * 1000
	for now := lo; now <= hi; now++ {
		for _, off := range []int64{0, 1, disparityMs - 1, disparityMs, disparityMs + 1, ms / 2, ms - disparityMs - 1, ms - disparityMs, ms - disparityMs + 1, ms - 1} {
			f(now, off)
		}
	}
}

func sub(a, b uint64) uint64 {
	if a < b {
		return 0
	}
	return a - b
}

func expectOf(ok bool) string {
	if ok {
		return ExpAccept
	}
	return ExpIgnore
}

// selected: is_aggregator / is_sync_committee_aggregator — sha256(selection proof)[0:8] LE mod modulo == 0.
func selected(proof refspec.Signature, modulo uint64) bool {
	if modulo == 0 {
		modulo = 1
	}
	h := sha256.Sum256(proof[:])
	var x uint64
	for i := 7; i >= 0; i-- {
		x = x<<8 | uint64(h[i])
	}
	return x%modulo == 0
}

func flipR(r common.Root) common.Root { r[9] ^= 0x10; return r }

// ---------------------------------------------------------------- beacon_block

func (s *Std) blockEnvelope(sb *refspec.SignedBlock) *common.BeaconBlockEnvelope {
	env, err := s.V.W.RealEnvelope(sb.Message.F, sb.Encode(s.V.W.C), refspec.Root(s.V.GVR))
	if err != nil {
		panic(err)
	}
	// the fork digest a decoder would have attached for the block's slot
	f := s.V.W.C.ForkAtEpoch(s.V.W.C.EpochAtSlot(sb.Message.Slot))
	env.ForkDigest = s.V.W.digest(f, refspec.Root(s.V.GVR))
	return env
}

func (s *Std) BlockCases() []P2PCase {
	w, c := s.V.W, s.V.W.C
	var out []P2PCase
	slot := s.Head.Slot + 1
	mk := func(parent *ViewBlock, slot uint64, mut func(m *MutCtx), resign bool) func(v *View) gossipval.GossipValidatorResult {
		return func(v *View) gossipval.GossipValidatorResult {
			sb, _, _, err := parent.Node.Produce(slot, &Plan{Name: "default", Graffiti: 0x77})
			if err != nil {
				panic(err)
			}
			if mut != nil {
				pre := parent.Node.Ref.Copy(c)
				w.Env.ProcessSlots(pre, slot, nil)
				m := &MutCtx{W: w, Pre: pre, SB: sb}
				mut(m)
				if resign {
					m.ResignProposer()
				}
			}
			return gossipval.ValidateBeaconBlock(context.Background(), s.blockEnvelope(sb), v)
		}
	}
	honest := mk(s.Head, slot, nil, false)
	add := func(name, exp string, now uint64, off int64, pre []string, run func(v *View) gossipval.GossipValidatorResult) {
		out = append(out, P2PCase{Topic: "beacon_block", Name: name, Expect: exp, Run: run, NowSlot: now, OffsetMs: off, Premark: pre, Honest: honest})
	}
	ms := int64(c.SecondsPerSlot) * 1000
	add("honest", ExpAccept, slot, 0, nil, honest)
	add("honest, 3 slots later", ExpAccept, slot+3, 100, nil, honest)
	add("honest, clock 500ms before the slot", ExpAccept, slot-1, ms-500, nil, honest)
	add("future slot: clock 501ms before the slot", ExpIgnore, slot-1, ms-501, nil, honest)
	add("future slot: clock one slot behind", ExpIgnore, slot-1, 0, nil, honest)
	clockGrid(c, sub(slot, 2), slot+2, func(n uint64, off int64) {
		add(fmt.Sprintf("clock sweep: honest block at clock slot %d + %dms", n, off), expectOf(notFuture(c, slot, n, off)), n, off, nil, honest)
	})
	prop := s.Head.Node.Ref.Copy(c)
	w.Env.ProcessSlots(prop, slot, nil)
	pidx := prop.ProposerIndex(c)
	add("duplicate (slot, proposer) already seen", ExpIgnore, slot, 0, []string{fmt.Sprintf("block/%d/%d", slot, pidx)}, honest)
	add("first block of the next epoch on an older parent (context advanced across the boundary)", ExpAccept, ((slot/c.SlotsPerEpoch)+1)*c.SlotsPerEpoch, 0, nil,
		mk(s.Head, ((slot/c.SlotsPerEpoch)+1)*c.SlotsPerEpoch, nil, false))
	add("block on the near fork", ExpAccept, slot, 0, nil, mk(s.NearFork, slot, nil, false))
	add("slot not after the parent's slot (validly signed by the proposer of that slot)", ExpNotAccept, slot, 0, nil, mk(s.Head, slot, func(m *MutCtx) {
		par := s.V.Blocks[common.Root(m.SB.Message.ParentRoot)]
		m.SB.Message.Slot = par.Slot
		m.SB.Message.ProposerIndex = par.Signed.Message.ProposerIndex
	}, true))
	add("unknown parent", ExpIgnore, slot, 0, nil, mk(s.Head, slot, func(m *MutCtx) { m.SB.Message.ParentRoot = flip(m.SB.Message.ParentRoot) }, true))
	add("signature by another validator", ExpNotAccept, slot, 0, nil, mk(s.Head, slot, func(m *MutCtx) {
		other := (m.SB.Message.ProposerIndex + 1) % uint64(len(m.Pre.Validators))
		m.SB.Signature = w.Sign(m.key(other), refspec.SigningRoot(m.SB.Message.HashTreeRoot(c), m.Pre.Domain(c, refspec.DomainBeaconProposer, m.Pre.CurrentEpoch(c))))
	}, false))
	add("signature under another fork version", ExpNotAccept, slot, 0, nil, mk(s.Head, slot, func(m *MutCtx) {
		v := m.otherVersions(m.Pre.Fork.CurrentVersion)[0]
		m.SB.Signature = m.signWith(m.key(m.SB.Message.ProposerIndex), m.SB.Message.HashTreeRoot(c), refspec.DomainBeaconProposer, v, m.Pre.GenesisValidatorsRoot)
	}, false))
	add("signature under the attester domain", ExpNotAccept, slot, 0, nil, mk(s.Head, slot, func(m *MutCtx) {
		m.SB.Signature = w.Sign(m.key(m.SB.Message.ProposerIndex), refspec.SigningRoot(m.SB.Message.HashTreeRoot(c), m.Pre.Domain(c, refspec.DomainBeaconAttester, m.Pre.CurrentEpoch(c))))
	}, false))
	add("content changed after signing", ExpNotAccept, slot, 0, nil, mk(s.Head, slot, func(m *MutCtx) { m.SB.Message.Body.Graffiti[5] ^= 1 }, false))
	add("wrong proposer (validly signed by that validator)", ExpNotAccept, slot, 0, nil, mk(s.Head, slot, func(m *MutCtx) {
		m.SB.Message.ProposerIndex = (m.SB.Message.ProposerIndex + 1) % uint64(len(m.Pre.Validators))
	}, true))
	if _, in := s.V.isAncestor(s.V.Fin.Root, s.OldFork.Root); !in {
		add("parent conflicts with the finalized checkpoint", ExpNotAccept, slot, 0, nil, mk(s.OldFork, slot, nil, false))
	} else {
		add("parent on an old branch that still descends from the finalized checkpoint", ExpAccept, slot, 0, nil, mk(s.OldFork, slot, nil, false))
	}
	finSlot := uint64(s.V.Fin.Epoch) * c.SlotsPerEpoch
	if finSlot >= 2 {
		// a (validly signed) late block for a slot at/before the finalized slot, on a finalized ancestor
		par := s.Main[finSlot-2]
		add("slot not after the finalized slot", ExpIgnore, slot, 0, nil, mk(par, finSlot, nil, false))
	}
	return out
}

// ---------------------------------------------------------------- attestations

type attCtx struct {
	s     *Std
	slot  uint64
	index uint64
	comm  []uint64
	data  refspec.AttestationData
	pre   *refspec.State
}

func (s *Std) attCtx(slot, index uint64) *attCtx {
	c := s.V.W.C
	pre := s.Head.Node.Ref.Copy(c)
	if pre.Slot < slot+1 {
		s.V.W.Env.ProcessSlots(pre, slot+1, nil)
	}
	a := &attCtx{s: s, slot: slot, index: index, pre: pre}
	a.comm = pre.BeaconCommittee(c, slot, index)
	a.data = attData(c, pre, slot, index)
	return a
}

func (a *attCtx) single(member int, data refspec.AttestationData, signer int64) *refspec.Attestation {
	w := a.s.V.W
	bits := make([]bool, len(a.comm))
	bits[member] = true
	v := a.comm[member]
	if signer >= 0 {
		v = uint64(signer)
	}
	return &refspec.Attestation{AggregationBits: bits, Data: data, Signature: w.signAtt(a.pre, &data, []uint64{v})}
}

func subnetFor(c *refspec.Cfg, cps, slot, index uint64) uint64 {
	return (cps*(slot%c.SlotsPerEpoch) + index) % 64
}

func (s *Std) AttestationCases() []P2PCase {
	w, c := s.V.W, s.V.W.C
	var out []P2PCase
	now := s.Head.Slot + 1
	for _, slot := range []uint64{s.Head.Slot, s.Head.Slot - 2} {
		a := s.attCtx(slot, 0)
		cps := a.pre.CommitteeCountPerSlot(c, c.EpochAtSlot(slot))
		subnet := subnetFor(c, cps, slot, 0)
		run := func(att *refspec.Attestation, subnet uint64) func(v *View) gossipval.GossipValidatorResult {
			return func(v *View) gossipval.GossipValidatorResult {
				_, res := gossipval.ValidateAttestation(context.Background(), subnet, toRealAtt(w, att), v)
				return res
			}
		}
		honestAtt := a.single(0, a.data, -1)
		honest := run(honestAtt, subnet)
		add := func(name, exp string, nowS uint64, off int64, pre []string, r func(v *View) gossipval.GossipValidatorResult) {
			out = append(out, P2PCase{Topic: "beacon_attestation", Name: fmt.Sprintf("slot %d: %s", slot, name), Expect: exp, Run: r, NowSlot: nowS, OffsetMs: off, Premark: pre, Honest: honest})
		}
		ms := int64(c.SecondsPerSlot) * 1000
		add("honest", ExpAccept, now, 0, nil, honest)
		add("honest, every other committee member", ExpAccept, now, 0, nil, run(a.single(len(a.comm)-1, a.data, -1), subnet))
		add("honest, clock 500ms before the attestation slot", ExpAccept, slot-1, ms-500, nil, honest)
		add("from the future: clock 501ms before the slot", ExpIgnore, slot-1, ms-501, nil, honest)
		clockGrid(c, sub(slot, 2), slot+34, func(n uint64, off int64) {
			if !s.Thorough && n > slot+1 && n < slot+31 && (n-slot)%c.SlotsPerEpoch > 1 {
				return
			}
			add(fmt.Sprintf("clock sweep: honest attestation at clock slot %d + %dms", n, off), expectOf(attWindow(c, slot, n, off)), n, off, nil, honest)
		})
		add("already seen vote of this validator for this target epoch", ExpIgnore, now, 0, []string{fmt.Sprintf("att/%d/%d", a.data.Target.Epoch, a.comm[0])}, honest)
		add("wrong subnet", ExpNotAccept, now, 0, nil, run(honestAtt, (subnet+1)%64))
		{
			d := a.data
			d.Index = cps
			add("committee index out of range", ExpNotAccept, now, 0, nil, run(a.single(0, d, -1), subnetFor(c, cps, slot, cps)))
		}
		{
			d := a.data
			d.Target.Epoch++
			add("target epoch does not match the slot", ExpNotAccept, now, 0, nil, run(a.single(0, d, -1), subnet))
		}
		{
			x := a.single(0, a.data, -1)
			if len(a.comm) > 1 {
				x.AggregationBits[1] = true
				x.Signature = w.signAtt(a.pre, &a.data, a.comm[:2])
				add("two participants", ExpNotAccept, now, 0, nil, run(x, subnet))
			}
			y := a.single(0, a.data, -1)
			y.AggregationBits[0] = false
			add("no participant", ExpNotAccept, now, 0, nil, run(y, subnet))
			z := a.single(0, a.data, -1)
			z.AggregationBits = append(z.AggregationBits, false)
			add("bitfield one longer than the committee", ExpNotAccept, now, 0, nil, run(z, subnet))
			if len(a.comm) > 1 {
				z2 := a.single(0, a.data, -1)
				z2.AggregationBits = z2.AggregationBits[:len(z2.AggregationBits)-1]
				add("bitfield one shorter than the committee", ExpNotAccept, now, 0, nil, run(z2, subnet))
			}
		}
		add("signed by another validator", ExpNotAccept, now, 0, nil, run(a.single(0, a.data, int64((a.comm[0]+1)%uint64(len(a.pre.Validators)))), subnet))
		{
			x := a.single(0, a.data, -1)
			dom := a.pre.Domain(c, refspec.DomainRandao, a.data.Target.Epoch)
			x.Signature = w.Sign(w.valKeys(a.pre, a.comm[:1]), refspec.SigningRoot(refssz.Root(&a.data, nil), dom))
			add("signed under the randao domain", ExpNotAccept, now, 0, nil, run(x, subnet))
		}
		{
			d := a.data
			d.BeaconBlockRoot = refspec.Root(flipR(common.Root(d.BeaconBlockRoot)))
			add("vote for an unknown block", ExpIgnore, now, 0, nil, run(a.single(0, d, -1), subnet))
		}
		{
			d := a.data
			d.Target.Root = refspec.Root(flipR(common.Root(d.Target.Root)))
			add("unknown target root", ExpIgnore, now, 0, nil, run(a.single(0, d, -1), subnet))
		}
		if es := c.EpochAtSlot(slot) * c.SlotsPerEpoch; es > 0 && s.Main[es] != nil && common.Root(a.data.Target.Root) == s.Main[es].Root {
			// LMD vote for a block older than the target block: the target is not its ancestor
			var older *ViewBlock
			for k := es - 1; older == nil; k-- {
				older = s.Main[k]
			}
			d := a.data
			d.BeaconBlockRoot = refspec.Root(older.Root)
			add("target is not an ancestor of the voted block (vote older than target)", ExpNotAccept, now, 0, nil, run(a.single(0, d, -1), subnet))
		}
		{
			d := a.data
			d.BeaconBlockRoot = refspec.Root(s.NearFork.Root)
			if slot >= s.NearFork.Slot {
				// voted block is on the near fork but the target root stays on the main chain: if the target is
				// an ancestor of both this is a valid vote; only offered when the target is NOT an ancestor
				if _, in := s.V.isAncestor(common.Root(d.Target.Root), s.NearFork.Root); !in {
					add("target is not an ancestor of the voted block", ExpNotAccept, now, 0, nil, run(a.single(0, d, -1), subnet))
				}
			}
		}
		{
			d := a.data
			d.BeaconBlockRoot = refspec.Root(s.OldFork.Root)
			d.Target.Root = refspec.Root(s.Main[1].Root)
			if _, in := s.V.isAncestor(s.V.Fin.Root, s.OldFork.Root); !in {
				// target IS an ancestor of the voted block, but the voted block conflicts with finality
				exp := ExpIgnore
				add("voted block conflicts with the finalized checkpoint", exp, now, 0, nil, run(a.single(0, d, -1), subnet))
			}
		}
		if fb := s.V.Blocks[s.V.Fin.Root]; fb != nil && slot == s.Head.Slot {
			// a vote for the finalized block itself, target = the finalized checkpoint (e.g. epoch-0 attestations to
			// the genesis block): honest as long as it is inside the propagation window
			fslot := uint64(s.V.Fin.Epoch) * c.SlotsPerEpoch
			if fb.Slot <= fslot && attWindow(c, fslot, now, 0) && s.Head.Slot+1 < fslot+c.SlotsPerHistoricalRoot {
				fa := s.attCtx(fslot, 0)
				d := fa.data
				d.BeaconBlockRoot = refspec.Root(s.V.Fin.Root)
				d.Target = refspec.Checkpoint{Epoch: uint64(s.V.Fin.Epoch), Root: refspec.Root(s.V.Fin.Root)}
				fcps := fa.pre.CommitteeCountPerSlot(c, c.EpochAtSlot(fslot))
				fsub := subnetFor(c, fcps, fslot, 0)
				add("vote for the finalized block itself with the finalized checkpoint as target", ExpAccept, now, 0, nil, func(v *View) gossipval.GossipValidatorResult {
					_, res := gossipval.ValidateAttestation(context.Background(), fsub, toRealAtt(w, fa.single(0, d, -1)), v)
					return res
				})
			}
		}
		{
			v := run(honestAtt, subnet)
			out = append(out, P2PCase{Topic: "beacon_attestation", Name: fmt.Sprintf("slot %d: vote for a block that failed validation", slot), Expect: ExpNotAccept, NowSlot: now, Honest: nil,
				Run: func(vw *View) gossipval.GossipValidatorResult { vw.Bad[common.Root(a.data.BeaconBlockRoot)] = true; return v(vw) }})
		}
	}
	return out
}

// ---------------------------------------------------------------- aggregate and proof

func (s *Std) AggregateCases() []P2PCase {
	w, c := s.V.W, s.V.W.C
	var out []P2PCase
	now := s.Head.Slot + 1
	slot := s.Head.Slot
	a := s.attCtx(slot, 0)
	type agg struct {
		aggregator uint64
		att        refspec.Attestation
		selSigner  int64
		selSlot    uint64
		outerDom   [4]byte
		outerKey   int64
	}
	type sl struct{ S uint64 }
	selProof := func(signer, selSlot uint64) refspec.Signature {
		selDom := a.pre.Domain(c, refspec.DomainSelectionProof, c.EpochAtSlot(selSlot))
		return w.Sign(w.valKeys(a.pre, []uint64{signer}), refspec.SigningRoot(refssz.Root(&sl{selSlot}, nil), selDom))
	}
	modulo := uint64(len(a.comm)) / 16
	build := func(g agg) *phase0.SignedAggregateAndProof {
		selSigner := g.aggregator
		if g.selSigner >= 0 {
			selSigner = uint64(g.selSigner)
		}
		sel := selProof(selSigner, g.selSlot)
		msg := refspec.AggregateAndProof{AggregatorIndex: g.aggregator, Aggregate: g.att, SelectionProof: sel}
		outerSigner := g.aggregator
		if g.outerKey >= 0 {
			outerSigner = uint64(g.outerKey)
		}
		dom := a.pre.Domain(c, g.outerDom, g.att.Data.Target.Epoch)
		sig := w.Sign(w.valKeys(a.pre, []uint64{outerSigner % uint64(len(a.pre.Validators))}), refspec.SigningRoot(refssz.Root(&msg, c.Params()), dom))
		sm := refspec.SignedAggregateAndProof{Message: msg, Signature: sig}
		var out phase0.SignedAggregateAndProof
		decodeInto(w.Spec, refssz.Encode(&sm, c.Params()), &out)
		return &out
	}
	fullBits := make([]bool, len(a.comm))
	for i := range fullBits {
		fullBits[i] = true
	}
	fullAtt := refspec.Attestation{AggregationBits: fullBits, Data: a.data, Signature: w.signAtt(a.pre, &a.data, a.comm)}
	// the honest aggregator: the first committee member its selection proof selects
	first := -1
	for i, m := range a.comm {
		if selected(selProof(m, slot), modulo) {
			first = i
			break
		}
	}
	if first < 0 {
		panic("harness: no member of the committee is selected as aggregator")
	}
	base := agg{aggregator: a.comm[first], att: fullAtt, selSigner: -1, selSlot: slot, outerDom: refspec.DomainAggregateAndProof, outerKey: -1}
	run := func(g agg) func(v *View) gossipval.GossipValidatorResult {
		return func(v *View) gossipval.GossipValidatorResult {
			_, res := gossipval.ValidateAggregateAndProof(context.Background(), build(g), v)
			return res
		}
	}
	honest := run(base)
	add := func(name, exp string, nowS uint64, off int64, pre []string, r func(v *View) gossipval.GossipValidatorResult) {
		out = append(out, P2PCase{Topic: "beacon_aggregate_and_proof", Name: name, Expect: exp, Run: r, NowSlot: nowS, OffsetMs: off, Premark: pre, Honest: honest})
	}
	add("honest", ExpAccept, now, 0, nil, honest)
	for i, m := range a.comm {
		// every member as aggregator with a valid selection proof and valid signatures: accepted iff selected
		g := base
		g.aggregator = m
		exp := ExpAccept
		if !selected(selProof(m, slot), modulo) {
			exp = ExpNotAccept
		}
		add(fmt.Sprintf("member %d of the committee as aggregator (modulo %d): selection decides", i, modulo), exp, now, 0, nil, run(g))
	}
	add("from the future", ExpIgnore, slot-1, 0, nil, honest)
	clockGrid(c, sub(slot, 2), slot+34, func(n uint64, off int64) {
		if !s.Thorough && n > slot+1 && n < slot+31 && (n-slot)%c.SlotsPerEpoch > 1 {
			return
		}
		add(fmt.Sprintf("clock sweep: honest aggregate at clock slot %d + %dms", n, off), expectOf(attWindow(c, slot, n, off)), n, off, nil, honest)
	})
	add("aggregator already seen for this epoch", ExpIgnore, now, 0, []string{fmt.Sprintf("aggregator/%d/%d", a.data.Target.Epoch, base.aggregator)}, honest)
	{
		r := common.Root(refssz.Root(&fullAtt, c.Params()))
		add("identical aggregate already seen", ExpIgnore, now, 0, []string{fmt.Sprintf("agg/%x", r)}, honest)
	}
	{
		g := base
		g.att.AggregationBits = make([]bool, len(a.comm))
		add("no participants", ExpNotAccept, now, 0, nil, run(g))
	}
	{
		g := base
		g.att.Data.Target.Epoch++
		add("target epoch does not match the slot", ExpNotAccept, now, 0, nil, run(g))
	}
	{
		g := base
		for v := uint64(0); v < uint64(len(a.pre.Validators)); v++ {
			in := false
			for _, m := range a.comm {
				in = in || m == v
			}
			if !in {
				g.aggregator = v
				break
			}
		}
		add("aggregator is not a member of the committee", ExpNotAccept, now, 0, nil, run(g))
	}
	{
		g := base
		// a selection proof by another member that itself selects (so that only the signer is wrong)
		for _, m := range a.comm {
			if m != g.aggregator && selected(selProof(m, slot), modulo) {
				g.selSigner = int64(m)
				add("selection proof signed by another validator", ExpNotAccept, now, 0, nil, run(g))
				break
			}
		}
	}
	{
		g := base
		g.selSlot = slot - 1
		add("selection proof is for another slot", ExpNotAccept, now, 0, nil, run(g))
	}
	{
		g := base
		g.outerKey = int64(base.aggregator + 1)
		add("aggregator signature by another validator", ExpNotAccept, now, 0, nil, run(g))
	}
	{
		g := base
		g.outerDom = refspec.DomainBeaconAttester
		add("aggregator signature under the attester domain", ExpNotAccept, now, 0, nil, run(g))
	}
	{
		g := base
		g.att.Signature = w.signAtt(a.pre, &a.data, a.comm[:1])
		if len(a.comm) > 1 {
			add("aggregate signature covers only part of the participants", ExpNotAccept, now, 0, nil, run(g))
		}
	}
	{
		g := base
		g.att.AggregationBits = append(append([]bool{}, fullBits...), true)
		add("bitfield longer than the committee", ExpNotAccept, now, 0, nil, run(g))
	}
	{
		g := base
		g.att.Data.BeaconBlockRoot = refspec.Root(flipR(common.Root(a.data.BeaconBlockRoot)))
		g.att.Signature = w.signAtt(a.pre, &g.att.Data, a.comm)
		add("vote for an unknown block", ExpIgnore, now, 0, nil, run(g))
	}
	if es := c.EpochAtSlot(slot) * c.SlotsPerEpoch; es > 0 && s.Main[es] != nil && common.Root(a.data.Target.Root) == s.Main[es].Root {
		var older *ViewBlock
		for k := es - 1; older == nil; k-- {
			older = s.Main[k]
		}
		g := base
		d := a.data
		d.BeaconBlockRoot = refspec.Root(older.Root)
		g.att.Data = d
		g.att.Signature = w.signAtt(a.pre, &d, a.comm)
		add("target is not an ancestor of the voted block (vote older than target)", ExpNotAccept, now, 0, nil, run(g))
	}
	{
		g := base
		d := a.data
		d.Target.Root = refspec.Root(flipR(common.Root(d.Target.Root)))
		g.att.Data = d
		g.att.Signature = w.signAtt(a.pre, &d, a.comm)
		add("unknown target root", ExpIgnore, now, 0, nil, run(g))
	}
	{
		g := base
		d := a.data
		d.BeaconBlockRoot = refspec.Root(s.OldFork.Root)
		d.Target.Root = refspec.Root(s.Main[1].Root)
		if _, in := s.V.isAncestor(s.V.Fin.Root, s.OldFork.Root); !in {
			g.att.Data = d
			g.att.Signature = w.signAtt(a.pre, &d, a.comm)
			add("voted block conflicts with the finalized checkpoint", ExpIgnore, now, 0, nil, run(g))
		}
	}
	{
		g := base
		d := a.data
		d.BeaconBlockRoot = refspec.Root(s.NearFork.Root)
		if _, in := s.V.isAncestor(common.Root(d.Target.Root), s.NearFork.Root); !in {
			g.att.Data = d
			g.att.Signature = w.signAtt(a.pre, &d, a.comm)
			add("target is not an ancestor of the voted block", ExpNotAccept, now, 0, nil, run(g))
		}
	}
	{
		r := run(base)
		out = append(out, P2PCase{Topic: "beacon_aggregate_and_proof", Name: "vote for a block that failed validation", Expect: ExpNotAccept, NowSlot: now,
			Run: func(vw *View) gossipval.GossipValidatorResult { vw.Bad[common.Root(a.data.BeaconBlockRoot)] = true; return r(vw) }})
	}
	return out
}

// ---------------------------------------------------------------- exits and slashings (head state)

func (s *Std) OperationCases() []P2PCase {
	w, c := s.V.W, s.V.W.C
	var out []P2PCase
	now := s.Head.Slot + 1
	pre := s.Head.Node.Ref.Copy(c)
	w.Env.ProcessSlots(pre, now, nil)
	epoch := pre.CurrentEpoch(c)
	victim := uint64(len(pre.Validators) - 1)
	mkExit := func(v uint64, e uint64, signer uint64, dt [4]byte) *phase0.SignedVoluntaryExit {
		msg := refspec.VoluntaryExit{Epoch: e, ValidatorIndex: v}
		var dom refspec.Bytes32
		if pre.F >= refspec.Deneb {
			dom = refspec.ComputeDomain(dt, c.ForkVersions[refspec.Capella], pre.GenesisValidatorsRoot)
		} else {
			dom = pre.Domain(c, dt, e)
		}
		se := refspec.SignedVoluntaryExit{Message: msg, Signature: w.Sign(w.valKeys(pre, []uint64{signer}), refspec.SigningRoot(refssz.Root(&msg, nil), dom))}
		var out phase0.SignedVoluntaryExit
		decodeInto(w.Spec, refssz.Encode(&se, nil), &out)
		return &out
	}
	runExit := func(e *phase0.SignedVoluntaryExit) func(v *View) gossipval.GossipValidatorResult {
		return func(v *View) gossipval.GossipValidatorResult { return gossipval.ValidateVoluntaryExit(context.Background(), e, v) }
	}
	hx := runExit(mkExit(victim, epoch, victim, refspec.DomainVoluntaryExit))
	addX := func(name, exp string, pre []string, r func(v *View) gossipval.GossipValidatorResult) {
		out = append(out, P2PCase{Topic: "voluntary_exit", Name: name, Expect: exp, Run: r, NowSlot: now, Premark: pre, Honest: hx})
	}
	addX("honest", ExpAccept, nil, hx)
	addX("exit of this validator already seen", ExpIgnore, []string{fmt.Sprintf("exit/%d", victim)}, hx)
	addX("signed by another validator", ExpNotAccept, nil, runExit(mkExit(victim, epoch, victim-1, refspec.DomainVoluntaryExit)))
	addX("signed under the deposit domain", ExpNotAccept, nil, runExit(mkExit(victim, epoch, victim, refspec.DomainDeposit)))
	addX("exit epoch in the future", ExpNotAccept, nil, runExit(mkExit(victim, epoch+1, victim, refspec.DomainVoluntaryExit)))
	addX("validator index out of range", ExpNotAccept, nil, runExit(mkExit(uint64(len(pre.Validators)), epoch, victim, refspec.DomainVoluntaryExit)))

	// proposer slashing
	mkPS := func(v uint64, same bool, signer uint64) *phase0.ProposerSlashing {
		h1 := refspec.BeaconBlockHeader{Slot: now - 1, ProposerIndex: v, ParentRoot: sha256.Sum256([]byte("p1")), BodyRoot: sha256.Sum256([]byte("b1"))}
		h2 := h1
		if !same {
			h2.BodyRoot = sha256.Sum256([]byte("b2"))
		}
		dom := pre.Domain(c, refspec.DomainBeaconProposer, c.EpochAtSlot(h1.Slot))
		k := w.valKeys(pre, []uint64{signer})
		ps := refspec.ProposerSlashing{SignedHeader1: refspec.SignedBeaconBlockHeader{Message: h1, Signature: w.Sign(k, refspec.SigningRoot(refssz.Root(&h1, nil), dom))},
			SignedHeader2: refspec.SignedBeaconBlockHeader{Message: h2, Signature: w.Sign(k, refspec.SigningRoot(refssz.Root(&h2, nil), dom))}}
		var out phase0.ProposerSlashing
		decodeInto(w.Spec, refssz.Encode(&ps, nil), &out)
		return &out
	}
	runPS := func(p *phase0.ProposerSlashing) func(v *View) gossipval.GossipValidatorResult {
		return func(v *View) gossipval.GossipValidatorResult { return gossipval.ValidateProposerSlashing(context.Background(), p, v) }
	}
	hps := runPS(mkPS(victim, false, victim))
	addPS := func(name, exp string, pre []string, r func(v *View) gossipval.GossipValidatorResult) {
		out = append(out, P2PCase{Topic: "proposer_slashing", Name: name, Expect: exp, Run: r, NowSlot: now, Premark: pre, Honest: hps})
	}
	addPS("honest", ExpAccept, nil, hps)
	addPS("slashing of this proposer already seen", ExpIgnore, []string{fmt.Sprintf("ps/%d", victim)}, hps)
	addPS("identical headers", ExpNotAccept, nil, runPS(mkPS(victim, true, victim)))
	addPS("headers signed by another validator", ExpNotAccept, nil, runPS(mkPS(victim, false, victim-1)))

	// attester slashing
	mkAS := func(vals []uint64, slashable bool, signers []uint64) *phase0.AttesterSlashing {
		d1 := refspec.AttestationData{Slot: now - 1, BeaconBlockRoot: sha256.Sum256([]byte("x1")), Target: refspec.Checkpoint{Epoch: c.EpochAtSlot(now - 1), Root: sha256.Sum256([]byte("t1"))}}
		d2 := d1
		if slashable {
			d2.Target.Root = sha256.Sum256([]byte("t2"))
		}
		as := refspec.AttesterSlashing{Attestation1: refspec.IndexedAttestation{AttestingIndices: vals, Data: d1, Signature: w.signAtt(pre, &d1, signers)},
			Attestation2: refspec.IndexedAttestation{AttestingIndices: vals, Data: d2, Signature: w.signAtt(pre, &d2, signers)}}
		var out phase0.AttesterSlashing
		decodeInto(w.Spec, refssz.Encode(&as, c.Params()), &out)
		return &out
	}
	// two different index sets; each attestation signed by its own indices
	mkAS2 := func(v1, v2 []uint64) *phase0.AttesterSlashing {
		d1 := refspec.AttestationData{Slot: now - 1, BeaconBlockRoot: sha256.Sum256([]byte("x1")), Target: refspec.Checkpoint{Epoch: c.EpochAtSlot(now - 1), Root: sha256.Sum256([]byte("t1"))}}
		d2 := d1
		d2.Target.Root = sha256.Sum256([]byte("t2"))
		as := refspec.AttesterSlashing{Attestation1: refspec.IndexedAttestation{AttestingIndices: v1, Data: d1, Signature: w.signAtt(pre, &d1, v1)},
			Attestation2: refspec.IndexedAttestation{AttestingIndices: v2, Data: d2, Signature: w.signAtt(pre, &d2, v2)}}
		var out phase0.AttesterSlashing
		decodeInto(w.Spec, refssz.Encode(&as, c.Params()), &out)
		return &out
	}
	runAS := func(a *phase0.AttesterSlashing) func(v *View) gossipval.GossipValidatorResult {
		return func(v *View) gossipval.GossipValidatorResult {
			// the validator only reads the message: its bytes are the same afterwards
			var before, after bytes.Buffer
			a.Serialize(w.Spec, codec.NewEncodingWriter(&before))
			res := gossipval.ValidateAttesterSlashing(context.Background(), a, v)
			a.Serialize(w.Spec, codec.NewEncodingWriter(&after))
			if !bytes.Equal(before.Bytes(), after.Bytes()) {
				return gossipval.GossipValidatorResult{Result: gossipval.GossipValidatorCode(99), Err: fmt.Errorf("the validator modified the message it was given (verdict was %s)", res.Result)}
			}
			return res
		}
	}
	vs := []uint64{victim - 1, victim}
	has := runAS(mkAS(vs, true, vs))
	addAS := func(name, exp string, pre []string, r func(v *View) gossipval.GossipValidatorResult) {
		out = append(out, P2PCase{Topic: "attester_slashing", Name: name, Expect: exp, Run: r, NowSlot: now, Premark: pre, Honest: has})
	}
	addAS("honest", ExpAccept, nil, has)
	addAS("all slashable indices already seen", ExpIgnore, []string{fmt.Sprintf("as/%d", vs[0]), fmt.Sprintf("as/%d", vs[1])}, has)
	addAS("only one of the indices already seen", ExpAccept, []string{fmt.Sprintf("as/%d", vs[0])}, has)
	addAS("not slashable (same data)", ExpNotAccept, nil, runAS(mkAS(vs, false, vs)))
	addAS("signed by only one of the two", ExpNotAccept, nil, runAS(mkAS(vs, true, vs[:1])))
	addAS("unsorted indices", ExpNotAccept, nil, runAS(mkAS([]uint64{victim, victim - 1}, true, vs)))
	// different index sets: the slashable validators are the intersection
	a3, b3, c3 := victim-2, victim-1, victim
	addAS("attestation 1 has an extra voter before the common ones", ExpAccept, nil, runAS(mkAS2([]uint64{a3, b3, c3}, []uint64{b3, c3})))
	addAS("attestation 2 has an extra voter before the common ones", ExpAccept, nil, runAS(mkAS2([]uint64{b3, c3}, []uint64{a3, b3, c3})))
	addAS("one common voter, others differ", ExpAccept, nil, runAS(mkAS2([]uint64{a3, c3}, []uint64{b3, c3})))
	addAS("one common voter in the middle", ExpAccept, nil, runAS(mkAS2([]uint64{a3, b3}, []uint64{b3, c3})))
	addAS("disjoint voters (nobody is slashable)", ExpNotAccept, nil, runAS(mkAS2([]uint64{a3}, []uint64{b3, c3})))
	addAS("common voter already seen, the others are not common", ExpIgnore, []string{fmt.Sprintf("as/%d", b3)}, runAS(mkAS2([]uint64{a3, b3}, []uint64{b3, c3})))
	return out
}

// ---------------------------------------------------------------- sync committee topics

func (s *Std) SyncCases() []P2PCase {
	w, c := s.V.W, s.V.W.C
	var out []P2PCase
	now := s.Head.Slot + 1
	pre := s.Head.Node.Ref.Copy(c)
	w.Env.ProcessSlots(pre, now, nil)
	if pre.F < refspec.Altair {
		return nil
	}
	subSize := c.SyncCommitteeSize / 4
	idxOf := func(pk refspec.Pubkey) uint64 {
		for i := range pre.Validators {
			if pre.Validators[i].Pubkey == pk {
				return uint64(i)
			}
		}
		panic("sync member unknown")
	}
	member := idxOf(pre.CurrentSyncCommittee.Pubkeys[0]) // position 0 => subnet 0
	subnetsOf := func(v uint64) map[uint64]bool {
		m := map[uint64]bool{}
		for i, pk := range pre.CurrentSyncCommittee.Pubkeys {
			if idxOf(pk) == v {
				m[uint64(i)/subSize] = true
			}
		}
		return m
	}
	headRoot := refspec.Root(s.Head.Root)
	mkMsg := func(slot uint64, root refspec.Root, v uint64, signer uint64, dt [4]byte) *altair.SyncCommitteeMessage {
		dom := pre.Domain(c, dt, c.EpochAtSlot(slot))
		m := refspec.SyncCommitteeMessage{Slot: slot, BeaconBlockRoot: root, ValidatorIndex: v, Signature: w.Sign(w.valKeys(pre, []uint64{signer}), refspec.SigningRoot(root, dom))}
		var out altair.SyncCommitteeMessage
		decodeInto(w.Spec, refssz.Encode(&m, nil), &out)
		return &out
	}
	runMsg := func(m *altair.SyncCommitteeMessage, subnet uint64) func(v *View) gossipval.GossipValidatorResult {
		return func(v *View) gossipval.GossipValidatorResult {
			_, res := gossipval.ValidateSyncCommitteeSubnet(context.Background(), subnet, m, v)
			return res
		}
	}
	hm := runMsg(mkMsg(now, headRoot, member, member, refspec.DomainSyncCommittee), 0)
	ms := int64(c.SecondsPerSlot) * 1000
	addM := func(name, exp string, nowS uint64, off int64, pre []string, r func(v *View) gossipval.GossipValidatorResult) {
		out = append(out, P2PCase{Topic: "sync_committee", Name: name, Expect: exp, Run: r, NowSlot: nowS, OffsetMs: off, Premark: pre, Honest: hm})
	}
	addM("honest", ExpAccept, now, 0, nil, hm)
	addM("honest, mid-slot", ExpAccept, now, ms/2, nil, hm)
	addM("honest, clock 500ms before the slot", ExpAccept, now-1, ms-500, nil, hm)
	addM("honest, clock 499ms into the next slot (disparity)", ExpAccept, now+1, 499, nil, hm)
	addM("message for the previous slot, clock well inside the current slot", ExpIgnore, now+1, 2000, nil, hm)
	addM("message for a future slot", ExpIgnore, now-1, 0, nil, hm)
	clockGrid(c, sub(now, 2), now+2, func(n uint64, off int64) {
		addM(fmt.Sprintf("clock sweep: honest message at clock slot %d + %dms", n, off), expectOf(currentSlotOnly(c, now, n, off)), n, off, nil, hm)
	})
	addM("already seen for (validator, slot, subnet)", ExpIgnore, now, 0, []string{fmt.Sprintf("syncmsg/%d/%d/%d", member, now, 0)}, hm)
	// every validator x every subnet: accepted exactly on the subnets of the validator's seats (a validator can
	// hold several seats, in one or in several subcommittees)
	for v := uint64(0); v < uint64(len(pre.Validators)); v++ {
		seats := subnetsOf(v)
		for sn := uint64(0); sn < 4; sn++ {
			exp := ExpNotAccept
			if seats[sn] {
				exp = ExpAccept
			}
			addM(fmt.Sprintf("validator %d (seats in %d subcommittees) on subnet %d", v, len(seats), sn), exp, now, 0, nil, runMsg(mkMsg(now, headRoot, v, v, refspec.DomainSyncCommittee), sn))
		}
	}
	for v := uint64(0); v < uint64(len(pre.Validators)); v++ {
		if len(subnetsOf(v)) == 0 {
			addM("validator is not in the sync committee", ExpNotAccept, now, 0, nil, runMsg(mkMsg(now, headRoot, v, v, refspec.DomainSyncCommittee), 0))
			break
		}
	}
	addM("signed by another validator", ExpNotAccept, now, 0, nil, runMsg(mkMsg(now, headRoot, member, (member+1)%uint64(len(pre.Validators)), refspec.DomainSyncCommittee), 0))
	addM("signed under the attester domain", ExpNotAccept, now, 0, nil, runMsg(mkMsg(now, headRoot, member, member, refspec.DomainBeaconAttester), 0))
	addM("unknown block root", ExpIgnore, now, 0, nil, runMsg(mkMsg(now, refspec.Root(flipR(s.Head.Root)), member, member, refspec.DomainSyncCommittee), 0))

	// contribution and proof (subcommittee 0)
	var subIdx []uint64
	for i := uint64(0); i < subSize; i++ {
		subIdx = append(subIdx, idxOf(pre.CurrentSyncCommittee.Pubkeys[i]))
	}
	type contrib struct {
		slot              uint64
		sub               uint64
		bits              []bool
		aggregator        uint64
		selSigner, outKey uint64
		aggSigners        []uint64
		outDom            [4]byte
	}
	full := make([]bool, subSize)
	for i := range full {
		full[i] = true
	}
	syncSelProof := func(signer, slot, sub uint64) refspec.Signature {
		sel := refspec.SyncAggregatorSelectionData{Slot: slot, SubcommitteeIndex: sub}
		selDom := pre.Domain(c, refspec.DomainSyncCommitteeSelectionProof, c.EpochAtSlot(slot))
		return w.Sign(w.valKeys(pre, []uint64{signer}), refspec.SigningRoot(refssz.Root(&sel, nil), selDom))
	}
	syncModulo := c.SyncCommitteeSize / 4 / 16
	firstSel := uint64(0)
	for found, i := false, 0; !found; i++ {
		if i == len(subIdx) {
			panic("harness: no member of the sync subcommittee is selected as aggregator")
		}
		if selected(syncSelProof(subIdx[i], now, 0), syncModulo) {
			firstSel, found = subIdx[i], true
		}
	}
	baseC := contrib{slot: now, sub: 0, bits: full, aggregator: firstSel, selSigner: firstSel, outKey: firstSel, aggSigners: subIdx, outDom: refspec.DomainContributionAndProof}
	mkC := func(g contrib) *altair.SignedContributionAndProof {
		dom := pre.Domain(c, refspec.DomainSyncCommittee, c.EpochAtSlot(g.slot))
		con := refspec.SyncCommitteeContribution{Slot: g.slot, BeaconBlockRoot: headRoot, SubcommitteeIndex: g.sub, AggregationBits: g.bits, Signature: refspec.InfinitySignature}
		if len(g.aggSigners) > 0 {
			con.Signature = w.Sign(w.valKeys(pre, g.aggSigners), refspec.SigningRoot(headRoot, dom))
		}
		cp := refspec.ContributionAndProof{AggregatorIndex: g.aggregator, Contribution: con, SelectionProof: syncSelProof(g.selSigner, g.slot, g.sub)}
		oDom := pre.Domain(c, g.outDom, c.EpochAtSlot(g.slot))
		sc := refspec.SignedContributionAndProof{Message: cp, Signature: w.Sign(w.valKeys(pre, []uint64{g.outKey}), refspec.SigningRoot(refssz.Root(&cp, sszParams(w)), oDom))}
		var out altair.SignedContributionAndProof
		decodeInto(w.Spec, refssz.Encode(&sc, sszParams(w)), &out)
		return &out
	}
	runC := func(g contrib) func(v *View) gossipval.GossipValidatorResult {
		return func(v *View) gossipval.GossipValidatorResult {
			_, res := gossipval.ValidateSyncContribAndProof(context.Background(), mkC(g), v)
			return res
		}
	}
	hc := runC(baseC)
	addC := func(name, exp string, nowS uint64, off int64, pre []string, r func(v *View) gossipval.GossipValidatorResult) {
		out = append(out, P2PCase{Topic: "sync_committee_contribution_and_proof", Name: name, Expect: exp, Run: r, NowSlot: nowS, OffsetMs: off, Premark: pre, Honest: hc})
	}
	addC("honest", ExpAccept, now, 0, nil, hc)
	seenMember := map[uint64]bool{}
	for i, m := range subIdx {
		if seenMember[m] {
			continue
		}
		seenMember[m] = true
		g := baseC
		g.aggregator, g.selSigner, g.outKey = m, m, m
		exp := ExpAccept
		if !selected(syncSelProof(m, now, 0), syncModulo) {
			exp = ExpNotAccept
		}
		addC(fmt.Sprintf("member %d of the subcommittee as aggregator (modulo %d): selection decides", i, syncModulo), exp, now, 0, nil, runC(g))
	}
	addC("contribution for the previous slot, clock well inside the current slot", ExpIgnore, now+1, 2000, nil, hc)
	addC("contribution for a future slot", ExpIgnore, now-1, 0, nil, hc)
	clockGrid(c, sub(now, 2), now+2, func(n uint64, off int64) {
		addC(fmt.Sprintf("clock sweep: honest contribution at clock slot %d + %dms", n, off), expectOf(currentSlotOnly(c, now, n, off)), n, off, nil, hc)
	})
	addC("already seen for (aggregator, slot, subcommittee)", ExpIgnore, now, 0, []string{fmt.Sprintf("contrib/%d/%d/%d", firstSel, now, 0)}, hc)
	// partial participation: only the first / only the last seat / every other seat of the subcommittee
	for _, pat := range []string{"first", "last", "alternate"} {
		g := baseC
		g.bits = make([]bool, subSize)
		g.aggSigners = nil
		for i := uint64(0); i < subSize; i++ {
			if (pat == "first" && i == 0) || (pat == "last" && i == subSize-1) || (pat == "alternate" && i%2 == 1) {
				g.bits[i] = true
				g.aggSigners = append(g.aggSigners, subIdx[i])
			}
		}
		addC(fmt.Sprintf("honest, only the %s seat(s) of the subcommittee participate", pat), ExpAccept, now, 0, nil, runC(g))
	}
	{
		g := baseC
		g.sub = 4
		addC("subcommittee index out of range", ExpNotAccept, now, 0, nil, runC(g))
	}
	{
		g := baseC
		g.bits = make([]bool, subSize)
		g.aggSigners = nil
		addC("no participants", ExpNotAccept, now, 0, nil, runC(g))
	}
	{
		g := baseC
		for v := uint64(0); v < uint64(len(pre.Validators)); v++ {
			in := false
			for _, m := range subIdx {
				in = in || m == v
			}
			if !in {
				g.aggregator, g.selSigner, g.outKey = v, v, v
				addC("aggregator is not in the declared subcommittee", ExpNotAccept, now, 0, nil, runC(g))
				break
			}
		}
	}
	{
		g := baseC
		for _, m := range subIdx {
			if m != g.aggregator && selected(syncSelProof(m, now, 0), syncModulo) {
				g.selSigner = m
				addC("selection proof signed by another validator", ExpNotAccept, now, 0, nil, runC(g))
				break
			}
		}
	}
	{
		g := baseC
		g.outKey = (firstSel + 1) % uint64(len(pre.Validators))
		addC("aggregator signature by another validator", ExpNotAccept, now, 0, nil, runC(g))
	}
	{
		g := baseC
		g.outDom = refspec.DomainAggregateAndProof
		addC("aggregator signature under the aggregate-and-proof domain", ExpNotAccept, now, 0, nil, runC(g))
	}
	if subSize > 1 {
		g := baseC
		g.aggSigners = subIdx[:1]
		addC("aggregate signature covers only part of the participants", ExpNotAccept, now, 0, nil, runC(g))
	}
	return out
}

func sszParams(w *World) refssz.Params {
	p := refssz.Params{}
	for k, v := range w.C.Params() {
		p[k] = v
	}
	p["SYNC_SUBCOMMITTEE_SIZE"] = w.C.SyncCommitteeSize / 4
	return p
}

var _ = strings.Contains
