package chainh

import (
	"context"
	"fmt"
	"reflect"
	"sort"
	"strings"
	"sync/atomic"

	"github.com/protolambda/zrnt/eth2/beacon"
	"github.com/protolambda/zrnt/eth2/beacon/common"

	"verif/internal/core"
	"verif/internal/refspec"
)

type HookFinding struct{ Sig, Msg string }

// CommitteeHook (C07): every assignment the context reports vs the specification computed from
// the reference state: committees of previous/current/next epoch, committee counts, proposers of
// the current epoch, sync committee members; plus the partition invariant.
func CommitteeHook(n *Node, slot uint64) (out []HookFinding) {
	c := n.W.C
	s := n.Ref
	defer func() {
		if r := recover(); r != nil {
			out = append(out, HookFinding{"panic/committee-lookup", fmt.Sprintf("panic while querying the epochs context: %v", r)})
		}
	}()
	cur := s.CurrentEpoch(c)
	epochs := []uint64{cur, cur + 1}
	if cur > 0 {
		epochs = append([]uint64{cur - 1}, epochs...)
	}
	for _, e := range epochs {
		want := s.CommitteeCountPerSlot(c, e)
		got, err := n.EPC.GetCommitteeCountPerSlot(common.Epoch(e))
		if err != nil || got != want {
			return append(out, HookFinding{"committee-count", fmt.Sprintf("slot %d: GetCommitteeCountPerSlot(epoch %d) = (%d, %v), specification: %d", slot, e, got, err, want)})
		}
		seen := map[uint64]int{}
		minSz, maxSz := 1<<30, 0
		for sl := e * c.SlotsPerEpoch; sl < (e+1)*c.SlotsPerEpoch; sl++ {
			for idx := uint64(0); idx < want; idx++ {
				exp := s.BeaconCommittee(c, sl, idx)
				gotC, err := n.EPC.GetBeaconCommittee(common.Slot(sl), common.CommitteeIndex(idx))
				if err != nil {
					return append(out, HookFinding{"committee", fmt.Sprintf("state slot %d: GetBeaconCommittee(slot %d, index %d) fails: %v", slot, sl, idx, err)})
				}
				if len(gotC) != len(exp) {
					return append(out, HookFinding{"committee", fmt.Sprintf("state slot %d: GetBeaconCommittee(slot %d, index %d) = %v, specification: %v", slot, sl, idx, gotC, exp)})
				}
				for i := range exp {
					if uint64(gotC[i]) != exp[i] {
						return append(out, HookFinding{"committee", fmt.Sprintf("state slot %d: GetBeaconCommittee(slot %d, index %d) = %v, specification: %v", slot, sl, idx, gotC, exp)})
					}
					seen[uint64(gotC[i])]++
				}
				if len(gotC) < minSz {
					minSz = len(gotC)
				}
				if len(gotC) > maxSz {
					maxSz = len(gotC)
				}
			}
			// an index beyond the count must not yield a committee
			if cm, err := n.EPC.GetBeaconCommittee(common.Slot(sl), common.CommitteeIndex(want)); err == nil && len(cm) > 0 {
				return append(out, HookFinding{"committee/out-of-range-index", fmt.Sprintf("GetBeaconCommittee(slot %d, index %d) returns %v although only %d committees exist", sl, want, cm, want)})
			}
		}
		// partition: every active validator in exactly one committee of the epoch
		active := s.ActiveIndices(e)
		for _, v := range active {
			if seen[v] != 1 {
				return append(out, HookFinding{"partition", fmt.Sprintf("epoch %d: active validator %d sits in %d committees", e, v, seen[v])})
			}
		}
		if len(seen) != len(active) {
			return append(out, HookFinding{"partition", fmt.Sprintf("epoch %d: committees hold %d distinct validators, active set has %d", e, len(seen), len(active))})
		}
		if maxSz-minSz > 1 {
			return append(out, HookFinding{"partition/sizes", fmt.Sprintf("epoch %d: committee sizes range from %d to %d", e, minSz, maxSz)})
		}
	}
	for sl := cur * c.SlotsPerEpoch; sl < (cur+1)*c.SlotsPerEpoch; sl++ {
		want := s.ProposerIndexAtSlot(c, sl)
		got, err := n.EPC.GetBeaconProposer(common.Slot(sl))
		if err != nil || uint64(got) != want {
			return append(out, HookFinding{"proposer", fmt.Sprintf("state slot %d: GetBeaconProposer(slot %d) = (%d, %v), specification: %d", slot, sl, got, err, want)})
		}
	}
	if s.F >= refspec.Altair {
		idxOf := func(pk refspec.Pubkey) uint64 {
			for i := range s.Validators {
				if s.Validators[i].Pubkey == pk {
					return uint64(i)
				}
			}
			return ^uint64(0)
		}
		for name, pair := range map[string]struct {
			ref  refspec.SyncCommittee
			real *common.IndexedSyncCommittee
		}{"current": {s.CurrentSyncCommittee, n.EPC.CurrentSyncCommittee}, "next": {s.NextSyncCommittee, n.EPC.NextSyncCommittee}} {
			if pair.real == nil {
				return append(out, HookFinding{"sync-committee", fmt.Sprintf("slot %d: context has no %s sync committee", slot, name)})
			}
			if len(pair.real.Indices) != len(pair.ref.Pubkeys) {
				return append(out, HookFinding{"sync-committee", fmt.Sprintf("slot %d: %s sync committee has %d members, expected %d", slot, name, len(pair.real.Indices), len(pair.ref.Pubkeys))})
			}
			for i, pk := range pair.ref.Pubkeys {
				if uint64(pair.real.Indices[i]) != idxOf(pk) || refspec.Pubkey(pair.real.CachedPubkeys[i].Compressed) != pk {
					return append(out, HookFinding{"sync-committee", fmt.Sprintf("slot %d: %s sync committee member %d is validator %d in the context, specification: %d", slot, name, i, pair.real.Indices[i], idxOf(pk))})
				}
			}
		}
		// next sync committee as the specification computes it (the state field was compared already;
		// this ties the state field to get_next_sync_committee at period boundaries)
	}
	return nil
}

func shufSummary(sh *common.ShufflingEpoch) string {
	if sh == nil {
		return "nil"
	}
	return fmt.Sprintf("epoch=%d active=%v shuffling=%v committees=%v", sh.Epoch, sh.ActiveIndices, sh.Shuffling, sh.Committees)
}

// ContextHook (C08): the long-lived epochs context vs NewEpochsContext on the state re-read from its
// bytes; and a differential continuation: the next default block applied to (long-lived copy) and to
// (reloaded state, fresh context) must give the same result.
func ContextHook(n *Node, slot uint64) (out []HookFinding) {
	w := n.W
	defer func() {
		if r := recover(); r != nil {
			out = append(out, HookFinding{"panic/context", fmt.Sprintf("panic: %v", r)})
		}
	}()
	f := ForkOfReal(n.Real)
	rb := RealBytes(Unwrap(n.Real))
	reloaded, err := LoadReal(w.Spec, f, rb)
	if err != nil {
		return append(out, HookFinding{"reload", fmt.Sprintf("slot %d: the state's own bytes do not load: %v", slot, err)})
	}
	fresh, err := common.NewEpochsContext(w.Spec, reloaded)
	if err != nil {
		return append(out, HookFinding{"fresh-context", fmt.Sprintf("slot %d: NewEpochsContext on the reloaded state fails: %v", slot, err)})
	}
	e := n.EPC
	cmp := func(name string, a, b interface{}) bool {
		if !reflect.DeepEqual(a, b) {
			out = append(out, HookFinding{"context/" + name, fmt.Sprintf("slot %d: long-lived context differs from the from-scratch context in %s:\n   long-lived:   %v\n   from scratch: %v", slot, name, a, b)})
			return false
		}
		return true
	}
	if !cmp("PreviousEpoch", shufSummary(e.PreviousEpoch), shufSummary(fresh.PreviousEpoch)) ||
		!cmp("CurrentEpoch", shufSummary(e.CurrentEpoch), shufSummary(fresh.CurrentEpoch)) ||
		!cmp("NextEpoch", shufSummary(e.NextEpoch), shufSummary(fresh.NextEpoch)) {
		return
	}
	if !cmp("Proposers", fmt.Sprint(e.Proposers.Epoch, e.Proposers.Proposers), fmt.Sprint(fresh.Proposers.Epoch, fresh.Proposers.Proposers)) {
		return
	}
	if !cmp("TotalActiveStake", []common.Gwei{e.TotalActiveStake, e.TotalActiveStakeSqRoot}, []common.Gwei{fresh.TotalActiveStake, fresh.TotalActiveStakeSqRoot}) {
		return
	}
	// effective balances: "at the start of the epoch" — compared on the indices the epoch-start registry had
	k := len(e.EffectiveBalances)
	if k > len(fresh.EffectiveBalances) {
		out = append(out, HookFinding{"context/EffectiveBalances", fmt.Sprintf("slot %d: long-lived context has %d effective balances, registry has %d", slot, k, len(fresh.EffectiveBalances))})
		return
	}
	if !cmp("EffectiveBalances", e.EffectiveBalances[:k], fresh.EffectiveBalances[:k]) {
		return
	}
	sc := func(x *common.IndexedSyncCommittee) string {
		if x == nil {
			return "nil"
		}
		var pk []string
		for _, p := range x.CachedPubkeys {
			pk = append(pk, fmt.Sprintf("%x", p.Compressed[:4]))
		}
		return fmt.Sprint(x.Indices, pk)
	}
	if !cmp("CurrentSyncCommittee", sc(e.CurrentSyncCommittee), sc(fresh.CurrentSyncCommittee)) || !cmp("NextSyncCommittee", sc(e.NextSyncCommittee), sc(fresh.NextSyncCommittee)) {
		return
	}
	// pubkey <-> index look-ups for every validator of the state and every key of the world
	for i := range n.Ref.Validators {
		pk := common.BLSPubkey(n.Ref.Validators[i].Pubkey)
		p1, ok1 := e.ValidatorPubkeyCache.Pubkey(common.ValidatorIndex(i))
		if !ok1 || p1.Compressed != pk {
			out = append(out, HookFinding{"context/pubkey-cache", fmt.Sprintf("slot %d: long-lived pubkey cache: Pubkey(%d) = (%v), state says %x", slot, i, ok1, pk[:4])})
			return
		}
		i1, ok := e.ValidatorPubkeyCache.ValidatorIndex(pk)
		if !ok || int(i1) != i {
			out = append(out, HookFinding{"context/pubkey-cache", fmt.Sprintf("slot %d: long-lived pubkey cache: ValidatorIndex(%x) = (%d,%v), state says %d", slot, pk[:4], i1, ok, i)})
			return
		}
	}
	for k := range w.Keys {
		pk := common.BLSPubkey(w.Keys[k].PK)
		inState := false
		for i := range n.Ref.Validators {
			inState = inState || n.Ref.Validators[i].Pubkey == w.Keys[k].PK
		}
		if _, ok := fresh.ValidatorPubkeyCache.ValidatorIndex(pk); ok != inState {
			out = append(out, HookFinding{"context/pubkey-cache", fmt.Sprintf("slot %d: from-scratch pubkey cache knows key %d = %v, state has it = %v", slot, k, ok, inState)})
			return
		}
	}
	// differential continuation with the default next block
	next := slot + 1
	sb, _, _, perr := n.Produce(next, &Plan{Name: "default"})
	if perr != nil {
		return
	}
	long := n.Branch()
	errL, pmL := long.ApplyReal(context.Background(), sb, true)
	alt := &Node{W: w, Ref: n.Ref, Real: &beacon.StandardUpgradeableBeaconState{BeaconState: reloaded}, EPC: fresh}
	errA, pmA := alt.ApplyReal(context.Background(), sb, true)
	if pmL != "" || pmA != "" || (errL == nil) != (errA == nil) {
		out = append(out, HookFinding{"continuation/result", fmt.Sprintf("slot %d: continuing with the default block of slot %d: long-lived (err=%v %s) vs reloaded+fresh context (err=%v %s)", slot, next, errL, pmL, errA, pmA)})
		return
	}
	if errL == nil {
		bl, ba := RealBytes(Unwrap(long.Real)), RealBytes(Unwrap(alt.Real))
		if string(bl) != string(ba) {
			out = append(out, HookFinding{"continuation/state", fmt.Sprintf("slot %d: continuing with the default block of slot %d gives different post-states for the long-lived and the reloaded state", slot, next)})
		}
	}
	return
}

var _ = sort.Ints

// SiblingIndependence (C15, "a copied state with a cloned context can be advanced arbitrarily without any
// observable change to the original, and vice versa"): at every state of the scenario's base history take two
// copies x, y of (state, context) the way a client does (CopyState + Clone); advance x with each registry-changing
// deviation of the menu followed by empty slots across the next TWO epoch boundaries (so that every per-epoch part
// of its context is rebuilt); then the untouched original n and the untouched sibling y must still be exactly what
// they were: state bytes and cached root (Diff against the reference) and the whole context against a context
// built from scratch (ContextHook). Finally y is advanced along the base history and x is checked the same way.
func SiblingIndependence(run *core.Run, sc *Scenario, st *IndepStats) {
	w := NewWorld(sc.Preset, run.Seed, sc.NKeys)
	g, err := w.Genesis()
	if err != nil {
		run.Report("C15/harness", "genesis: "+err.Error(), nil)
		return
	}
	ctx := context.Background()
	spe := w.C.SlotsPerEpoch
	n := g
	check := func(who string, node *Node, slot uint64, hist string) {
		atomic.AddInt64(&st.Checks, 1)
		if d := node.Diff(); d != "" {
			run.Report("C15/sibling/state", fmt.Sprintf("scenario %s, %s: %s changed although only its copy was advanced: %s", sc.Name, hist, who, d), map[string]interface{}{"scenario": sc.Name, "history": hist})
		}
		for _, f := range ContextHook(node, node.Ref.Slot) {
			run.Report("C15/sibling/"+f.Sig, fmt.Sprintf("scenario %s, %s: context of %s changed although only its copy was advanced: %s", sc.Name, hist, who, f.Msg), map[string]interface{}{"scenario": sc.Name, "history": hist})
		}
	}
	for slot := uint64(1); slot < sc.Slots && !run.Expired(); slot++ {
		// deviations applied to the copy at `slot` (the default choice included)
		choices := append([]Choice{sc.Default(slot)}, sc.Menu(n, slot)...)
		for _, ch := range choices {
			if ch.Skip {
				continue
			}
			x, y := n.Branch(), n.Branch()
			end := (slot/spe + 2) * spe
			if strings.HasPrefix(sc.Name, "deposits/") {
				// registry-changing histories on both siblings: the sibling y runs ahead along the base history FIRST (its
				// deposits reach the shared pubkey cache), then the copy x takes the deviation and continues with the
				// base blocks of its own history. A step of x that fails although the same step succeeds on the
				// reloaded state with a from-scratch context was changed by the sibling's progress.
				for s2 := slot; s2 <= end && s2 <= sc.Slots; s2++ {
					if d := sc.Default(s2); d.Skip {
						y.StepSlots(ctx, s2)
					} else if r := y.StepBlock(ctx, s2, d.Plan); r.Mismatch != "" {
						break
					}
				}
				ok := true
				for s2 := slot; s2 <= end && s2 <= sc.Slots && ok; s2++ {
					c2 := sc.Default(s2)
					if s2 == slot {
						c2 = ch
					}
					pre := x.Branch()
					var r StepResult
					if c2.Skip {
						r = x.StepSlots(ctx, s2)
					} else {
						r = x.StepBlock(ctx, s2, c2.Plan)
					}
					if r.Skipped {
						ok = false
					} else if r.Mismatch != "" {
						ok = false
						if fresh, err := pre.Reloaded(); err == nil {
							var r2 StepResult
							if c2.Skip {
								r2 = fresh.StepSlots(ctx, s2)
							} else {
								r2 = fresh.StepBlock(ctx, s2, c2.Plan)
							}
							if r2.Mismatch == "" && !r2.Skipped {
								run.Report("C15/sibling/step-depends-on-the-sibling", fmt.Sprintf("scenario %s: sibling advanced along the base history to slot %d, then the copy (base up to slot %d, then %q and base blocks): its step at slot %d fails (%s) although the same step succeeds on the reloaded state with a from-scratch context", sc.Name, end, slot-1, ch.String(), s2, r.Mismatch), map[string]interface{}{"scenario": sc.Name})
							}
						}
					}
				}
				if !ok {
					continue
				}
				atomic.AddInt64(&st.Branches, 1)
				hist := fmt.Sprintf("base history up to slot %d; sibling advanced along the base history to slot %d; copy advanced with %q + base blocks", slot-1, end, ch.String())
				check("the original", n, slot-1, hist)
				check("the sibling that ran ahead", y, end, hist)
				check("the copy", x, end, hist)
				continue
			}
			if r := x.StepBlock(ctx, slot, ch.Plan); r.Mismatch != "" || r.Skipped {
				continue // C01's business
			}
			if r := x.StepSlots(ctx, end); r.Mismatch != "" {
				continue
			}
			atomic.AddInt64(&st.Branches, 1)
			hist := fmt.Sprintf("base history up to slot %d, copy advanced with %q + empty slots to %d", slot-1, ch.String(), end)
			check("the original", n, slot-1, hist)
			check("the untouched sibling copy", y, slot-1, hist)
			// vice versa: now the sibling runs ahead, x must not notice
			if r := y.StepSlots(ctx, end+spe); r.Mismatch == "" {
				check("the advanced copy (after its sibling ran ahead)", x, end, hist+fmt.Sprintf(", then the sibling advanced to %d", end+spe))
			}
		}
		// next state of the base history
		d := sc.Default(slot)
		if d.Skip {
			continue
		}
		nn := n.Branch()
		if r := nn.StepBlock(ctx, slot, d.Plan); r.Mismatch != "" {
			run.Report("C15/harness", "base history: "+r.Mismatch, nil)
			return
		}
		check("the parent of the base history", n, slot-1, fmt.Sprintf("base history advanced to slot %d", slot))
		n = nn
	}
}

type IndepStats struct{ Branches, Checks int64 }
