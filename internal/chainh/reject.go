package chainh

import (
	"context"
	"fmt"
	"reflect"
	"runtime"
	"strings"
	"sync"
	"sync/atomic"

	"verif/internal/core"
	"verif/internal/refspec"
)

func deepCopy(v reflect.Value) reflect.Value {
	switch v.Kind() {
	case reflect.Slice:
		if v.IsNil() {
			return v
		}
		n := reflect.MakeSlice(v.Type(), v.Len(), v.Len())
		for i := 0; i < v.Len(); i++ {
			n.Index(i).Set(deepCopy(v.Index(i)))
		}
		return n
	case reflect.Struct:
		n := reflect.New(v.Type()).Elem()
		for i := 0; i < v.NumField(); i++ {
			n.Field(i).Set(deepCopy(v.Field(i)))
		}
		return n
	default:
		return v
	}
}

func CopySignedBlock(sb *refspec.SignedBlock) *refspec.SignedBlock {
	c := deepCopy(reflect.ValueOf(*sb)).Interface().(refspec.SignedBlock)
	return &c
}

type RejectStats struct {
	Cases        int64 // (state, base block, mutator, form) tuples executed on both sides
	Rejected     int64 // the specification rejects (zrnt must too)
	StillValid   int64 // the corruption leaves the block valid (zrnt must accept, states equal)
	NotEncodable int64
	PerMutator   sync.Map
}

// basePlans: the valid blocks whose single-rule corruptions are explored at (node, slot).
func basePlans(n *Node, slot uint64) []*Plan {
	out := []*Plan{{Name: "default"}}
	for _, c := range FullMenu(n, slot) {
		if c.Skip {
			continue
		}
		nm := c.Plan.Name
		if nm == "slashing+exit+attester-slashing" || nm == "bls-changes(2)+exit+slashing" || nm == "blobs:1" || strings.HasPrefix(nm, "attester-slashing(3") {
			out = append(out, c.Plan)
		}
	}
	return out
}

// RejectCheck (C03): at every state of the scenario's default history, every single-rule
// corruption of every base block, in two forms: (a) original proposer signature kept, checked with
// validateResult=true; (b) proposer signature redone over the corrupted block, checked with
// validateResult=false, so that the rule under test is the only thing that can reject.
func RejectCheck(run *core.Run, sc *Scenario, st *RejectStats, slotStride uint64) {
	muts := Mutators()
	type task struct {
		slot uint64
	}
	var tasks []task
	for s := uint64(1); s <= sc.Slots; s += slotStride {
		tasks = append(tasks, task{s})
	}
	var next int64 = -1
	var wg sync.WaitGroup
	workers := runtime.NumCPU()
	if workers > len(tasks) {
		workers = len(tasks)
	}
	ctx := context.Background()
	for wk := 0; wk < workers; wk++ {
		wg.Add(1)
		go func() {
			defer wg.Done()
			w := NewWorld(sc.Preset, run.Seed, sc.NKeys)
			spine, err := buildSpine(w, sc)
			if err != nil {
				run.Report("C03/harness", err.Error(), nil)
				return
			}
			for {
				i := atomic.AddInt64(&next, 1)
				if i >= int64(len(tasks)) {
					return
				}
				slot := tasks[i].slot
				from := spine[slot-1]
				for _, pl := range basePlans(from, slot) {
					sb, _, _, perr := from.Produce(slot, pl)
					if perr != nil {
						continue
					}
					pre := from.Ref.Copy(w.C)
					if err := w.Env.ProcessSlots(pre, slot, nil); err != nil {
						continue
					}
					// the block is for the slot the pre-state is already AT (the caller advanced through the empty slots
					// first): state_transition's process_slots asserts state.slot < block.slot
					{
						adv := from.Branch()
						if e, pm := adv.SlotsReal(ctx, slot); e == nil && pm == "" {
							atomic.AddInt64(&st.Cases, 1)
							atomic.AddInt64(&st.Rejected, 1)
							err, pm := adv.ApplyReal(ctx, sb, true)
							if pm != "" || err == nil {
								run.Report("C03/accepted/block-for-the-slot-the-state-is-already-at", fmt.Sprintf("scenario %s, slot %d, base block %q: the pre-state was first advanced to slot %d with ProcessSlots, then StateTransition was given the (valid) block of that same slot: %v %s", sc.Name, slot, pl.Name, slot, err, pm),
									map[string]interface{}{"engine": "chainx+enumx", "scenario": sc.Name, "slot": slot, "base": pl.Name})
							}
						}
					}
					for mi := range muts {
						if run.Expired() {
							run.CapHit(sc.Name + ": time budget")
							return
						}
						mu := &muts[mi]
						rejectOne(ctx, run, sc, w, from, pre, sb, pl, mu, st)
					}
				}
			}
		}()
	}
	wg.Wait()
}

func rejectOne(ctx context.Context, run *core.Run, sc *Scenario, w *World, from *Node, pre *refspec.State, sb *refspec.SignedBlock, pl *Plan, mu *Mutator, st *RejectStats) {
	rep := func(form, sig, msg string) {
		run.Report("C03/"+sig+"/"+mu.Name, fmt.Sprintf("scenario %s, slot %d (%s), base block %q, corruption %q, form %s: %s", sc.Name, sb.Message.Slot, refspec.ForkNames[sb.Message.F], pl.Name, mu.Name, form, msg),
			map[string]interface{}{"engine": "chainx+enumx", "scenario": sc.Name, "slot": sb.Message.Slot, "base": pl.Name, "mutator": mu.Name, "form": form})
	}
	for _, form := range []string{"a:original-signature,validate", "b:re-signed,no-validate"} {
		mb := CopySignedBlock(sb)
		mc := &MutCtx{W: w, Pre: pre, SB: mb}
		applicable := false
		func() {
			defer func() {
				if r := recover(); r != nil {
					applicable = false
				}
			}()
			applicable = mu.Apply(mc)
		}()
		if !applicable {
			return
		}
		validate := form[0] == 'a'
		if !validate {
			mc.ResignProposer()
		}
		// encodable at all?
		enc := func() (ok bool) {
			defer func() {
				if r := recover(); r != nil {
					ok = false
				}
			}()
			mb.Encode(w.C)
			return true
		}()
		if !enc {
			atomic.AddInt64(&st.NotEncodable, 1)
			return
		}
		refState := from.Ref.Copy(w.C)
		rerr := w.Env.StateTransition(refState, mb, validate)
		n := from.Branch()
		zerr, pm := n.ApplyReal(ctx, mb, validate)
		atomic.AddInt64(&st.Cases, 1)
		c, _ := st.PerMutator.LoadOrStore(mu.Name, new(int64))
		atomic.AddInt64(c.(*int64), 1)
		if pm != "" {
			rep(form, "panic", "zrnt "+pm)
			continue
		}
		if rerr != nil {
			atomic.AddInt64(&st.Rejected, 1)
			if zerr == nil {
				rep(form, "accepted", fmt.Sprintf("the specification rejects this block (%v) but zrnt accepts it", rerr))
			}
			continue
		}
		atomic.AddInt64(&st.StillValid, 1)
		if zerr != nil {
			rep(form, "valid-variant-rejected", fmt.Sprintf("the corruption leaves the block valid per the specification, but zrnt rejects it: %v", zerr))
			continue
		}
		n.Ref = refState
		if d := n.Diff(); d != "" {
			rep(form, "valid-variant-state", "the corruption leaves the block valid; post-states differ: "+d)
		}
	}
}
