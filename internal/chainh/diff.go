package chainh

import (
	"fmt"
	"reflect"
)

// FirstDiff names the first field path at which two values of the same type differ.
func FirstDiff(got, want interface{}) string {
	p, g, w := firstDiff("", reflect.ValueOf(got), reflect.ValueOf(want))
	if p == "" && g == "" {
		return "(no structural difference found)"
	}
	return fmt.Sprintf("%s: real=%s specification=%s", p, g, w)
}

func short(v reflect.Value) string {
	s := fmt.Sprintf("%v", v.Interface())
	if v.Kind() == reflect.Array || (v.Kind() == reflect.Slice && v.Type().Elem().Kind() == reflect.Uint8) {
		s = fmt.Sprintf("%x", v.Interface())
	}
	if len(s) > 100 {
		s = s[:100] + "…"
	}
	return s
}

func firstDiff(path string, a, b reflect.Value) (string, string, string) {
	if a.Kind() == reflect.Ptr {
		if a.IsNil() || b.IsNil() {
			if a.IsNil() != b.IsNil() {
				return path, "nil?", "nil?"
			}
			return "", "", ""
		}
		return firstDiff(path, a.Elem(), b.Elem())
	}
	switch a.Kind() {
	case reflect.Struct:
		for i := 0; i < a.NumField(); i++ {
			if p, g, w := firstDiff(path+"."+a.Type().Field(i).Name, a.Field(i), b.Field(i)); p != "" {
				return p, g, w
			}
		}
		return "", "", ""
	case reflect.Slice:
		if a.Type().Elem().Kind() == reflect.Uint8 {
			if !reflect.DeepEqual(a.Interface(), b.Interface()) && !(a.Len() == 0 && b.Len() == 0) {
				return path, short(a), short(b)
			}
			return "", "", ""
		}
		if a.Len() != b.Len() {
			return path + ".len", fmt.Sprint(a.Len()), fmt.Sprint(b.Len())
		}
		for i := 0; i < a.Len(); i++ {
			if p, g, w := firstDiff(fmt.Sprintf("%s[%d]", path, i), a.Index(i), b.Index(i)); p != "" {
				return p, g, w
			}
		}
		return "", "", ""
	default:
		if !reflect.DeepEqual(a.Interface(), b.Interface()) {
			return path, short(a), short(b)
		}
		return "", "", ""
	}
}
