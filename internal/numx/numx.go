// Package numx: C19 — bounded-exhaustive enumeration of the numeric, time and Merkle helpers against
// exact (128-bit) reference arithmetic.
package numx

import (
	"crypto/sha256"
	"fmt"
	"math/bits"
	"runtime"
	"sync"
	"sync/atomic"
	"time"

	"github.com/protolambda/zrnt/eth2/beacon/common"
	"github.com/protolambda/zrnt/eth2/configs"
	"github.com/protolambda/zrnt/eth2/gossipval"
	zmath "github.com/protolambda/zrnt/eth2/util/math"
	"github.com/protolambda/zrnt/eth2/util/merkle"
	"github.com/protolambda/ztyp/tree"
	"github.com/protolambda/ztyp/view"

	"verif/internal/core"
)

const maxU = ^uint64(0)

// refIsqrt: floor(sqrt(n)) by binary search with 128-bit squares.
func refIsqrt(n uint64) uint64 {
	lo, hi := uint64(0), uint64(1)<<32 // answer < 2^32
	for lo+1 < hi {
		mid := lo + (hi-lo)/2
		h, l := bits.Mul64(mid, mid)
		if h == 0 && l <= n {
			lo = mid
		} else {
			hi = mid
		}
	}
	return lo
}

type counter struct {
	evals    int64
	nontriv  int64
	panicked int32
}

// parFor runs f over [from, to) in chunks on all CPUs. f must be safe for concurrent use.
func parFor(from, to uint64, chunk uint64, f func(a, b uint64)) {
	var wg sync.WaitGroup
	var next = from
	var mu sync.Mutex
	for w := 0; w < runtime.NumCPU(); w++ {
		wg.Add(1)
		go func() {
			defer wg.Done()
			for {
				mu.Lock()
				a := next
				if a >= to {
					mu.Unlock()
					return
				}
				b := a + chunk
				if b > to || b < a {
					b = to
				}
				next = b
				mu.Unlock()
				f(a, b)
			}
		}()
	}
	wg.Wait()
}

func checkIsqrt(run *core.Run, c *counter, n uint64) {
	var got uint64
	func() {
		defer func() {
			if r := recover(); r != nil {
				atomic.StoreInt32(&c.panicked, 1)
				run.Report("C19/panic/IntegerSquareroot", fmt.Sprintf("IntegerSquareroot(%d) panics: %v", n, r),
					map[string]interface{}{"engine": "enumx", "fn": "IntegerSquareroot", "args": []uint64{n}})
				got = maxU
			}
		}()
		got = zmath.IntegerSquareroot(n)
	}()
	if got == maxU {
		return
	}
	// exactness without a reference search: got^2 <= n < (got+1)^2 in 128 bits
	h, l := bits.Mul64(got, got)
	ok := h == 0 && l <= n
	if ok {
		h2, l2 := bits.Mul64(got+1, got+1)
		ok = h2 > 0 || l2 > n
	}
	if !ok {
		run.Report("C19/value/IntegerSquareroot", fmt.Sprintf("IntegerSquareroot(%d) = %d, floor sqrt is %d", n, got, refIsqrt(n)),
			map[string]interface{}{"engine": "enumx", "fn": "IntegerSquareroot", "args": []uint64{n}})
	}
}

func Isqrt(run *core.Run, thorough bool) (evals, nontriv int64) {
	var c counter
	denseTo := uint64(1) << 30
	if thorough {
		denseTo = 1 << 32
	}
	parFor(0, denseTo, 1<<20, func(a, b uint64) {
		for n := a; n < b; n++ {
			checkIsqrt(run, &c, n)
		}
		atomic.AddInt64(&c.evals, int64(b-a))
	})
	// both edges of every step of the floor function: k^2-1, k^2, k^2+2k
	edge := func(a, b uint64) {
		for k := a; k < b; k++ {
			sq := k * k
			if k > 0 {
				checkIsqrt(run, &c, sq-1)
			}
			checkIsqrt(run, &c, sq)
			checkIsqrt(run, &c, sq+2*k)
		}
		atomic.AddInt64(&c.evals, int64(3*(b-a)))
		atomic.AddInt64(&c.nontriv, int64(3*(b-a)))
	}
	if thorough {
		parFor(0, 1<<32, 1<<22, edge)
	} else {
		parFor(0, 1<<25, 1<<18, edge)
		parFor((1<<32)-(1<<25), 1<<32, 1<<18, edge)
	}
	// neighbourhoods of 2^64-1 and of every power of two
	for _, n := range []uint64{maxU} {
		for d := uint64(0); d < 1<<16; d++ {
			checkIsqrt(run, &c, n-d)
		}
		atomic.AddInt64(&c.evals, 1<<16)
	}
	for j := uint(1); j < 64; j++ {
		p := uint64(1) << j
		for d := uint64(0); d < 1<<10; d++ {
			checkIsqrt(run, &c, p-d)
			checkIsqrt(run, &c, p+d)
		}
		atomic.AddInt64(&c.evals, 2<<10)
	}
	return c.evals, c.nontriv + (1 << 16) + 63*(2<<10)
}

func guardU(f func() uint64) (v uint64, pm string) {
	defer func() {
		if r := recover(); r != nil {
			pm = fmt.Sprint(r)
		}
	}()
	return f(), ""
}

func PowerOfTwo(run *core.Run, thorough bool) (evals, nontriv int64) {
	check := func(n uint64) {
		evals++
		// IsPowerOfTwo
		exp := n != 0 && bits.OnesCount64(n) == 1
		if got := zmath.IsPowerOfTwo(n); got != exp {
			run.Report("C19/value/IsPowerOfTwo", fmt.Sprintf("IsPowerOfTwo(%d) = %v, expected %v", n, got, exp),
				map[string]interface{}{"engine": "enumx", "fn": "IsPowerOfTwo", "args": []uint64{n}})
		}
		// NextPowerOfTwo: smallest power of two >= n, when representable; n = 0 is pinned to 0 by the
		// repository's own test table and not claimed
		if n == 0 || n > 1<<63 {
			return
		}
		want := uint64(1) << uint(bits.Len64(n-1))
		got, pm := guardU(func() uint64 { return zmath.NextPowerOfTwo(n) })
		if pm != "" {
			run.Report("C19/panic/NextPowerOfTwo", fmt.Sprintf("NextPowerOfTwo(%d) panics: %s", n, pm), map[string]interface{}{"engine": "enumx", "fn": "NextPowerOfTwo", "args": []uint64{n}})
		} else if got != want {
			run.Report("C19/value/NextPowerOfTwo", fmt.Sprintf("NextPowerOfTwo(%d) = %d, expected %d", n, got, want),
				map[string]interface{}{"engine": "enumx", "fn": "NextPowerOfTwo", "args": []uint64{n}})
		}
	}
	lim := uint64(1) << 22
	if thorough {
		lim = 1 << 26
	}
	for n := uint64(0); n < lim; n++ {
		check(n)
	}
	for j := uint(0); j < 64; j++ {
		p := uint64(1) << j
		for d := uint64(0); d <= 3; d++ {
			check(p - d)
			check(p + d)
			nontriv += 2
		}
	}
	check(maxU)
	check(maxU - 1)
	return evals, nontriv + int64(lim)
}

// V: the structured value set used for every 64-bit argument of the conversion helpers.
var V = []uint64{0, 1, 2, 3, 4, 5, 7, 8, 11, 12, 13, 31, 32, 33, 63, 64, 65, 1000, 1606824000, 1<<31 - 1, 1 << 31, 1<<32 - 1, 1 << 32, 1<<32 + 1,
	1<<62 - 1, 1 << 62, 1<<63 - 1, 1 << 63, 1<<63 + 1, maxU / 12, maxU/12 + 1, maxU / 6, maxU - 12, maxU - 2, maxU - 1, maxU}

type u128 struct{ hi, lo uint64 }

func mul(a, b uint64) u128 { h, l := bits.Mul64(a, b); return u128{h, l} }
func (x u128) add(b uint64) u128 {
	l, c := bits.Add64(x.lo, b, 0)
	return u128{x.hi + c, l}
}
func (x u128) fits() bool { return x.hi == 0 }

func Conversions(run *core.Run) (evals, nontriv int64) {
	rep := func(fn, sig, msg string, args ...uint64) {
		run.Report("C19/"+sig+"/"+fn, msg, map[string]interface{}{"engine": "enumx", "fn": fn, "args": args})
	}
	base := *configs.Mainnet
	// --- TimeToSlot / TimeAtSlot ---
	for _, sps := range []uint64{1, 2, 6, 12, 1 << 32, 1 << 63, maxU} {
		spec := base
		spec.SECONDS_PER_SLOT = common.Timestamp(sps)
		for _, g := range V {
			for _, t := range V {
				evals++
				var want uint64
				if t >= g {
					want = (t - g) / sps
					nontriv++
				}
				got, pm := guardU(func() uint64 { return uint64(spec.TimeToSlot(common.Timestamp(t), common.Timestamp(g))) })
				if pm != "" {
					rep("TimeToSlot", "panic", fmt.Sprintf("TimeToSlot(t=%d, genesis=%d) with SECONDS_PER_SLOT=%d panics: %s", t, g, sps, pm), t, g, sps)
				} else if got != want {
					rep("TimeToSlot", "value", fmt.Sprintf("TimeToSlot(t=%d, genesis=%d) with SECONDS_PER_SLOT=%d = %d, expected %d", t, g, sps, got, want), t, g, sps)
				}
			}
			// slots around the largest representable one as well as V
			maxSlot := (maxU - g) / sps
			slots := append([]uint64{}, V...)
			for d := uint64(0); d <= 2; d++ {
				slots = append(slots, maxSlot-d, maxSlot+d)
			}
			for _, s := range slots {
				evals++
				exact := mul(s, sps).add(g)
				var got uint64
				var err error
				_, pm := guardU(func() uint64 {
					ts, e := spec.TimeAtSlot(common.Slot(s), common.Timestamp(g))
					got, err = uint64(ts), e
					return 0
				})
				if pm != "" {
					rep("TimeAtSlot", "panic", fmt.Sprintf("TimeAtSlot(slot=%d, genesis=%d) SECONDS_PER_SLOT=%d panics: %s", s, g, sps, pm), s, g, sps)
					continue
				}
				if exact.fits() {
					nontriv++
					if err != nil {
						rep("TimeAtSlot", "representable-refused", fmt.Sprintf("TimeAtSlot(slot=%d, genesis=%d) SECONDS_PER_SLOT=%d returns an error although the exact value %d fits in 64 bits", s, g, sps, exact.lo), s, g, sps)
					} else if got != exact.lo {
						rep("TimeAtSlot", "value", fmt.Sprintf("TimeAtSlot(slot=%d, genesis=%d) SECONDS_PER_SLOT=%d = %d, expected %d", s, g, sps, got, exact.lo), s, g, sps)
					}
				} else if err == nil {
					rep("TimeAtSlot", "wrapped", fmt.Sprintf("TimeAtSlot(slot=%d, genesis=%d) SECONDS_PER_SLOT=%d = %d without error although the exact value needs more than 64 bits", s, g, sps, got), s, g, sps)
				}
			}
		}
	}
	// --- SlotToEpoch / EpochStartSlot / ComputeActivationExitEpoch ---
	for _, spe := range []uint64{1, 2, 4, 8, 32, 1<<32 + 1, 1 << 63} {
		spec := base
		spec.SLOTS_PER_EPOCH = common.Slot(spe)
		maxE := maxU / spe
		es := append([]uint64{}, V...)
		for d := uint64(0); d <= 2; d++ {
			es = append(es, maxE-d, maxE+d)
		}
		for _, e := range es {
			evals++
			exact := mul(e, spe)
			var got uint64
			var err error
			_, pm := guardU(func() uint64 { s, e2 := spec.EpochStartSlot(common.Epoch(e)); got, err = uint64(s), e2; return 0 })
			if pm != "" {
				rep("EpochStartSlot", "panic", fmt.Sprintf("EpochStartSlot(%d) SPE=%d panics: %s", e, spe, pm), e, spe)
			} else if exact.fits() {
				nontriv++
				if err != nil || got != exact.lo {
					rep("EpochStartSlot", "value", fmt.Sprintf("EpochStartSlot(%d) SPE=%d = (%d, %v), expected %d", e, spe, got, err, exact.lo), e, spe)
				}
			} else if err == nil {
				rep("EpochStartSlot", "wrapped", fmt.Sprintf("EpochStartSlot(%d) SPE=%d = %d without error although the exact value overflows", e, spe, got), e, spe)
			}
		}
		for _, s := range V {
			evals++
			nontriv++
			if got := uint64(spec.SlotToEpoch(common.Slot(s))); got != s/spe {
				rep("SlotToEpoch", "value", fmt.Sprintf("SlotToEpoch(%d) SPE=%d = %d, expected %d", s, spe, got, s/spe), s, spe)
			}
		}
	}
	for _, look := range []uint64{1, 4, 1 << 32} {
		spec := base
		spec.MAX_SEED_LOOKAHEAD = common.Epoch(look)
		for _, e := range V {
			evals++
			exact := u128{0, e}.add(1).add(look)
			if !exact.fits() {
				continue // no error result exists; only representable values are claimed
			}
			nontriv++
			if got := uint64(spec.ComputeActivationExitEpoch(common.Epoch(e))); got != exact.lo {
				rep("ComputeActivationExitEpoch", "value", fmt.Sprintf("ComputeActivationExitEpoch(%d) lookahead=%d = %d, expected %d", e, look, got, exact.lo), e, look)
			}
		}
	}
	// --- GetChurnLimit / CommitteeCount ---
	for _, minChurn := range []uint64{1, 2, 4, 1 << 40} {
		for _, q := range []uint64{1, 8, 32, 65536, 1 << 40} {
			spec := base
			spec.MIN_PER_EPOCH_CHURN_LIMIT = viewU(minChurn)
			spec.CHURN_LIMIT_QUOTIENT = viewU(q)
			vals := append([]uint64{}, V...)
			for _, k := range []uint64{1, 2, 3, 4, 5} {
				vals = append(vals, k*q-1, k*q, k*q+1, minChurn*q-1, minChurn*q, minChurn*q+1, minChurn*q+q)
			}
			for _, n := range vals {
				evals++
				nontriv++
				want := n / q
				if want < minChurn {
					want = minChurn
				}
				if got := spec.GetChurnLimit(n); got != want {
					rep("GetChurnLimit", "value", fmt.Sprintf("GetChurnLimit(%d) min=%d quotient=%d = %d, expected %d", n, minChurn, q, got, want), n, minChurn, q)
				}
			}
		}
	}
	for _, spe := range []uint64{1, 2, 4, 8, 32} {
		for _, tcs := range []uint64{1, 2, 4, 128} {
			for _, mcs := range []uint64{1, 2, 4, 64} {
				spec := base
				spec.SLOTS_PER_EPOCH = common.Slot(spe)
				spec.TARGET_COMMITTEE_SIZE = viewU(tcs)
				spec.MAX_COMMITTEES_PER_SLOT = viewU(mcs)
				vals := append([]uint64{}, V...)
				for k := uint64(0); k <= 3*spe*tcs*2+2; k++ {
					vals = append(vals, k)
				}
				for _, k := range []uint64{mcs, mcs + 1} {
					vals = append(vals, k*spe*tcs-1, k*spe*tcs, k*spe*tcs+1)
				}
				for _, n := range vals {
					evals++
					nontriv++
					want := n / spe / tcs
					if want > mcs {
						want = mcs
					}
					if want < 1 {
						want = 1
					}
					if got := common.CommitteeCount(&spec, n); got != want {
						rep("CommitteeCount", "value", fmt.Sprintf("CommitteeCount(%d) SPE=%d target=%d max=%d = %d, expected %d", n, spe, tcs, mcs, got, want), n, spe, tcs, mcs)
					}
				}
			}
		}
	}
	// --- CheckSlotSpan ---
	small := []uint64{0, 1, 2, 3, 31, 32, 33, 1 << 32, 1<<63 - 1, 1 << 63, maxU - 33, maxU - 32, maxU - 2, maxU - 1, maxU}
	for _, slot := range small {
		for _, span := range []uint64{0, 1, 2, 32, 1 << 63, maxU - 1, maxU} {
			for _, minS := range small {
				for _, maxS := range small {
					evals++
					sum := u128{0, slot}.add(span)
					var err error
					_, pm := guardU(func() uint64 {
						err = gossipval.CheckSlotSpan(func(d time.Duration) common.Slot {
							if d < 0 {
								return common.Slot(minS)
							}
							return common.Slot(maxS)
						}, common.Slot(slot), common.Slot(span))
						return 0
					})
					if pm != "" {
						rep("CheckSlotSpan", "panic", fmt.Sprintf("CheckSlotSpan(slot=%d,span=%d) min=%d max=%d panics: %s", slot, span, minS, maxS, pm), slot, span, minS, maxS)
						continue
					}
					tooOld := sum.fits() && sum.lo < minS
					tooNew := slot > maxS
					exactOK := !tooOld && !tooNew
					if sum.fits() {
						nontriv++
						if (err == nil) != exactOK {
							rep("CheckSlotSpan", "value", fmt.Sprintf("CheckSlotSpan(slot=%d,span=%d) with min slot %d, max slot %d: err=%v, expected ok=%v", slot, span, minS, maxS, err, exactOK), slot, span, minS, maxS)
						}
					} else if err == nil && !exactOK {
						// overflowing slot+span: the error result (or the exact verdict) is fine, a verdict from a wrapped sum is not
						rep("CheckSlotSpan", "wrapped", fmt.Sprintf("CheckSlotSpan(slot=%d,span=%d) min=%d max=%d accepted on a wrapped sum", slot, span, minS, maxS), slot, span, minS, maxS)
					}
				}
			}
		}
	}
	return
}

func viewU(x uint64) view.Uint64View { return view.Uint64View(x) }

func h2(a, b [32]byte) [32]byte {
	var buf [64]byte
	copy(buf[:32], a[:])
	copy(buf[32:], b[:])
	return sha256.Sum256(buf[:])
}

// Merkle: for every depth <= maxDepth, every index: the true branch is accepted; every single
// corruption (any branch node, leaf, root, index +-1, any index bit below depth, depth +-1) is rejected.
func Merkle(run *core.Run, maxDepth int) (evals, nontriv int64) {
	rep := func(sig, msg string, args ...uint64) {
		run.Report("C19/"+sig+"/VerifyMerkleBranch", msg, map[string]interface{}{"engine": "enumx", "fn": "VerifyMerkleBranch", "args": args})
	}
	call := func(leaf [32]byte, branch [][32]byte, depth, index uint64, root [32]byte) (bool, string) {
		br := make([]tree.Root, len(branch))
		for i := range branch {
			br[i] = branch[i]
		}
		var ok bool
		_, pm := guardU(func() uint64 {
			ok = merkle.VerifyMerkleBranch(leaf, br, depth, index, root)
			return 0
		})
		return ok, pm
	}
	for depth := 0; depth <= maxDepth; depth++ {
		n := 1 << uint(depth)
		// distinct leaves; level[0] = leaves
		levels := [][][32]byte{make([][32]byte, n)}
		for i := 0; i < n; i++ {
			levels[0][i] = sha256.Sum256([]byte(fmt.Sprintf("leaf-%d-%d", depth, i)))
		}
		for d := 0; d < depth; d++ {
			prev := levels[d]
			next := make([][32]byte, len(prev)/2)
			for i := range next {
				next[i] = h2(prev[2*i], prev[2*i+1])
			}
			levels = append(levels, next)
		}
		root := levels[depth][0]
		for idx := 0; idx < n; idx++ {
			branch := make([][32]byte, depth)
			for d := 0; d < depth; d++ {
				branch[d] = levels[d][(idx>>uint(d))^1]
			}
			leaf := levels[0][idx]
			evals++
			nontriv++
			if ok, pm := call(leaf, branch, uint64(depth), uint64(idx), root); pm != "" || !ok {
				rep("true-branch-rejected", fmt.Sprintf("depth %d index %d: the true branch is not accepted (%s)", depth, idx, pm), uint64(depth), uint64(idx))
			}
			flip := func(x [32]byte, bit int) [32]byte { x[bit/8] ^= 1 << uint(bit%8); return x }
			corrupt := func(what string, leaf2 [32]byte, br2 [][32]byte, d2, i2 uint64, root2 [32]byte) {
				evals++
				nontriv++
				if ok, pm := call(leaf2, br2, d2, i2, root2); pm != "" {
					rep("panic", fmt.Sprintf("depth %d index %d, %s: panic %s", depth, idx, what, pm), uint64(depth), uint64(idx))
				} else if ok {
					rep("corrupt-branch-accepted", fmt.Sprintf("depth %d index %d: accepted although %s", depth, idx, what), uint64(depth), uint64(idx))
				}
			}
			for d := 0; d < depth; d++ {
				for _, bit := range []int{0, 7, 255} {
					b2 := append([][32]byte{}, branch...)
					b2[d] = flip(b2[d], bit)
					corrupt(fmt.Sprintf("branch node %d has bit %d flipped", d, bit), leaf, b2, uint64(depth), uint64(idx), root)
				}
				// wrong side: index bit d flipped
				corrupt(fmt.Sprintf("index bit %d is flipped", d), leaf, branch, uint64(depth), uint64(idx^(1<<uint(d))), root)
				// two adjacent branch nodes swapped
				if d+1 < depth && branch[d] != branch[d+1] {
					b2 := append([][32]byte{}, branch...)
					b2[d], b2[d+1] = b2[d+1], b2[d]
					corrupt(fmt.Sprintf("branch nodes %d and %d are swapped", d, d+1), leaf, b2, uint64(depth), uint64(idx), root)
				}
			}
			corrupt("the leaf has a bit flipped", flip(leaf, 3), branch, uint64(depth), uint64(idx), root)
			corrupt("the root has a bit flipped", leaf, branch, uint64(depth), uint64(idx), flip(root, 200))
			if depth > 0 {
				corrupt("depth is one less", leaf, branch, uint64(depth-1), uint64(idx), root)
				corrupt("depth is one less (index shifted)", leaf, branch[:depth-1], uint64(depth-1), uint64(idx>>1), root)
			}
			b3 := append(append([][32]byte{}, branch...), sha256.Sum256([]byte("extra")))
			corrupt("depth is one more", leaf, b3, uint64(depth+1), uint64(idx), root)
		}
	}
	// path shape at every depth 0..70 (the specification walks `index // 2**i % 2` for i < depth: index bits at or
	// above the depth are ignored, and for i >= 64 the bit is 0), indices: low patterns, all ones, high bits only
	for depth := 0; depth <= 70; depth++ {
		for _, idx := range []uint64{0, 1, 5, 1<<63 | 1, ^uint64(0), 0xaaaaaaaaaaaaaaaa, 1 << 40} {
			leaf := sha256.Sum256([]byte("path-leaf"))
			branch := make([][32]byte, depth)
			val := leaf
			for d := 0; d < depth; d++ {
				branch[d] = sha256.Sum256([]byte(fmt.Sprintf("path-sib-%d-%d", depth, d)))
				bit := uint64(0)
				if d < 64 {
					bit = (idx >> uint(d)) & 1
				}
				if bit == 1 {
					val = h2(branch[d], val)
				} else {
					val = h2(val, branch[d])
				}
			}
			evals++
			nontriv++
			if ok, pm := call(leaf, branch, uint64(depth), idx, val); pm != "" || !ok {
				rep("true-branch-rejected", fmt.Sprintf("depth %d index %#x (path shape): the true branch is not accepted (%s)", depth, idx, pm), uint64(depth), idx)
			}
			for d := 0; d < depth && d < 64; d += 7 {
				evals++
				nontriv++
				if ok, _ := call(leaf, branch, uint64(depth), idx^(1<<uint(d)), val); ok {
					rep("corrupt-branch-accepted", fmt.Sprintf("depth %d index %#x: accepted with index bit %d flipped", depth, idx, d), uint64(depth), idx)
				}
			}
		}
	}
	// the deposit shape: depth 33 (32 + length mix-in), indices on a grid
	depth := 33
	for _, idx := range []uint64{0, 1, 2, 3, 1 << 16, 1<<32 - 1, 1 << 32, 1<<32 + 5} {
		leaf := sha256.Sum256([]byte("deposit-leaf"))
		branch := make([][32]byte, depth)
		val := leaf
		for d := 0; d < depth; d++ {
			branch[d] = sha256.Sum256([]byte(fmt.Sprintf("sib-%d", d)))
			if (idx>>uint(d))&1 == 1 {
				val = h2(branch[d], val)
			} else {
				val = h2(val, branch[d])
			}
		}
		evals++
		nontriv++
		if ok, pm := call(leaf, branch, uint64(depth), idx, val); pm != "" || !ok {
			rep("true-branch-rejected", fmt.Sprintf("depth 33 index %d: the true branch is not accepted (%s)", idx, pm), 33, idx)
		}
		for d := 0; d < depth; d++ {
			evals++
			nontriv++
			if ok, _ := call(leaf, branch, uint64(depth), idx^(1<<uint(d)), val); ok {
				rep("corrupt-branch-accepted", fmt.Sprintf("depth 33 index %d: accepted with index bit %d flipped", idx, d), 33, idx)
			}
		}
	}
	return
}
