// Package chainx: deviation-bounded exhaustive explorer over beacon-chain histories.
//
// A history assigns one choice to every slot 1..N. The base scenario fixes the default choice; the
// explorer enumerates EVERY history that deviates from the default in at most k slots (k = 0, 1, 2
// iteratively), each deviation taken from the scenario's menu evaluated in the state where it is
// offered. Every step runs on the real zrnt transition and on the reference model and is compared
// (plus per-property hooks). Work is split over goroutines by first deviation; every worker owns its
// real states (own genesis, own default spine): zrnt trees are never shared between goroutines.
package chainx

import (
	"context"
	"fmt"
	"os"
	"runtime"
	"strings"
	"sync"
	"sync/atomic"

	"verif/internal/chainh"
	"verif/internal/core"
)

// Hook: property-specific checks evaluated in a node after a step. Returns findings.
type Finding struct{ Sig, Msg string }
type Hook func(n *chainh.Node, slot uint64, lastWasBlock bool) []Finding

type Options struct {
	Property string
	K        int  // deviation bound
	PerSlot  bool // compare after every slot (C02 style) instead of only after blocks
	Hooks    []Hook
	// Differential: retry failing steps on a reloaded state with a from-scratch context (C08)
	Differential bool
	// OnlyHooks: mismatches of the plain state comparison belong to C01/C02 and are not reported under
	// this property (the history is still cut there: the two sides have diverged)
	OnlyHooks bool
	// SlotsOnly: histories consist of skip / advance only (no block) after the deviation … unused
}

type Stats struct {
	Histories   int64 // complete histories explored (= traces validated against the implementation)
	Transitions int64 // block + slot-advance steps executed on both sides
	Blocks      int64
	States      int64 // distinct (slot, state root) pairs seen
	Skipped     int64 // menu entries not applicable in their state
	Outcomes    int64
	Diverged    int64 // histories cut because the plain state comparison failed (reported under C01/C02 only)
	KDone       int
}

type explorer struct {
	run  *core.Run
	sc   *chainh.Scenario
	opt  Options
	w    *chainh.World
	st   *Stats
	seen sync.Map
	outc sync.Map
}

type dev struct {
	slot uint64
	idx  int // index in the menu at that slot (menu evaluated on the node reached so far)
}

func (e *explorer) reportState(path []string, sig, msg string) {
	if e.opt.OnlyHooks {
		atomic.AddInt64(&e.st.Diverged, 1)
		return
	}
	e.report(path, sig, msg)
}

func (e *explorer) report(path []string, sig, msg string) {
	e.run.Report(e.opt.Property+"/"+sig, fmt.Sprintf("scenario %s, history %v: %s", e.sc.Name, path, msg),
		map[string]interface{}{"engine": "chainx", "scenario": e.sc.Name, "preset": e.sc.Preset.Name, "fork_epochs": e.sc.Preset.ForkEpochs, "history": path})
}

// step applies one choice at `slot` to node n (in place). Returns false if the history must stop.
func (e *explorer) step(ctx context.Context, n *chainh.Node, slot uint64, ch chainh.Choice, path []string) (ok bool, skipped bool) {
	if e.opt.Differential {
		// C08: when the step fails on the long-lived (state, context) pair, the same step is retried on the
		// reloaded state with a from-scratch context; success there means the long-lived context was the cause.
		pre := n.Branch()
		defer func() {
			if ok || skipped {
				return
			}
			fresh, err := pre.Reloaded()
			if err != nil {
				return
			}
			var r chainh.StepResult
			if ch.Skip {
				r = fresh.StepSlots(ctx, slot)
			} else {
				r = fresh.StepBlockMode(ctx, slot, ch.Plan, e.opt.PerSlot)
			}
			if r.Mismatch == "" && !r.Skipped {
				e.report(path, "differential/step-fails-only-with-the-long-lived-context", fmt.Sprintf("slot %d, choice %q: the step fails on the long-lived state+context but succeeds (and equals the specification) on the reloaded state with a from-scratch context", slot, ch.String()))
			}
		}()
	}
	if ch.Skip {
		atomic.AddInt64(&e.st.Transitions, 1)
		r := n.StepSlots(ctx, slot)
		if r.Mismatch != "" {
			e.reportState(path, r.Sig, r.Mismatch)
			return false, false
		}
	} else {
		atomic.AddInt64(&e.st.Transitions, 1)
		r := n.StepBlockMode(ctx, slot, ch.Plan, e.opt.PerSlot)
		if r.Skipped {
			atomic.AddInt64(&e.st.Skipped, 1)
			return false, true
		}
		atomic.AddInt64(&e.st.Blocks, 1)
		if r.Mismatch != "" {
			e.reportState(path, r.Sig, r.Mismatch)
			return false, false
		}
	}
	key := fmt.Sprintf("%d/%x", slot, n.Ref.HashTreeRoot(e.w.C))
	if _, loaded := e.seen.LoadOrStore(key, struct{}{}); !loaded {
		atomic.AddInt64(&e.st.States, 1)
	}
	if _, loaded := e.outc.LoadOrStore(ch.String(), struct{}{}); !loaded {
		atomic.AddInt64(&e.st.Outcomes, 1)
	}
	for _, h := range e.opt.Hooks {
		for _, f := range h(n, slot, !ch.Skip) {
			e.report(path, f.Sig, f.Msg)
			return false, false
		}
	}
	return true, false
}

// runHistory executes a history given by its deviations from genesis; used by workers.
// spine[s] = node after slot s on the default history (spine[0] = genesis), owned by the worker.
func (e *explorer) runFrom(ctx context.Context, spine []*chainh.Node, devs []dev) {
	first := devs[0]
	n := spine[first.slot-1].Branch()
	var path []string
	for s := uint64(1); s < first.slot; s++ {
		path = append(path, e.sc.Default(s).String())
	}
	di := 0
	for slot := first.slot; slot <= e.sc.Slots; slot++ {
		var ch chainh.Choice
		if di < len(devs) && devs[di].slot == slot {
			menu := e.sc.Menu(n, slot)
			if devs[di].idx >= len(menu) {
				return // this menu is shorter in this state: the history does not exist
			}
			ch = menu[devs[di].idx]
			di++
		} else {
			ch = e.sc.Default(slot)
		}
		path = append(path, ch.String())
		ok, _ := e.step(ctx, n, slot, ch, path)
		if !ok {
			return
		}
	}
	atomic.AddInt64(&e.st.Histories, 1)
	if d := os.Getenv("VERIF_DEBUG_HIST"); d != "" && strings.Contains(strings.Join(path, " | "), d) {
		fmt.Fprintf(os.Stderr, "history completed: %v (validators at end: %d)\n", path, len(n.Ref.Validators))
	}
	if e.st.Histories%50 == 1 {
		e.run.Sample(8, map[string]interface{}{"scenario": e.sc.Name, "history": path})
	}
}

func (e *explorer) buildSpine(ctx context.Context, count bool) ([]*chainh.Node, bool) {
	g, err := e.w.Genesis()
	if err != nil {
		e.report(nil, "genesis", err.Error())
		return nil, false
	}
	if d := g.Diff(); d != "" {
		e.report(nil, "genesis-state", d)
		return nil, false
	}
	spine := []*chainh.Node{g}
	var path []string
	for s := uint64(1); s <= e.sc.Slots; s++ {
		n := spine[s-1].Branch()
		ch := e.sc.Default(s)
		path = append(path, ch.String())
		if count {
			ok, skipped := e.step(ctx, n, s, ch, path)
			if skipped {
				e.report(path, "harness/default-not-applicable", "default choice of the base scenario is not applicable")
				return nil, false
			}
			if !ok {
				return nil, false
			}
		} else {
			// rebuilding a spine that was already checked once: no counting, no hooks
			if ch.Skip {
				n.StepSlots(ctx, s)
			} else {
				n.StepBlock(ctx, s, ch.Plan)
			}
		}
		spine = append(spine, n)
	}
	return spine, true
}

// Explore runs k = 0, 1, .., opt.K on one scenario.
func Explore(run *core.Run, sc *chainh.Scenario, opt Options, st *Stats) {
	ctx := context.Background()
	e := &explorer{run: run, sc: sc, opt: opt, st: st}
	e.w = chainh.NewWorld(sc.Preset, run.Seed, sc.NKeys)
	// k = 0
	spine0, ok := e.buildSpine(ctx, true)
	if !ok {
		return
	}
	atomic.AddInt64(&st.Histories, 1)
	if opt.K < 1 {
		return
	}
	// menu sizes along the spine (for task generation)
	type task struct{ devs []dev }
	var tasks []task
	for s := uint64(1); s <= sc.Slots; s++ {
		m := sc.Menu(spine0[s-1], s)
		for i := range m {
			tasks = append(tasks, task{[]dev{{s, i}}})
		}
	}
	runTasks := func(tasks []task, label string) bool {
		var next int64 = -1
		var wg sync.WaitGroup
		expired := int32(0)
		workers := runtime.NumCPU()
		if workers > len(tasks) {
			workers = len(tasks)
		}
		for wk := 0; wk < workers; wk++ {
			wg.Add(1)
			go func() {
				defer wg.Done()
				spine, ok := e.buildSpine(ctx, false)
				if !ok {
					return
				}
				for {
					i := atomic.AddInt64(&next, 1)
					if i >= int64(len(tasks)) {
						return
					}
					if run.Expired() {
						atomic.StoreInt32(&expired, 1)
						return
					}
					e.runFrom(ctx, spine, tasks[i].devs)
				}
			}()
		}
		wg.Wait()
		if expired != 0 {
			run.CapHit(fmt.Sprintf("%s: time budget hit during %s", sc.Name, label))
			return false
		}
		return true
	}
	if !runTasks(tasks, "k=1") {
		return
	}
	st.KDone = 1
	if opt.K < 2 {
		return
	}
	// k = 2: every ordered pair (s1 < s2); the second menu index ranges over the LARGEST menu size
	// seen (indices beyond the actual menu of the reached state are dropped inside runFrom)
	maxMenu := 0
	for s := uint64(1); s <= sc.Slots; s++ {
		if l := len(sc.Menu(spine0[s-1], s)); l > maxMenu {
			maxMenu = l
		}
	}
	var t2 []task
	for _, t := range tasks {
		for s2 := t.devs[0].slot + 1; s2 <= sc.Slots; s2++ {
			for j := 0; j < maxMenu+2; j++ {
				t2 = append(t2, task{[]dev{t.devs[0], {s2, j}}})
			}
		}
	}
	if runTasks(t2, "k=2") {
		st.KDone = 2
	}
}
