package forkx

import (
	"bytes"
	"fmt"
	"reflect"
	"strings"

	"github.com/protolambda/zrnt/eth2/beacon"
	"github.com/protolambda/zrnt/eth2/beacon/common"
	"github.com/protolambda/ztyp/codec"

	"verif/internal/core"
	"verif/internal/refssz"
	"verif/internal/sszx"
)

// Envelopes: for the SignedBeaconBlock type of EVERY fork in the registry (phase0..electra — electra has no transition
// in this library, so no chain reaches it) and two presets: generated blocks with all leaves distinct -> zrnt ->
// Envelope: the envelope names the block's own hash-tree-root, slot, proposer, parent/state root and signature, and
// EnvelopeToSignedBeaconBlock gives back the same bytes.
func Envelopes(run *core.Run, presets []sszx.Preset) (evals, nontriv int64) {
	for _, ps := range presets {
		P := sszx.ParamsOf(ps.Spec)
		for _, row := range sszx.Registry() {
			if !strings.HasSuffix(row.Name, ".SignedBeaconBlock") {
				continue
			}
			gen := refssz.NewGen(row.Ref, row.Tag, P, 3)
			for seed := uint64(1); seed <= 3; seed++ {
				evals++
				nontriv++
				val := gen.Distinct(seed, 2)
				enc := gen.Encode(val)
				rep := func(msg string) {
					run.Report("C14/envelope/"+row.Name, fmt.Sprintf("%s, preset %s, generated block %d: %s", row.Name, ps.Name, seed, msg), map[string]interface{}{"engine": "enumx", "type": row.Name, "preset": ps.Name})
				}
				z := row.New()
				so, ok := z.(common.SpecObj)
				if !ok {
					rep("not a SpecObj")
					continue
				}
				if err := so.Deserialize(ps.Spec, codec.NewDecodingReader(bytes.NewReader(enc), uint64(len(enc)))); err != nil {
					rep("zrnt cannot decode the block: " + err.Error())
					continue
				}
				ev, ok := z.(interface {
					Envelope(spec *common.Spec, digest common.ForkDigest) *common.BeaconBlockEnvelope
				})
				if !ok {
					rep("no Envelope method")
					continue
				}
				var env *common.BeaconBlockEnvelope
				if pm := guardE(func() { env = ev.Envelope(ps.Spec, common.ForkDigest{1, 2, 3, 4}) }); pm != "" {
					rep("Envelope panics: " + pm)
					continue
				}
				msg := val
				for msg.Kind() == reflect.Ptr {
					msg = msg.Elem()
				}
				m := msg.FieldByName("Message")
				wantRoot := refssz.Root(m.Addr().Interface(), P)
				if env.BlockRoot != common.Root(wantRoot) {
					rep(fmt.Sprintf("envelope block root %s differs from hash_tree_root(message) %x", env.BlockRoot, wantRoot))
				}
				if uint64(env.Slot) != m.FieldByName("Slot").Uint() || uint64(env.ProposerIndex) != m.FieldByName("ProposerIndex").Uint() {
					rep("envelope slot / proposer index differ from the message")
				}
				if fmt.Sprintf("%x", env.ParentRoot[:]) != fmt.Sprintf("%x", arr(m.FieldByName("ParentRoot"))) || fmt.Sprintf("%x", env.StateRoot[:]) != fmt.Sprintf("%x", arr(m.FieldByName("StateRoot"))) {
					rep("envelope parent root / state root differ from the message")
				}
				if fmt.Sprintf("%x", env.Signature[:]) != fmt.Sprintf("%x", arr(msg.FieldByName("Signature"))) {
					rep("envelope signature differs from the block's")
				}
				back, err := beacon.EnvelopeToSignedBeaconBlock(env)
				if err != nil {
					rep("EnvelopeToSignedBeaconBlock: " + err.Error())
					continue
				}
				var buf bytes.Buffer
				if err := back.Serialize(ps.Spec, codec.NewEncodingWriter(&buf)); err != nil || !bytes.Equal(buf.Bytes(), enc) {
					rep(fmt.Sprintf("SignedBeaconBlock -> Envelope -> SignedBeaconBlock does not reproduce the bytes (err %v)", err))
				}
			}
		}
	}
	return
}

func arr(v reflect.Value) []byte {
	b := make([]byte, v.Len())
	for i := range b {
		b[i] = byte(v.Index(i).Uint())
	}
	return b
}

func guardE(f func()) (pm string) {
	defer func() {
		if r := recover(); r != nil {
			pm = fmt.Sprint(r)
		}
	}()
	f()
	return
}
