// Package forkx: C14 — fork look-ups agree for every schedule/epoch; built-in constants equal the
// pinned published values.
package forkx

import (
	"bytes"
	"context"
	_ "embed"
	"encoding/json"
	"fmt"
	"reflect"
	"strings"

	"github.com/protolambda/zrnt/eth2/beacon"
	"github.com/protolambda/zrnt/eth2/beacon/altair"
	"github.com/protolambda/zrnt/eth2/beacon/common"
	"github.com/protolambda/zrnt/eth2/configs"
	"github.com/protolambda/ztyp/codec"

	"verif/internal/chainh"
	"verif/internal/core"
	"verif/internal/refspec"
)

//go:embed refconsts.json
var refconstsJSON []byte

const never = ^uint64(0)

var forkNames = []string{"phase0", "altair", "bellatrix", "capella", "deneb", "electra", "fulu"}

// refForkAt: index of the fork whose rules apply at epoch e (the latest fork with epoch <= e).
func refForkAt(epochs [7]uint64, e uint64) int {
	f := 0
	for i := 1; i < 7; i++ {
		if epochs[i] != never && e >= epochs[i] {
			f = i
		}
	}
	return f
}

func schedules(values []uint64, n int) [][]uint64 {
	var out [][]uint64
	var rec func(prefix []uint64, min int)
	rec = func(prefix []uint64, min int) {
		if len(prefix) == n {
			out = append(out, append([]uint64{}, prefix...))
			return
		}
		for i := min; i < len(values); i++ {
			rec(append(prefix, values[i]), i)
		}
	}
	rec(nil, 0)
	return out
}

func specWith(epochs [7]uint64) *common.Spec {
	s := *configs.Minimal
	s.SLOTS_PER_EPOCH = 4
	s.GENESIS_FORK_VERSION = common.Version{0, 0, 0, 0x77}
	s.ALTAIR_FORK_VERSION, s.BELLATRIX_FORK_VERSION, s.CAPELLA_FORK_VERSION = common.Version{1, 0, 0, 0x77}, common.Version{2, 0, 0, 0x77}, common.Version{3, 0, 0, 0x77}
	s.DENEB_FORK_VERSION, s.ELECTRA_FORK_VERSION, s.FULU_FORK_VERSION = common.Version{4, 0, 0, 0x77}, common.Version{5, 0, 0, 0x77}, common.Version{6, 0, 0, 0x77}
	s.ALTAIR_FORK_EPOCH, s.BELLATRIX_FORK_EPOCH, s.CAPELLA_FORK_EPOCH = common.Epoch(epochs[1]), common.Epoch(epochs[2]), common.Epoch(epochs[3])
	s.DENEB_FORK_EPOCH, s.ELECTRA_FORK_EPOCH, s.FULU_FORK_EPOCH = common.Epoch(epochs[4]), common.Epoch(epochs[5]), common.Epoch(epochs[6])
	return &s
}

func versions(s *common.Spec) [7]common.Version {
	return [7]common.Version{s.GENESIS_FORK_VERSION, s.ALTAIR_FORK_VERSION, s.BELLATRIX_FORK_VERSION, s.CAPELLA_FORK_VERSION, s.DENEB_FORK_VERSION, s.ELECTRA_FORK_VERSION, s.FULU_FORK_VERSION}
}

// Lookups: (a) every schedule x every epoch 0..7 x first/last slot x 2 genesis validators roots.
func Lookups(run *core.Run) (evals, nontriv int64) {
	rep := func(sig, msg string, sched []uint64) {
		run.Report("C14/"+sig, fmt.Sprintf("fork epochs (altair..fulu) %v: %s", fmtSched(sched), msg), map[string]interface{}{"engine": "enumx", "fork_epochs": fmtSched(sched)})
	}
	gvrs := []common.Root{{}, {0xaa, 1, 2, 3}}
	for _, sched := range schedules([]uint64{1, 2, 3, 4, 5, never}, 6) {
		var ep [7]uint64
		copy(ep[1:], sched)
		spec := specWith(ep)
		vs := versions(spec)
		for _, gvr := range gvrs {
			dec := beacon.NewForkDecoder(spec, gvr)
			for e := uint64(0); e <= 7; e++ {
				f := refForkAt(ep, e)
				evals++
				if f > 0 {
					nontriv++
				}
				for _, slot := range []uint64{e * 4, e*4 + 3} {
					if got := spec.ForkVersion(common.Slot(slot)); got != vs[f] {
						rep("ForkVersion", fmt.Sprintf("Spec.ForkVersion(slot %d, epoch %d) = %s, the schedule puts this epoch in %s (%s)", slot, e, got, forkNames[f], vs[f]), sched)
					}
				}
				// independent digest: first 4 bytes of hash_tree_root(ForkData(version, gvr))
				wantRoot := refspec.ComputeForkDataRoot(refspec.Version(vs[f]), refspec.Root(gvr))
				var want common.ForkDigest
				copy(want[:], wantRoot[:4])
				got := dec.ForkDigest(common.Epoch(e))
				if got != want {
					rep("ForkDigest", fmt.Sprintf("ForkDecoder.ForkDigest(epoch %d) = %s, expected the %s digest %s", e, got, forkNames[f], want), sched)
					continue
				}
				if f <= 5 {
					alloc, err := dec.BlockAllocator(got)
					if err != nil {
						rep("BlockAllocator", fmt.Sprintf("BlockAllocator(digest of epoch %d, %s) fails: %v", e, forkNames[f], err), sched)
						continue
					}
					tn := reflect.TypeOf(alloc()).Elem().PkgPath()
					if !strings.HasSuffix(tn, "/"+forkNames[f]) {
						rep("BlockAllocator", fmt.Sprintf("BlockAllocator(digest of epoch %d) allocates a block of package %s, expected %s", e, tn, forkNames[f]), sched)
					}
				}
			}
		}
	}
	return
}

func fmtSched(s []uint64) []string {
	out := make([]string, len(s))
	for i, v := range s {
		if v == never {
			out[i] = "never"
		} else {
			out[i] = fmt.Sprint(v)
		}
	}
	return out
}

// Chains: (b) for every phase0..deneb schedule over {1,2,3,4,never}: a real chain advanced slot by
// slot — dynamic state type, state.Fork(), full state vs the reference after every slot; at the first
// two slots of every fork a block: envelope round trip, signature under the slot's version verifies,
// under each other version it does not.
func Chains(run *core.Run) (evals, nontriv int64) {
	ctx := context.Background()
	for _, sched := range schedules([]uint64{1, 2, 3, 4, never}, 4) {
		fe := [5]uint64{0, sched[0], sched[1], sched[2], sched[3]}
		for i := range fe {
			if fe[i] == never {
				fe[i] = chainh.Far
			}
		}
		p := chainh.T4(fe)
		w := chainh.NewWorld(p, run.Seed, 20)
		rep := func(sig, msg string) {
			run.Report("C14/"+sig, fmt.Sprintf("fork epochs (altair..deneb) %v: %s", fmtSched(sched), msg), map[string]interface{}{"engine": "chainx", "fork_epochs": fmtSched(sched)})
		}
		n, err := w.Genesis()
		if err != nil {
			rep("genesis", err.Error())
			continue
		}
		evals++
		var ep7 [7]uint64
		for i := 1; i <= 4; i++ {
			ep7[i] = sched[i-1]
		}
		ep7[5], ep7[6] = never, never
		blocksIn := map[int]int{}
		for slot := uint64(1); slot <= 22; slot++ {
			f := refForkAt(ep7, slot/4)
			if blocksIn[f] < 2 && slot%4 != 0 {
				blocksIn[f]++
				// a block at this slot: envelope round trip + signature/version checks, then apply
				sb, _, _, perr := n.Produce(slot, &chainh.Plan{Name: "default"})
				if perr != nil {
					rep("harness", perr.Error())
					break
				}
				evals++
				nontriv++
				if msg := envelopeChecks(w, n, sb, ep7); msg != "" {
					rep("envelope", fmt.Sprintf("block at slot %d (%s): %s", slot, forkNames[f], msg))
				}
				if r := n.StepBlock(ctx, slot, &chainh.Plan{Name: "default"}); r.Mismatch != "" {
					rep("chain/"+r.Sig, r.Mismatch)
					break
				}
			} else if r := n.StepSlots(ctx, slot); r.Mismatch != "" {
				rep("chain/"+r.Sig, r.Mismatch)
				break
			}
			// state type and fork record name the same fork as the schedule
			if got := int(chainh.ForkOfReal(n.Real)); got != f {
				rep("state-type", fmt.Sprintf("after slot %d the chain's state has type %s, the schedule says %s", slot, forkNames[got], forkNames[f]))
				break
			}
			fk, err := n.Real.Fork()
			if err != nil {
				rep("state-fork", err.Error())
				break
			}
			vs := versions(w.Spec)
			prevF := 0
			// previous version: the fork before the last upgrade that actually happened
			lastUp := uint64(0)
			for i := 1; i <= f; i++ {
				if ep7[i] != never && ep7[i] <= slot/4 {
					lastUp = ep7[i]
				}
			}
			if f > 0 {
				// upgrades at the same epoch happen one after the other: previous = the one just before f
				prevF = f - 1
				for prevF > 0 && ep7[prevF] == never {
					prevF--
				}
			}
			if fk.CurrentVersion != vs[f] || uint64(fk.Epoch) != lastUp || (f > 0 && fk.PreviousVersion != vs[prevF]) || (f == 0 && fk.PreviousVersion != vs[0]) {
				rep("state-fork", fmt.Sprintf("after slot %d state.Fork() = (%s, %s, %d), expected (%s, %s, %d)", slot, fk.PreviousVersion, fk.CurrentVersion, fk.Epoch, vs[prevF], vs[f], lastUp))
				break
			}
			evals++
		}
	}
	return
}

// envelopeChecks: round trip + version-sensitive signature verification for one valid signed block.
func envelopeChecks(w *chainh.World, n *chainh.Node, sb *refspec.SignedBlock, ep7 [7]uint64) string {
	c := w.C
	raw := sb.Encode(c)
	gvr := n.Ref.GenesisValidatorsRoot
	f := sb.Message.F
	env, err := w.RealEnvelope(f, raw, gvr)
	if err != nil {
		return "decode: " + err.Error()
	}
	if refspec.Root(env.BlockRoot) != sb.Message.HashTreeRoot(c) {
		return fmt.Sprintf("envelope block root %s differs from the block's hash-tree-root %x", env.BlockRoot, sb.Message.HashTreeRoot(c))
	}
	if refspec.Signature(env.Signature) != sb.Signature {
		return "envelope signature differs from the block's signature"
	}
	back, err := beacon.EnvelopeToSignedBeaconBlock(env)
	if err != nil {
		return "EnvelopeToSignedBeaconBlock: " + err.Error()
	}
	var buf bytes.Buffer
	if err := back.Serialize(w.Spec, codec.NewEncodingWriter(&buf)); err != nil {
		return "serialize: " + err.Error()
	}
	if !bytes.Equal(buf.Bytes(), raw) {
		return "SignedBeaconBlock -> Envelope -> SignedBeaconBlock does not reproduce the original bytes"
	}
	// signature checks through the envelope
	pub, ok := n.EPC.ValidatorPubkeyCache.Pubkey(common.ValidatorIndex(sb.Message.ProposerIndex))
	if !ok {
		return "proposer pubkey unknown"
	}
	if !env.VerifySignature(w.Spec, common.Root(gvr), common.ValidatorIndex(sb.Message.ProposerIndex), pub) {
		return "the block is signed under the version its slot implies, but VerifySignature (version from Spec.ForkVersion(slot)) refuses it"
	}
	// signed under every other version: must not verify
	key := w.KeyIndex(n.Ref.Validators[sb.Message.ProposerIndex].Pubkey)
	vs := versions(w.Spec)
	for other := 0; other < 7; other++ {
		if vs[other] == common.Version(c.ForkVersions[f]) {
			continue
		}
		dom := refspec.ComputeDomain(refspec.DomainBeaconProposer, refspec.Version(vs[other]), gvr)
		sig := w.Sign([]int{key}, refspec.SigningRoot(sb.Message.HashTreeRoot(c), dom))
		for _, digestOf := range []int{int(f), other} {
			e2 := *env
			e2.Signature = common.BLSSignature(sig)
			e2.ForkDigest = common.ComputeForkDigest(vs[digestOf], common.Root(gvr))
			if e2.VerifySignature(w.Spec, common.Root(gvr), common.ValidatorIndex(sb.Message.ProposerIndex), pub) {
				return fmt.Sprintf("a block of a %s slot signed under the %s version (envelope digest of %s) passes VerifySignature", refspec.ForkNames[f], forkNames[other], forkNames[digestOf])
			}
		}
	}
	return ""
}

// Constants: (c) built-in configurations vs the pinned table; spec-level Go constants.
func Constants(run *core.Run) (evals, nontriv int64) {
	var pinned map[string]map[string]string
	if err := json.Unmarshal(refconstsJSON, &pinned); err != nil {
		panic(err)
	}
	for name, s := range map[string]*common.Spec{"mainnet": configs.Mainnet, "minimal": configs.Minimal} {
		b, _ := json.Marshal(s)
		var m map[string]interface{}
		json.Unmarshal(b, &m)
		for k, want := range pinned[name] {
			evals++
			nontriv++
			got, ok := m[k]
			if !ok || fmt.Sprint(got) != want {
				run.Report("C14/constants/"+name+"/"+k, fmt.Sprintf("configs.%s: %s = %v, the published value is %s", name, k, got, want), map[string]interface{}{"engine": "enumx", "config": name, "constant": k})
			}
		}
		for k := range m {
			if _, ok := pinned[name][k]; !ok {
				run.Report("C14/constants/"+name+"/unpinned", fmt.Sprintf("configs.%s carries %s which is not in the pinned table", name, k), map[string]interface{}{"engine": "enumx", "config": name, "constant": k})
			}
		}
	}
	type kv struct {
		name string
		got  interface{}
		want interface{}
	}
	for _, x := range []kv{
		{"DOMAIN_BEACON_PROPOSER", common.DOMAIN_BEACON_PROPOSER, common.BLSDomainType{0, 0, 0, 0}}, {"DOMAIN_BEACON_ATTESTER", common.DOMAIN_BEACON_ATTESTER, common.BLSDomainType{1, 0, 0, 0}},
		{"DOMAIN_RANDAO", common.DOMAIN_RANDAO, common.BLSDomainType{2, 0, 0, 0}}, {"DOMAIN_DEPOSIT", common.DOMAIN_DEPOSIT, common.BLSDomainType{3, 0, 0, 0}},
		{"DOMAIN_VOLUNTARY_EXIT", common.DOMAIN_VOLUNTARY_EXIT, common.BLSDomainType{4, 0, 0, 0}}, {"DOMAIN_SELECTION_PROOF", common.DOMAIN_SELECTION_PROOF, common.BLSDomainType{5, 0, 0, 0}},
		{"DOMAIN_AGGREGATE_AND_PROOF", common.DOMAIN_AGGREGATE_AND_PROOF, common.BLSDomainType{6, 0, 0, 0}}, {"DOMAIN_SYNC_COMMITTEE", common.DOMAIN_SYNC_COMMITTEE, common.BLSDomainType{7, 0, 0, 0}},
		{"DOMAIN_SYNC_COMMITTEE_SELECTION_PROOF", common.DOMAIN_SYNC_COMMITTEE_SELECTION_PROOF, common.BLSDomainType{8, 0, 0, 0}}, {"DOMAIN_CONTRIBUTION_AND_PROOF", common.DOMAIN_CONTRIBUTION_AND_PROOF, common.BLSDomainType{9, 0, 0, 0}},
		{"DOMAIN_BLS_TO_EXECUTION_CHANGE", common.DOMAIN_BLS_TO_EXECUTION_CHANGE, common.BLSDomainType{10, 0, 0, 0}},
		{"BASE_REWARDS_PER_EPOCH", uint64(common.BASE_REWARDS_PER_EPOCH), uint64(4)}, {"DEPOSIT_CONTRACT_TREE_DEPTH", uint64(common.DEPOSIT_CONTRACT_TREE_DEPTH), uint64(32)},
		{"JUSTIFICATION_BITS_LENGTH", uint64(common.JUSTIFICATION_BITS_LENGTH), uint64(4)}, {"FAR_FUTURE_EPOCH", uint64(common.FAR_FUTURE_EPOCH), never},
		{"TARGET_AGGREGATORS_PER_COMMITTEE", uint64(common.TARGET_AGGREGATORS_PER_COMMITTEE), uint64(16)}, {"SYNC_COMMITTEE_SUBNET_COUNT", uint64(common.SYNC_COMMITTEE_SUBNET_COUNT), uint64(4)},
		{"TARGET_AGGREGATORS_PER_SYNC_SUBCOMMITTEE", uint64(common.TARGET_AGGREGATORS_PER_SYNC_SUBCOMMITTEE), uint64(16)},
		{"BLS_WITHDRAWAL_PREFIX", uint64(common.BLS_WITHDRAWAL_PREFIX), uint64(0)}, {"ETH1_ADDRESS_WITHDRAWAL_PREFIX", uint64(common.ETH1_ADDRESS_WITHDRAWAL_PREFIX), uint64(1)},
		{"VERSIONED_HASH_VERSION_KZG", uint64(common.VERSIONED_HASH_VERSION_KZG), uint64(1)},
		{"TIMELY_SOURCE_FLAG_INDEX", uint64(altair.TIMELY_SOURCE_FLAG_INDEX), uint64(0)}, {"TIMELY_TARGET_FLAG_INDEX", uint64(altair.TIMELY_TARGET_FLAG_INDEX), uint64(1)}, {"TIMELY_HEAD_FLAG_INDEX", uint64(altair.TIMELY_HEAD_FLAG_INDEX), uint64(2)},
		{"TIMELY_SOURCE_WEIGHT", uint64(altair.TIMELY_SOURCE_WEIGHT), uint64(14)}, {"TIMELY_TARGET_WEIGHT", uint64(altair.TIMELY_TARGET_WEIGHT), uint64(26)}, {"TIMELY_HEAD_WEIGHT", uint64(altair.TIMELY_HEAD_WEIGHT), uint64(14)},
		{"SYNC_REWARD_WEIGHT", uint64(altair.SYNC_REWARD_WEIGHT), uint64(2)}, {"PROPOSER_WEIGHT", uint64(altair.PROPOSER_WEIGHT), uint64(8)}, {"WEIGHT_DENOMINATOR", uint64(altair.WEIGHT_DENOMINATOR), uint64(64)},
	} {
		evals++
		nontriv++
		if !reflect.DeepEqual(x.got, x.want) {
			run.Report("C14/constants/go/"+x.name, fmt.Sprintf("%s = %v, the specification says %v", x.name, x.got, x.want), map[string]interface{}{"engine": "enumx", "constant": x.name})
		}
	}
	return
}
