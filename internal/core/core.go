// Package core: plumbing shared by all checks — tier/seed, evidence files, violations,
// replay files, known findings.
package core

import (
	"encoding/json"
	"fmt"
	"os"
	"path/filepath"
	"sort"
	"strconv"
	"strings"
	"sync"
	"time"
)

// Root of the verification tree (evidence, replays, known findings): $VERIF_ROOT or /verif.
var Root = func() string {
	if r := os.Getenv("VERIF_ROOT"); r != "" {
		return r
	}
	return "/verif"
}()

type Run struct {
	Property string
	Level    string // evidence level
	Tier     string
	Seed     int64
	Start    time.Time

	mu          sync.Mutex
	Coverage    map[string]interface{}
	Assumptions []string
	samples     []interface{}
	violations  []Violation
	knownSeen   map[string]int
	known       []KnownEntry
	replayN     int
	Deadline    time.Time
	capsHit     []string
}

type Violation struct {
	Signature string      `json:"signature"`
	Message   string      `json:"message"`
	Replay    interface{} `json:"replay"`
	Path      string      `json:"-"`
}

type KnownEntry struct {
	Status    string `json:"status"` // known | fixed
	Property  string `json:"property"`
	Signature string `json:"signature"`
	What      string `json:"what"`
	Witness   string `json:"witness,omitempty"`
	Commit    string `json:"commit,omitempty"`
}

type knownFile struct {
	Version int          `json:"version"`
	Entries []KnownEntry `json:"entries"`
}

func Tier() string {
	t := os.Getenv("VERIF_TIER")
	if t != "thorough" {
		t = "quick"
	}
	return t
}

func Seed() int64 {
	s, err := strconv.ParseInt(os.Getenv("VERIF_SEED"), 10, 64)
	if err != nil {
		return 0
	}
	return s
}

// Budget returns the internal time budget of the run (quick, thorough), overridable by
// VERIF_BUDGET_S. When the deadline is hit a check stops exploring, records the cap, and exits 0
// with exhaustive=false.
func Budget(quick, thorough time.Duration) time.Duration {
	if s := os.Getenv("VERIF_BUDGET_S"); s != "" {
		if v, err := strconv.Atoi(s); err == nil {
			return time.Duration(v) * time.Second
		}
	}
	if Tier() == "thorough" {
		return thorough
	}
	return quick
}

func NewRun(property, level string) *Run {
	r := &Run{Property: property, Level: level, Tier: Tier(), Seed: Seed(), Start: time.Now(),
		Coverage: map[string]interface{}{}, knownSeen: map[string]int{}}
	// known findings
	b, err := os.ReadFile(filepath.Join(Root, "known_findings.json"))
	if err == nil {
		var kf knownFile
		if err := json.Unmarshal(b, &kf); err != nil {
			fmt.Fprintf(os.Stderr, "known_findings.json unreadable: %v\n", err)
			os.Exit(2)
		}
		for _, e := range kf.Entries {
			if e.Property == property && e.Status == "known" {
				r.known = append(r.known, e)
			}
		}
	}
	return r
}

// SetDeadline sets the exploration budget (checked by the explorers between units of work; reaching it ends the run
// with exit 0 and exhaustive=false). It also arms a watchdog far beyond it: every unit of work of every check
// returns within seconds on a tree where the property holds, so a run that is still inside one unit of work at
// deadline + max(budget, 6 min) is stuck in a call into the code under test that does not return (unbounded
// recursion / a loop that never ends). That is reported as a violation instead of hanging the caller forever.
func (r *Run) SetDeadline(d time.Duration) {
	r.Deadline = r.Start.Add(d)
	grace := d
	if grace < 6*time.Minute {
		grace = 6 * time.Minute
	}
	go func() {
		time.Sleep(d + grace)
		r.Report(r.Property+"/watchdog/call-does-not-return", fmt.Sprintf("the run is still inside one unit of work %s after its %s budget ended: a call into the code under test does not return", grace, d), map[string]interface{}{"engine": "watchdog"})
		r.CapHit("watchdog: run aborted, exploration incomplete")
		r.Finish()
	}()
}
func (r *Run) Expired() bool {
	return !r.Deadline.IsZero() && time.Now().After(r.Deadline)
}
func (r *Run) CapHit(what string) {
	r.mu.Lock()
	defer r.mu.Unlock()
	for _, c := range r.capsHit {
		if c == what {
			return
		}
	}
	r.capsHit = append(r.capsHit, what)
}

func (r *Run) Assume(s ...string) { r.Assumptions = append(r.Assumptions, s...) }

// Sample records an explored case (kept to at most max per run).
func (r *Run) Sample(max int, s interface{}) {
	r.mu.Lock()
	defer r.mu.Unlock()
	if len(r.samples) < max {
		r.samples = append(r.samples, s)
	}
}

func (r *Run) Set(k string, v interface{}) {
	r.mu.Lock()
	defer r.mu.Unlock()
	r.Coverage[k] = v
}

func (r *Run) Add(k string, n int64) {
	r.mu.Lock()
	defer r.mu.Unlock()
	cur, _ := r.Coverage[k].(int64)
	r.Coverage[k] = cur + n
}

// isKnown matches a violation signature against the committed known findings (exact match, or
// entry signature ending in '*' as a prefix match).
func (r *Run) isKnown(sig string) *KnownEntry {
	for i := range r.known {
		k := &r.known[i]
		if k.Signature == sig {
			return k
		}
		if strings.HasSuffix(k.Signature, "*") && strings.HasPrefix(sig, strings.TrimSuffix(k.Signature, "*")) {
			return k
		}
	}
	return nil
}

// Report records a violation (or a re-observed known finding). Returns true if it is a known finding.
// Only the first violation per signature is kept with its replay (the BFS/iterative order makes it minimal).
func (r *Run) Report(sig, msg string, replay interface{}) bool {
	r.mu.Lock()
	defer r.mu.Unlock()
	if k := r.isKnown(sig); k != nil {
		r.knownSeen[k.Signature]++
		return true
	}
	for _, v := range r.violations {
		if v.Signature == sig {
			return false
		}
	}
	if len(r.violations) >= 50 {
		return false
	}
	r.violations = append(r.violations, Violation{Signature: sig, Message: msg, Replay: replay})
	return false
}

func (r *Run) NumViolations() int {
	r.mu.Lock()
	defer r.mu.Unlock()
	return len(r.violations)
}

// Finish writes evidence, replays, prints verdict lines and exits.
var OnFinish = func() {}

func (r *Run) Finish() {
	OnFinish()
	r.mu.Lock()
	defer r.mu.Unlock()
	wall := time.Since(r.Start).Seconds()
	cov := r.Coverage
	if len(r.samples) > 0 {
		cov["samples"] = r.samples
	}
	if len(r.capsHit) > 0 {
		cov["caps_hit"] = r.capsHit
		cov["exhaustive"] = false
	} else if _, ok := cov["exhaustive"]; !ok {
		cov["exhaustive"] = true
	}
	ks := []string{}
	for k, n := range r.knownSeen {
		ks = append(ks, fmt.Sprintf("%s (x%d)", k, n))
	}
	sort.Strings(ks)
	cov["known_findings_seen"] = ks
	// VERIF_OUT (only set by tools/seedrun.sh and tools/mut.sh): evidence and replays of runs against a
	// deliberately broken tree go elsewhere, so that the committed evidence always describes /repo itself.
	Root := Root
	if o := os.Getenv("VERIF_OUT"); o != "" {
		Root = o
	}
	// replays
	os.MkdirAll(filepath.Join(Root, "replays"), 0o755)
	if old, _ := filepath.Glob(filepath.Join(Root, "replays", fmt.Sprintf("%s-%s-*.json", r.Property, r.Tier))); old != nil {
		for _, f := range old {
			os.Remove(f)
		}
	}
	for i := range r.violations {
		v := &r.violations[i]
		p := filepath.Join(Root, "replays", fmt.Sprintf("%s-%s-%04d.json", r.Property, r.Tier, i+1))
		b, _ := json.MarshalIndent(map[string]interface{}{
			"property": r.Property, "signature": v.Signature, "message": v.Message,
			"seed": r.Seed, "tier": r.Tier, "replay": v.Replay}, "", " ")
		os.WriteFile(p, b, 0o644)
		v.Path = p
	}
	ev := map[string]interface{}{
		"property_id": r.Property, "tier": r.Tier, "seed": r.Seed, "level": r.Level,
		"coverage": cov, "assumptions": r.Assumptions, "wall_s": wall, "violations": len(r.violations),
	}
	if r.Assumptions == nil {
		ev["assumptions"] = []string{}
	}
	b, err := json.MarshalIndent(ev, "", " ")
	if err != nil {
		fmt.Fprintf(os.Stderr, "evidence marshal: %v\n", err)
		os.Exit(2)
	}
	os.MkdirAll(filepath.Join(Root, "evidence"), 0o755)
	if err := os.WriteFile(filepath.Join(Root, "evidence", r.Property+".json"), b, 0o644); err != nil {
		fmt.Fprintf(os.Stderr, "evidence write: %v\n", err)
		os.Exit(2)
	}
	for _, k := range r.known {
		if r.knownSeen[k.Signature] > 0 {
			fmt.Printf("KNOWN-FINDING: property=%s %s [%s]\n", r.Property, k.What, k.Signature)
		}
	}
	for _, v := range r.violations {
		fmt.Printf("VIOLATION property=%s replay=%s\n", r.Property, v.Path)
		fmt.Printf("  signature: %s\n  %s\n", v.Signature, v.Message)
	}
	fmt.Printf("%s %s: %d violation(s), wall %.1fs, exhaustive=%v caps=%v\n", r.Property, r.Tier,
		len(r.violations), wall, cov["exhaustive"], r.capsHit)
	if len(r.violations) > 0 {
		os.Exit(1)
	}
	os.Exit(0)
}
