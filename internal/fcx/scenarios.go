package fcx

import (
	"fmt"
)

func props(ps ...string) map[string]bool {
	m := map[string]bool{}
	for _, p := range ps {
		m[p] = true
	}
	return m
}

func unusedRoots(m *Model, n int) []Root {
	var un []Root
	for _, r := range pool {
		if _, ok := m.first[r]; !ok {
			un = append(un, r)
		}
	}
	// first (in pool order) and last unused: gives both tie-break directions w.r.t. existing roots
	if len(un) <= n {
		return un
	}
	out := []Root{un[0]}
	if n > 1 {
		out = append(out, un[len(un)-1])
	}
	return out
}

func maxSlotOfRoot(m *Model, r Root) Slot {
	var mx Slot
	for _, n := range m.order {
		if n.ref.Root == r && n.ref.Slot > mx {
			mx = n.ref.Slot
		}
	}
	return mx
}

// growth menu: blocks (forks, late blocks, double proposals, gaps), empty slots, votes
// (known / unknown / older-epoch / same-epoch targets), head.
func growthMenu(nv uint64, withUJ bool) func(in *Inst) []fmt.Stringer {
	return func(in *Inst) []fmt.Stringer {
		m := in.M
		s := in.S
		var ops []fmt.Stringer
		ops = append(ops, OpHead{}, OpQueries{})
		je, fe := m.justified.Epoch, m.finalized.Epoch
		if len(m.order) < s.MaxNodes {
			for _, parent := range append(m.KnownRoots(), RU) {
				fs, known := m.first[parent]
				var slots []Slot
				if known {
					slots = []Slot{fs + 1, fs + 2, maxSlotOfRoot(m, parent) + 1}
				} else {
					slots = []Slot{1}
				}
				seen := map[Slot]bool{}
				for _, sl := range slots {
					if seen[sl] || sl > s.MaxSlot {
						continue
					}
					seen[sl] = true
					for _, r := range unusedRoots(m, 2) {
						ops = append(ops, OpBlock{parent, r, sl, je, fe})
					}
				}
			}
			// a block whose root is already known (same slot / other slot)
			if len(m.order) > 1 {
				last := m.order[len(m.order)-1]
				if last.isBlock() {
					ops = append(ops, OpBlock{last.parentRoot, last.ref.Root, last.ref.Slot, je, fe},
						OpBlock{last.parentRoot, last.ref.Root, last.ref.Slot + 1, je, fe})
				}
			}
			for _, r := range m.KnownRoots() {
				mx := maxSlotOfRoot(m, r)
				for _, sl := range []Slot{mx + 1, mx + 2} {
					if sl <= s.MaxSlot {
						ops = append(ops, OpSlot{r, sl, je, fe})
					}
				}
			}
		}
		ops = append(ops, voteOps(m, nv)...)
		if withUJ {
			ops = append(ops, ujOps(in, true)...)
		}
		return ops
	}
}

func voteOps(m *Model, nv uint64) []fmt.Stringer {
	var ops []fmt.Stringer
	for v := uint64(0); v < nv; v++ {
		for _, n := range m.order {
			ops = append(ops, OpVote{v, n.ref.Root, n.ref.Slot})
		}
	}
	// targets that do not exist: unknown root, a slot after the last node of a root,
	// a slot before the first slot of a root
	ops = append(ops, OpVote{0, RU, 1})
	for _, r := range m.KnownRoots() {
		ops = append(ops, OpVote{0, r, maxSlotOfRoot(m, r) + 1})
		if fs := m.first[r]; fs > 0 {
			ops = append(ops, OpVote{0, r, fs - 1})
		}
	}
	return ops
}

// ujOps: candidate justified/finalized updates classified on a clone of the model; every refused
// class is offered (two examples each), every applied pair is offered with balance variants.
func ujOps(in *Inst, balVariants bool) []fmt.Stringer {
	m := in.M
	var ops []fmt.Stringer
	cands := func(cur Checkpoint, span Epoch) []Checkpoint {
		out := []Checkpoint{cur}
		for e := cur.Epoch; e <= cur.Epoch+span; e++ {
			start := m.startSlot(e)
			for _, r := range m.KnownRoots() {
				c := Checkpoint{r, e}
				if c == cur || m.first[r] > start {
					continue
				}
				out = append(out, c)
			}
		}
		out = append(out, Checkpoint{RU, cur.Epoch + 1})
		if cur.Epoch > 0 {
			out = append(out, Checkpoint{RA, cur.Epoch - 1})
		}
		return out
	}
	headRef, st := m.Head(m.HeadAnchor())
	trig := RA
	if st == HeadOK {
		trig = headRef.Root
	}
	perWhy := map[string]int{}
	for _, j := range cands(m.justified, 1) {
		for _, f := range cands(m.finalized, 1) {
			c := m.Clone()
			res := c.UpdateJustified(trig, j, f, m.balances, false)
			if res.Open {
				continue
			}
			if res.Changed {
				// After the update some node must still be a viable head (from the new head anchor and,
				// if finalization advanced onto an existing node, from that node). A store in which no
				// node carries the new justified/finalized epochs cannot arise from beacon states, and the
				// statement does not define the outcome (the implementation reports an error).
				if _, st := c.Head(c.HeadAnchor()); st != HeadOK {
					continue
				}
			}
			if !res.Changed {
				perWhy[res.Why]++
				if perWhy[res.Why] > 2 {
					continue
				}
				ops = append(ops, OpUJ{trig, j, f, "same"})
				continue
			}
			ops = append(ops, OpUJ{trig, j, f, "same"})
			if balVariants {
				ops = append(ops, OpUJ{trig, j, f, "v0"})
				if perWhy["applied-variants"] < 1 {
					perWhy["applied-variants"]++
					ops = append(ops, OpUJ{trig, j, f, "shrink"}, OpUJ{trig, j, f, "grow"}, OpUJ{trig, j, f, "err"})
					// trigger variants (matter only while pinned)
					ops = append(ops, OpUJ{RU, j, f, "same"})
					for _, r := range m.KnownRoots() {
						if r != trig {
							ops = append(ops, OpUJ{r, j, f, "same"})
						}
					}
				}
			}
		}
	}
	return ops
}

// justification menu: updates, then follow-ups (votes, blocks on top, pins, head, queries).
func justMenu(nv uint64) func(in *Inst) []fmt.Stringer {
	return func(in *Inst) []fmt.Stringer {
		m := in.M
		s := in.S
		var ops []fmt.Stringer
		ops = append(ops, OpHead{}, OpQueries{})
		ops = append(ops, ujOps(in, true)...)
		// pins: every block node, one gap node, one non-existent
		ngap := 0
		for _, n := range m.order {
			if n.isBlock() {
				ops = append(ops, OpSetPin{n.ref.Root, n.ref.Slot})
			} else if ngap < 1 {
				ngap++
				ops = append(ops, OpSetPin{n.ref.Root, n.ref.Slot})
			}
		}
		ops = append(ops, OpSetPin{RU, 1})
		// votes: per validator, the block nodes and the last gap node
		for v := uint64(0); v < nv; v++ {
			var lastGap *mnode
			for _, n := range m.order {
				if n.isBlock() {
					ops = append(ops, OpVote{v, n.ref.Root, n.ref.Slot})
				} else {
					lastGap = n
				}
			}
			if lastGap != nil {
				ops = append(ops, OpVote{v, lastGap.ref.Root, lastGap.ref.Slot})
			}
		}
		ops = append(ops, OpVote{0, RU, 1})
		// growth on top: one block on every leaf-ish root, one empty slot
		if len(m.order) < s.MaxNodes {
			je, fe := m.justified.Epoch, m.finalized.Epoch
			for _, r := range m.KnownRoots() {
				mx := maxSlotOfRoot(m, r)
				if mx+1 <= s.MaxSlot {
					for _, nr := range unusedRoots(m, 1) {
						ops = append(ops, OpBlock{r, nr, mx + 1, je, fe}, OpBlock{r, nr, mx + 1, je + 1, fe})
					}
					ops = append(ops, OpSlot{r, mx + 1, je, fe})
				}
			}
		}
		return ops
	}
}

// Scenarios returns the harnesses for one property.
func Scenarios(prop string, tier string, sink string) []*Scenario {
	bal3 := []uint64{10, 10, 10}
	all := props(prop)
	var out []*Scenario
	// G: growth from the bare anchor
	g := &Scenario{Name: "growth", SPE: 2, Balances: []uint64{10, 10}, Menu: growthMenu(2, false), Sink: sink,
		Props: all, MaxNodes: 7, MaxSlot: 5}
	// V: votes on a forked tree with gap slots over two epochs
	v := &Scenario{Name: "votes", SPE: 2, Balances: []uint64{10, 7, 4}, Sink: sink, Props: all, MaxNodes: 0, MaxSlot: 6,
		Prefix: []fmt.Stringer{
			OpBlock{RA, RB, 1, 0, 0}, OpBlock{RA, RC, 1, 0, 0}, OpBlock{RB, RD, 2, 0, 0},
			OpSlot{RB, 3, 0, 0}, OpBlock{RC, RE, 3, 0, 0},
		},
		Menu: func(in *Inst) []fmt.Stringer {
			ops := []fmt.Stringer{OpHead{}, OpQueries{}}
			ops = append(ops, voteOps(in.M, 3)...)
			// a balance change through a justified update to epoch 1 (root A has a gap node at slot 2? no: use B@2 gap)
			ops = append(ops, ujOps(in, true)...)
			return ops
		}}
	// J: justification/finalization on a tree spanning epochs 0..2 with a fork across the epoch-1
	// boundary, a gap slot at the epoch-1 start on one branch, blocks carrying je/fe
	j := &Scenario{Name: "justify", SPE: 2, Balances: bal3, Sink: sink, Props: all, MaxNodes: 15, MaxSlot: 7,
		Prefix: []fmt.Stringer{
			OpBlock{RA, RB, 1, 0, 0},
			OpBlock{RA, RD, 1, 0, 0}, // conflicting sibling of B, inserted early
			OpBlock{RB, RC, 2, 0, 0}, // epoch-1 start with a block
			OpBlock{RC, RE, 4, 1, 0}, // epoch-2 start, knows justified epoch 1
			OpBlock{RE, RF, 6, 2, 1}, // epoch-3 start, knows justified epoch 2 / finalized epoch 1
		},
		Menu: justMenu(2)}
	// J2: as J, but the conflicting branch (D over the gap slots B@2, B@3) is inserted AFTER the
	// node that gets finalized
	j2 := &Scenario{Name: "justify-latefork", SPE: 2, Balances: bal3, Sink: sink, Props: all, MaxNodes: 15, MaxSlot: 7,
		Prefix: []fmt.Stringer{
			OpBlock{RA, RB, 1, 0, 0},
			OpBlock{RB, RC, 2, 0, 0},
			OpBlock{RB, RD, 3, 0, 0}, // fork from B over the gap slot 2 (B@2, B@3 are gap nodes)
			OpBlock{RC, RE, 4, 1, 0},
			OpBlock{RE, RF, 6, 2, 1},
		},
		Menu: justMenu(2)}
	// J3: the epoch-1 start slot is a gap slot on the canonical chain: finalizing (B, epoch 1) anchors
	// on the gap-slot node B@2; C (built on B at slot 3) must then hang under that node.
	j3 := &Scenario{Name: "justify-gap", SPE: 2, Balances: bal3, Sink: sink, Props: all, MaxNodes: 15, MaxSlot: 7,
		Prefix: []fmt.Stringer{
			OpBlock{RA, RB, 1, 0, 0},
			OpBlock{RA, RD, 1, 0, 0},
			OpBlock{RB, RC, 3, 0, 0}, // slot 2 (epoch-1 start) stays empty: gap nodes B@2, B@3
			OpBlock{RC, RE, 4, 1, 0},
			OpBlock{RE, RF, 6, 2, 1},
		},
		Menu: justMenu(2)}
	switch prop {
	case "C09":
		out = []*Scenario{g, v, j, j3}
	case "C10":
		out = []*Scenario{j, j3, j2, g}
		g.Menu = growthMenu(1, true)
		g.MaxNodes = 6
	case "C11":
		out = []*Scenario{g, j, j3}
	}
	return out
}
