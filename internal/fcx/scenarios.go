package fcx

import (
	"fmt"
)

func props(ps ...string) map[string]bool {
	m := map[string]bool{}
	for _, p := range ps {
		m[p] = true
	}
	return m
}

func unusedRoots(m *Model, n int) []Root {
	var un []Root
	for _, r := range pool {
		if _, ok := m.first[r]; !ok && !m.everUsed[r] {
			un = append(un, r)
		}
	}
	// first (in pool order) and last unused: gives both tie-break directions w.r.t. existing roots
	if len(un) <= n {
		return un
	}
	out := []Root{un[0]}
	if n > 1 {
		out = append(out, un[len(un)-1])
	}
	return out
}

func maxSlotOfRoot(m *Model, r Root) Slot {
	var mx Slot
	for _, n := range m.order {
		if n.ref.Root == r && n.ref.Slot > mx {
			mx = n.ref.Slot
		}
	}
	return mx
}

// Invariant kept by every menu: no node carries a justified/finalized epoch above the store's
// (a client raises the store's checkpoints in the same step in which it inserts such a block:
// OpBlockUJ). Nodes with LOWER epochs (stale branches) are offered: they are the non-viable ones.

// growth menu: blocks (forks, late blocks, double proposals, gaps), empty slots, votes
// (known / unknown / older-epoch / same-epoch targets), head.
func growthMenu(nv uint64, withUJ bool) func(in *Inst) []fmt.Stringer {
	return func(in *Inst) []fmt.Stringer {
		m := in.M
		s := in.S
		var ops []fmt.Stringer
		ops = append(ops, OpHead{}, OpQueries{})
		je, fe := m.justified.Epoch, m.finalized.Epoch
		if len(m.order) < s.MaxNodes {
			for _, parent := range append(m.KnownRoots(), RU) {
				fs, known := m.first[parent]
				var slots []Slot
				if known {
					slots = []Slot{fs + 1, fs + 2, maxSlotOfRoot(m, parent) + 1}
				} else {
					slots = []Slot{1}
				}
				seen := map[Slot]bool{}
				for _, sl := range slots {
					if seen[sl] || sl > s.MaxSlot {
						continue
					}
					seen[sl] = true
					for _, r := range unusedRoots(m, 2) {
						ops = append(ops, OpBlock{parent, r, sl, je, fe})
					}
				}
			}
			// a block whose root is already known (same slot / other slot)
			if len(m.order) > 1 {
				last := m.order[len(m.order)-1]
				if last.isBlock() {
					ops = append(ops, OpBlock{last.parentRoot, last.ref.Root, last.ref.Slot, je, fe},
						OpBlock{last.parentRoot, last.ref.Root, last.ref.Slot + 1, je, fe})
				}
			}
			for _, r := range m.KnownRoots() {
				mx := maxSlotOfRoot(m, r)
				for _, sl := range []Slot{mx + 1, mx + 2} {
					if sl <= s.MaxSlot {
						ops = append(ops, OpSlot{r, sl, je, fe})
					}
				}
			}
		}
		ops = append(ops, voteOps(m, nv)...)
		if withUJ {
			ops = append(ops, ujOps(in, false)...)
			ops = append(ops, blockUJOps(in)...)
		}
		return ops
	}
}

func voteOps(m *Model, nv uint64) []fmt.Stringer {
	var ops []fmt.Stringer
	for v := uint64(0); v < nv; v++ {
		for _, n := range m.order {
			ops = append(ops, OpVote{v, n.ref.Root, n.ref.Slot})
		}
	}
	// targets that do not exist: unknown root, a slot after the last node of a root,
	// a slot before the first slot of a root
	ops = append(ops, OpVote{0, RU, 1})
	for _, r := range m.KnownRoots() {
		ops = append(ops, OpVote{0, r, maxSlotOfRoot(m, r) + 1})
		if fs := m.first[r]; fs > 0 {
			ops = append(ops, OpVote{0, r, fs - 1})
		}
	}
	return ops
}

// classify runs a candidate update on a clone. usable=false: the statement does not define the
// outcome (see Model.UpdateJustified / no viable head left), the candidate is not offered.
func classify(m *Model, trig Root, j, f Checkpoint) (res UJResult, usable bool) {
	c := m.Clone()
	res = c.UpdateJustified(trig, j, f, m.balances, false)
	if res.Open {
		return res, false
	}
	if res.Changed {
		// After the update some node must still be a viable head. A store in which no node carries the
		// new justified/finalized epochs cannot arise from beacon states; outcome undefined.
		if _, st := c.Head(c.HeadAnchor()); st != HeadOK {
			return res, false
		}
	}
	return res, true
}

// ujOps: stand-alone justified/finalized updates (no new block): every refusal / no-change class
// (two examples each); applied ones only if `applied` is set and the store stays consistent.
func ujOps(in *Inst, applied bool) []fmt.Stringer {
	m := in.M
	var ops []fmt.Stringer
	cands := func(cur Checkpoint, span Epoch) []Checkpoint {
		out := []Checkpoint{cur}
		for e := cur.Epoch; e <= cur.Epoch+span; e++ {
			start := m.startSlot(e)
			for _, r := range m.KnownRoots() {
				c := Checkpoint{r, e}
				if c == cur || m.first[r] > start {
					continue
				}
				out = append(out, c)
			}
		}
		out = append(out, Checkpoint{RU, cur.Epoch + 1})
		if cur.Epoch > 0 {
			out = append(out, Checkpoint{RA, cur.Epoch - 1}, Checkpoint{cur.Root, cur.Epoch - 1})
		}
		return out
	}
	headRef, st := m.Head(m.HeadAnchor())
	trig := RA
	if st == HeadOK {
		trig = headRef.Root
	}
	perWhy := map[string]int{}
	for _, j := range cands(m.justified, 1) {
		for _, f := range cands(m.finalized, 1) {
			res, ok := classify(m, trig, j, f)
			if !ok {
				continue
			}
			if !res.Changed {
				perWhy[res.Why]++
				if perWhy[res.Why] > 2 {
					continue
				}
				ops = append(ops, OpUJ{trig, j, f, "same"})
				continue
			}
			if applied {
				ops = append(ops, OpUJ{trig, j, f, "same"}, OpUJ{trig, j, f, "v0"})
			}
		}
	}
	return ops
}

// blockUJOps: a new block on top of a leaf whose state justifies/finalizes checkpoints of ITS OWN
// chain (consistent by construction), inserted and followed by the update. Balance variants on the
// first applied candidates.
func blockUJOps(in *Inst) []fmt.Stringer {
	m := in.M
	s := in.S
	var ops []fmt.Stringer
	if len(m.order) >= s.MaxNodes {
		return nil
	}
	variants := 0
	for _, pr := range m.KnownRoots() {
		mx := maxSlotOfRoot(m, pr)
		pn := m.nodes[Ref{pr, mx}]
		for _, sl := range []Slot{mx + 1, mx + 2} {
			if sl > s.MaxSlot {
				continue
			}
			for _, nr := range unusedRoots(m, 1) {
				be := m.epochOf(sl)
				for je := m.justified.Epoch; je <= be; je++ {
					jr, ok := m.chainRootAt(pn, m.startSlot(je))
					if !ok {
						continue
					}
					J := Checkpoint{jr, je}
					if je == m.justified.Epoch {
						J = m.justified
					}
					for fe := m.finalized.Epoch; fe <= je; fe++ {
						fr, ok := m.chainRootAt(pn, m.startSlot(fe))
						if !ok {
							continue
						}
						F := Checkpoint{fr, fe}
						if fe == m.finalized.Epoch {
							F = m.finalized
						}
						if J == m.justified && F == m.finalized {
							continue
						}
						// classify on a clone that already contains the block
						c := m.Clone()
						if !c.ProcessBlock(pr, nr, sl, je, fe) {
							continue
						}
						res, ok := classify(c, nr, J, F)
						if !ok || !res.Changed {
							continue
						}
						b := OpBlock{pr, nr, sl, je, fe}
						ops = append(ops, OpBlockUJ{b, OpUJ{nr, J, F, "same"}})
						if variants < 2 {
							variants++
							ops = append(ops, OpBlockUJ{b, OpUJ{nr, J, F, "v0"}}, OpBlockUJ{b, OpUJ{nr, J, F, "shrink"}},
								OpBlockUJ{b, OpUJ{nr, J, F, "grow"}})
						}
					}
				}
			}
		}
	}
	return ops
}

// failing-callback / foreign-trigger variants of an update that would otherwise apply are offered
// as stand-alone updates: they must be refused and change nothing.
func refusedVariantOps(in *Inst) []fmt.Stringer {
	m := in.M
	var ops []fmt.Stringer
	e := m.justified.Epoch + 1
	for _, r := range m.KnownRoots() {
		if m.first[r] > m.startSlot(e) {
			continue
		}
		J := Checkpoint{r, e}
		c := m.Clone()
		res := c.UpdateJustified(RA, J, m.finalized, m.balances, false)
		if res.Open || !res.Changed {
			continue
		}
		ops = append(ops, OpUJ{RA, J, m.finalized, "err"})
		if m.pin != nil {
			for _, t := range append(m.KnownRoots(), RU) {
				c2 := m.Clone()
				if r2 := c2.UpdateJustified(t, J, m.finalized, m.balances, false); r2.Err {
					ops = append(ops, OpUJ{t, J, m.finalized, "same"})
				}
			}
		}
		return ops
	}
	return ops
}

// justification menu: updates, then follow-ups (votes, blocks on top, pins, head, queries).
func justMenu(nv uint64) func(in *Inst) []fmt.Stringer {
	return func(in *Inst) []fmt.Stringer {
		m := in.M
		s := in.S
		var ops []fmt.Stringer
		ops = append(ops, OpHead{}, OpQueries{})
		ops = append(ops, blockUJOps(in)...)
		ops = append(ops, ujOps(in, true)...)
		ops = append(ops, refusedVariantOps(in)...)
		// pins: every block node, one gap node, one non-existent
		ngap := 0
		for _, n := range m.order {
			if n.isBlock() {
				ops = append(ops, OpSetPin{n.ref.Root, n.ref.Slot})
			} else if ngap < 1 {
				ngap++
				ops = append(ops, OpSetPin{n.ref.Root, n.ref.Slot})
			}
		}
		ops = append(ops, OpSetPin{RU, 1})
		// votes: per validator, the block nodes and the last gap node
		for v := uint64(0); v < nv; v++ {
			var lastGap *mnode
			for _, n := range m.order {
				if n.isBlock() {
					ops = append(ops, OpVote{v, n.ref.Root, n.ref.Slot})
				} else {
					lastGap = n
				}
			}
			if lastGap != nil {
				ops = append(ops, OpVote{v, lastGap.ref.Root, lastGap.ref.Slot})
			}
		}
		ops = append(ops, OpVote{0, RU, 1})
		// growth on top: one block on every root (store epochs, and a stale-branch variant), one empty slot
		if len(m.order) < s.MaxNodes {
			je, fe := m.justified.Epoch, m.finalized.Epoch
			for _, r := range m.KnownRoots() {
				mx := maxSlotOfRoot(m, r)
				if mx+1 <= s.MaxSlot {
					for _, nr := range unusedRoots(m, 1) {
						ops = append(ops, OpBlock{r, nr, mx + 1, je, fe})
						if je > 0 {
							ops = append(ops, OpBlock{r, nr, mx + 1, je - 1, fe})
						}
					}
					ops = append(ops, OpSlot{r, mx + 1, je, fe})
				}
			}
		}
		return ops
	}
}

// Scenarios returns the harnesses for one property.
func Scenarios(prop string, tier string, sink string) []*Scenario {
	bal3 := []uint64{10, 10, 10}
	all := props(prop)
	var out []*Scenario
	// G: growth from the bare anchor
	g := &Scenario{Name: "growth", SPE: 2, Balances: []uint64{10, 10}, Menu: growthMenu(2, false), Sink: sink,
		Props: all, MaxNodes: 7, MaxSlot: 5}
	// V: votes on a forked tree with gap slots over two epochs
	v := &Scenario{Name: "votes", SPE: 2, Balances: []uint64{10, 7, 4}, Sink: sink, Props: all, MaxNodes: 12, MaxSlot: 6,
		Prefix: []fmt.Stringer{
			OpBlock{RA, RB, 1, 0, 0}, OpBlock{RA, RC, 1, 0, 0}, OpBlock{RB, RD, 2, 0, 0},
			OpSlot{RB, 3, 0, 0}, OpBlock{RC, RE, 3, 0, 0},
		},
		Menu: func(in *Inst) []fmt.Stringer {
			ops := []fmt.Stringer{OpHead{}, OpQueries{}}
			ops = append(ops, voteOps(in.M, 3)...)
			// balance changes arrive with a justified update (block + update)
			ops = append(ops, blockUJOps(in)...)
			return ops
		}}
	upd := func(b OpBlock, j, f Checkpoint) OpBlockUJ { return OpBlockUJ{b, OpUJ{b.Root, j, f, "same"}} }
	// J: a tree spanning epochs 0..2 (store already at justified epoch 1), a conflicting sibling
	// inserted early; the menu can justify/finalize further with new blocks.
	j := &Scenario{Name: "justify", SPE: 2, Balances: bal3, Sink: sink, Props: all, MaxNodes: 15, MaxSlot: 7,
		Prefix: []fmt.Stringer{
			OpBlock{RA, RB, 1, 0, 0},
			OpBlock{RA, RD, 1, 0, 0}, // conflicting sibling of B, inserted early
			OpBlock{RB, RC, 2, 0, 0}, // epoch-1 start with a block
			upd(OpBlock{RC, RE, 4, 1, 0}, Checkpoint{RC, 1}, Checkpoint{RA, 0}), // epoch-2 start, justifies C/1
		},
		Menu: justMenu(2)}
	// J2: as J, but the conflicting branch (D over the gap slots B@2, B@3) is inserted AFTER the
	// node that gets finalized
	j2 := &Scenario{Name: "justify-latefork", SPE: 2, Balances: bal3, Sink: sink, Props: all, MaxNodes: 15, MaxSlot: 7,
		Prefix: []fmt.Stringer{
			OpBlock{RA, RB, 1, 0, 0},
			OpBlock{RB, RC, 2, 0, 0},
			OpBlock{RB, RD, 3, 0, 0}, // fork from B over the gap slot 2 (B@2, B@3 are gap nodes)
			upd(OpBlock{RC, RE, 4, 1, 0}, Checkpoint{RC, 1}, Checkpoint{RA, 0}),
		},
		Menu: justMenu(2)}
	// J3: the epoch-1 start slot is a gap slot on the canonical chain: finalizing (B, epoch 1) anchors
	// on the gap-slot node B@2; C (built on B at slot 3) must then hang under that node.
	j3 := &Scenario{Name: "justify-gap", SPE: 2, Balances: bal3, Sink: sink, Props: all, MaxNodes: 15, MaxSlot: 7,
		Prefix: []fmt.Stringer{
			OpBlock{RA, RB, 1, 0, 0},
			OpBlock{RA, RD, 1, 0, 0},
			OpBlock{RB, RC, 3, 0, 0}, // slot 2 (epoch-1 start) stays empty: gap nodes B@2, B@3
			upd(OpBlock{RC, RE, 4, 1, 0}, Checkpoint{RB, 1}, Checkpoint{RA, 0}),
		},
		Menu: justMenu(2)}
	switch prop {
	case "C09":
		out = []*Scenario{g, v, j, j3}
	case "C10":
		out = []*Scenario{j, j3, j2, g}
		g.Menu = growthMenu(1, true)
		g.MaxNodes = 6
		g.MaxSlot = 6
	case "C11":
		out = []*Scenario{g, j, j3}
	}
	return out
}
