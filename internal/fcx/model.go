// Package fcx: reference model (reffc) and seqx harness for the fork-choice properties C09, C10, C11.
//
// The model is a naive block/slot tree written from the property statements and the doc comments of
// eth2/forkchoice (DESIGN.md Appendix B); it shares no code with the implementation.
package fcx

import (
	"bytes"
	"fmt"
	"sort"
	"strings"
)

type Root [32]byte
type Slot uint64
type Epoch uint64

type Ref struct {
	Root Root
	Slot Slot
}

func (r Ref) String() string { return fmt.Sprintf("%s@%d", rootName(r.Root), r.Slot) }

type Checkpoint struct {
	Root  Root
	Epoch Epoch
}

type mnode struct {
	ref        Ref
	parentRoot Root
	tparent    *mnode // transition parent
	fparent    *mnode // fork-choice parent
	je, fe     Epoch
	seq        int // insertion order
}

func (n *mnode) isBlock() bool { return n.ref.Root != n.parentRoot }

type mvote struct {
	ref   Ref
	epoch Epoch
}

type Model struct {
	spe       Slot
	nodes     map[Ref]*mnode
	order     []*mnode
	first     map[Root]Slot // first known slot of every known root
	votes     map[uint64]mvote
	balances  []uint64
	justified Checkpoint
	finalized Checkpoint
	pin       *Ref
	seq       int
	memo      *memo
	everUsed  map[Root]bool // every root ever inserted (pruned names are not reused for new blocks)
}

// memo caches derived data between mutations (cleared by every mutating operation).
type memo struct {
	fch    map[*mnode][]*mnode
	weight map[*mnode]int64
	leads  map[*mnode]bool
}

func (m *Model) dirty() { m.memo = nil }
func (m *Model) mm() *memo {
	if m.memo == nil {
		mm := &memo{fch: map[*mnode][]*mnode{}, weight: map[*mnode]int64{}, leads: map[*mnode]bool{}}
		for _, c := range m.order {
			if c.fparent != nil {
				mm.fch[c.fparent] = append(mm.fch[c.fparent], c)
			}
		}
		for v, vt := range m.votes {
			vn, ok := m.nodes[vt.ref]
			if !ok {
				continue
			}
			for x := vn; x != nil; x = x.fparent {
				mm.weight[x] += int64(m.bal(v))
			}
		}
		m.memo = mm
	}
	return m.memo
}

func NewModel(spe Slot, fin, just Checkpoint, anchorRoot Root, anchorSlot Slot, anchorParent Root, bal []uint64) *Model {
	m := &Model{spe: spe, nodes: map[Ref]*mnode{}, first: map[Root]Slot{}, votes: map[uint64]mvote{},
		balances: append([]uint64{}, bal...), justified: just, finalized: fin, everUsed: map[Root]bool{anchorRoot: true}}
	n := &mnode{ref: Ref{anchorRoot, anchorSlot}, parentRoot: anchorParent, je: just.Epoch, fe: fin.Epoch}
	m.add(n)
	m.first[anchorRoot] = anchorSlot
	p := Ref{anchorRoot, anchorSlot}
	m.pin = &p
	return m
}

func (m *Model) add(n *mnode) {
	m.dirty()
	n.seq = m.seq
	m.seq++
	m.nodes[n.ref] = n
	m.order = append(m.order, n)
}

func (m *Model) startSlot(e Epoch) Slot { return Slot(e) * m.spe }
func (m *Model) epochOf(s Slot) Epoch   { return Epoch(s / m.spe) }

// ProcessSlot: documented domain = root known and slot after its first known slot.
func (m *Model) ProcessSlot(root Root, slot Slot, je, fe Epoch) {
	if _, ok := m.nodes[Ref{root, slot}]; ok {
		return
	}
	fs, ok := m.first[root]
	if !ok || slot <= fs {
		panic("model: ProcessSlot outside its documented domain")
	}
	prev := m.nodes[Ref{root, fs}]
	for s := fs + 1; s <= slot; s++ {
		if n, ok := m.nodes[Ref{root, s}]; ok {
			prev = n
			continue
		}
		n := &mnode{ref: Ref{root, s}, parentRoot: root, tparent: prev, fparent: prev, je: je, fe: fe}
		m.add(n)
		prev = n
	}
}

func (m *Model) ProcessBlock(parent, root Root, slot Slot, je, fe Epoch) bool {
	if _, ok := m.nodes[Ref{root, slot}]; ok {
		return true
	}
	if _, ok := m.first[root]; ok {
		return true
	}
	ps, ok := m.first[parent]
	if !ok || ps >= slot {
		return false
	}
	m.ProcessSlot(parent, slot, je, fe)
	n := &mnode{ref: Ref{root, slot}, parentRoot: parent, tparent: m.nodes[Ref{parent, slot}],
		fparent: m.nodes[Ref{parent, ps}], je: je, fe: fe}
	m.add(n)
	m.first[root] = slot
	m.everUsed[root] = true
	return true
}

// Vote: returns whether the (root, slot) combination exists (the documented acceptance rule).
func (m *Model) Vote(v uint64, root Root, slot Slot) bool {
	if _, ok := m.nodes[Ref{root, slot}]; !ok {
		return false
	}
	e := m.epochOf(slot)
	cur, has := m.votes[v]
	if !has || e > cur.epoch {
		m.votes[v] = mvote{Ref{root, slot}, e}
		m.dirty()
	}
	return true
}

func (m *Model) bal(v uint64) uint64 {
	if v < uint64(len(m.balances)) {
		return m.balances[v]
	}
	return 0
}

func (m *Model) fchildren(n *mnode) []*mnode { return m.mm().fch[n] }

func (m *Model) tchildren(n *mnode) []*mnode {
	var out []*mnode
	for _, c := range m.order {
		if c.tparent == n {
			out = append(out, c)
		}
	}
	return out
}

func (m *Model) inFSubtree(anc, n *mnode) bool {
	for x := n; x != nil; x = x.fparent {
		if x == anc {
			return true
		}
	}
	return false
}

func (m *Model) inTSubtree(anc, n *mnode) bool {
	for x := n; x != nil; x = x.tparent {
		if x == anc {
			return true
		}
	}
	return false
}

func (m *Model) Weight(n *mnode) int64 { return m.mm().weight[n] }

func (m *Model) viable(n *mnode) bool {
	return (n.je == m.justified.Epoch || m.justified.Epoch == 0) &&
		(n.fe == m.finalized.Epoch || m.finalized.Epoch == 0)
}

func (m *Model) leads(n *mnode) bool {
	mm := m.mm()
	if v, ok := mm.leads[n]; ok {
		return v
	}
	r := false
	for _, c := range m.fchildren(n) {
		if m.leads(c) {
			r = true
			break
		}
	}
	if !r {
		r = m.viable(n)
	}
	mm.leads[n] = r
	return r
}

const (
	HeadOK = iota
	HeadUnknownAnchor
	HeadNoViable
)

// Head from an anchor node. Straight from the C09 statement.
func (m *Model) Head(anchor Ref) (Ref, int) {
	n, ok := m.nodes[anchor]
	if !ok {
		return Ref{}, HeadUnknownAnchor
	}
	for {
		var best *mnode
		var bw int64
		for _, c := range m.fchildren(n) {
			if !m.leads(c) {
				continue
			}
			w := m.Weight(c)
			if best == nil || w > bw || (w == bw && bytes.Compare(c.ref.Root[:], best.ref.Root[:]) > 0) {
				best, bw = c, w
			}
		}
		if best == nil {
			break
		}
		n = best
	}
	if !m.viable(n) {
		return Ref{}, HeadNoViable
	}
	return n.ref, HeadOK
}

func (m *Model) HeadAnchor() Ref {
	if m.pin != nil {
		return *m.pin
	}
	return Ref{m.justified.Root, m.startSlot(m.justified.Epoch)}
}

// blockAncestor: in the block tree, is root r equal to or a descendant of root a (both known).
func (m *Model) rootInSubtree(a, r Root) (unknown, in bool) {
	as, ok := m.first[a]
	if !ok {
		return true, false
	}
	rs, ok := m.first[r]
	if !ok {
		return true, false
	}
	return false, m.inTSubtree(m.nodes[Ref{a, as}], m.nodes[Ref{r, rs}])
}

// UpdateJustified outcome classes
type UJResult struct {
	Err     bool   // an error must be returned
	Why     string // reason (for messages)
	Changed bool   // store changed
	Open    bool   // input outside the domain the statement defines; never offered
	Pruned  []PrunedNode
}

type PrunedNode struct {
	Ref    Ref
	CanonT bool // transition-ancestor of the head found from the new anchor
	CanonF bool // fork-choice-ancestor (or self) of that head
	// AfterAnchor: the node was inserted after the anchor node (a conflicting branch that grew
	// after the checkpoint's node was inserted)
	AfterAnchor bool
}

// UpdateJustified per the C10 statement and the doc comment of ProtoForkChoice.UpdateJustified.
// balErr: the balances callback fails. sinkFailAt < 0: sink accepts everything; otherwise the
// sink fails on its sinkFailAt-th call (0-based); nilSink: no sink installed.
// It returns what must be observable; when the sink fails, what happens to the not-yet-reported
// nodes is not fully specified by the statement: the model then marks itself `degraded` … we simply
// do not offer failing sinks for continued exploration (terminal observation only).
func (m *Model) UpdateJustified(trigger Root, just, fin Checkpoint, newBal []uint64, balErr bool) UJResult {
	if m.justified.Epoch >= just.Epoch && m.finalized.Epoch >= fin.Epoch {
		return UJResult{Why: "older or equal checkpoints"}
	}
	if m.pin != nil && trigger != m.pin.Root {
		unk, in := m.rootInSubtree(m.pin.Root, trigger)
		if unk {
			return UJResult{Err: true, Why: "unknown trigger while pinned"}
		}
		if !in {
			return UJResult{Err: true, Why: "trigger outside pinned subtree"}
		}
	}
	if just.Epoch < fin.Epoch {
		return UJResult{Err: true, Why: "justified epoch lower than finalized epoch"}
	}
	if fin != m.finalized {
		unk, in := m.rootInSubtree(m.finalized.Root, fin.Root)
		if unk {
			return UJResult{Err: true, Why: "unknown finalized root"}
		}
		if !in || m.finalized.Epoch > fin.Epoch {
			return UJResult{Err: true, Why: "finalized outside finalized subtree"}
		}
	}
	if just != m.justified {
		unk, in := m.rootInSubtree(m.finalized.Root, just.Root)
		if unk {
			return UJResult{Err: true, Why: "unknown justified root"}
		}
		if !in || m.finalized.Epoch > just.Epoch {
			return UJResult{Err: true, Why: "justified outside finalized subtree"}
		}
	}
	// A justified checkpoint that does not descend from the NEW finalized checkpoint cannot come from
	// any beacon state; the statement does not say which of the two wins. Not offered by the menus.
	if unk, in := m.rootInSubtree(fin.Root, just.Root); unk || !in {
		return UJResult{Open: true, Why: "justified does not descend from the new finalized checkpoint (undefined input)"}
	}
	{
		jn, ok := m.nodes[Ref{just.Root, m.startSlot(just.Epoch)}]
		if !ok {
			jn = m.nodes[Ref{just.Root, m.first[just.Root]}]
		}
		if r, ok := m.chainRootAt(jn, m.startSlot(fin.Epoch)); ok && r != fin.Root {
			return UJResult{Open: true, Why: "the justified node's chain has a different checkpoint at the finalized epoch (undefined input)"}
		}
	}
	if balErr {
		return UJResult{Err: true, Why: "balances callback failed"}
	}
	prevFin := m.finalized
	m.dirty()
	m.balances = append([]uint64{}, newBal...)
	m.justified = just
	m.finalized = fin
	res := UJResult{Changed: true, Why: "applied"}
	if prevFin != fin {
		m.pin = nil
		anchor := Ref{fin.Root, m.startSlot(fin.Epoch)}
		an, ok := m.nodes[anchor]
		if ok {
			res.Pruned = m.pruneTo(an)
		}
	}
	return res
}

// chainRootAt: the block root the chain of node n has at the given slot (the first node met with
// slot <= the given slot when walking back over transition parents: a block node is met before its
// pre-block node). ok=false if the walk ends (pruned history) before reaching the slot.
func (m *Model) chainRootAt(n *mnode, slot Slot) (Root, bool) {
	for x := n; x != nil; x = x.tparent {
		if x.ref.Slot <= slot {
			return x.ref.Root, true
		}
	}
	return Root{}, false
}

// inCPSubtree: n is the checkpoint node an or descends from it. A block node sitting at the same
// slot as a slot-node anchor is NOT a descendant of the checkpoint (the checkpoint says that slot
// stayed empty on its chain).
func (m *Model) inCPSubtree(an, n *mnode) bool {
	var child *mnode
	for x := n; x != nil; x = x.tparent {
		if x == an {
			return child == nil || child.ref.Slot > an.ref.Slot
		}
		child = x
	}
	return false
}

// pruneTo drops every node that is not the anchor or a descendant of it.
func (m *Model) pruneTo(an *mnode) []PrunedNode {
	var pruned []PrunedNode
	var keep []*mnode
	for _, n := range m.order {
		if m.inCPSubtree(an, n) {
			keep = append(keep, n)
			continue
		}
		pn := PrunedNode{Ref: n.ref, AfterAnchor: n.seq > an.seq}
		// canonical <=> the finalized node descends from it
		pn.CanonT = m.inTSubtree(n, an)
		pn.CanonF = m.inFSubtree(n, an)
		pruned = append(pruned, pn)
	}
	for _, p := range pruned {
		delete(m.nodes, p.Ref)
	}
	m.dirty()
	m.order = keep
	an.tparent = nil
	an.fparent = nil
	// a retained node whose fork-choice parent (the first known node of its parent root) was
	// dropped now hangs under the anchor, which is the first known node of that root from now on.
	for _, n := range keep {
		if n != an && n.fparent != nil {
			if _, ok := m.nodes[n.fparent.ref]; !ok || m.nodes[n.fparent.ref] != n.fparent {
				n.fparent = an
			}
		}
	}
	// first-known slots: recompute from the kept nodes
	m.first = map[Root]Slot{}
	for _, n := range keep {
		if s, ok := m.first[n.ref.Root]; !ok || n.ref.Slot < s {
			m.first[n.ref.Root] = n.ref.Slot
		}
	}
	return pruned
}

func (m *Model) SetPin(root Root, slot Slot) bool {
	// documented: the node must exist (closest known node of root at or before slot must be at slot)
	if _, ok := m.nodes[Ref{root, slot}]; !ok {
		return false
	}
	p := Ref{root, slot}
	m.pin = &p
	m.dirty()
	return true
}

// ---- navigation queries (C11), by direct walks ----

func (m *Model) GetSlot(r Root) (Slot, bool) { s, ok := m.first[r]; return s, ok }

func (m *Model) ClosestToSlot(r Root, slot Slot) (Ref, bool) {
	fs, ok := m.first[r]
	if !ok || slot < fs {
		return Ref{}, false
	}
	best := fs
	for _, n := range m.order {
		if n.ref.Root == r && n.ref.Slot <= slot && n.ref.Slot > best {
			best = n.ref.Slot
		}
	}
	return Ref{r, best}, true
}

// CanonicalChain: head back to (and including) the anchor, following transition parents.
func (m *Model) CanonicalChain(anchor Ref) ([]*mnode, int) {
	h, st := m.Head(anchor)
	if st != HeadOK {
		return nil, st
	}
	an := m.nodes[anchor]
	var out []*mnode
	for n := m.nodes[h]; n != nil; n = n.tparent {
		out = append(out, n)
		if n == an {
			break
		}
	}
	return out, HeadOK
}

func (m *Model) Maxslot() Slot {
	var mx Slot
	for _, n := range m.order {
		if n.ref.Slot > mx {
			mx = n.ref.Slot
		}
	}
	return mx
}

func (m *Model) KnownRoots() []Root {
	var out []Root
	for r := range m.first {
		out = append(out, r)
	}
	sort.Slice(out, func(i, j int) bool { return bytes.Compare(out[i][:], out[j][:]) < 0 })
	return out
}

// Key: canonical dump of the model state.
func (m *Model) Key() string {
	var sb strings.Builder
	for _, n := range m.order {
		fmt.Fprintf(&sb, "%s<%s j%d f%d;", n.ref, rootName(n.parentRoot), n.je, n.fe)
	}
	vs := make([]uint64, 0, len(m.votes))
	for v := range m.votes {
		vs = append(vs, v)
	}
	sort.Slice(vs, func(i, j int) bool { return vs[i] < vs[j] })
	for _, v := range vs {
		fmt.Fprintf(&sb, "v%d=%s e%d;", v, m.votes[v].ref, m.votes[v].epoch)
	}
	fmt.Fprintf(&sb, "used%d bal%v J%s/%d F%s/%d pin%v", len(m.everUsed), m.balances, rootName(m.justified.Root), m.justified.Epoch,
		rootName(m.finalized.Root), m.finalized.Epoch, m.pin)
	return sb.String()
}

var rootNames = map[Root]string{}

func rootName(r Root) string {
	if n, ok := rootNames[r]; ok {
		return n
	}
	return fmt.Sprintf("%x", r[:2])
}

func mkRoot(b byte, name string) Root {
	var r Root
	for i := range r {
		r[i] = b
	}
	rootNames[r] = name
	return r
}

// Clone: deep copy (used by menus to classify candidate operations without touching the state).
func (m *Model) Clone() *Model {
	c := &Model{spe: m.spe, nodes: map[Ref]*mnode{}, first: map[Root]Slot{}, votes: map[uint64]mvote{},
		balances: append([]uint64{}, m.balances...), justified: m.justified, finalized: m.finalized, seq: m.seq, everUsed: map[Root]bool{}}
	for k := range m.everUsed {
		c.everUsed[k] = true
	}
	mp := map[*mnode]*mnode{}
	for _, n := range m.order {
		nn := *n
		mp[n] = &nn
		c.order = append(c.order, &nn)
		c.nodes[nn.ref] = &nn
	}
	for _, n := range c.order {
		if n.tparent != nil {
			n.tparent = mp[n.tparent]
		}
		if n.fparent != nil {
			n.fparent = mp[n.fparent]
		}
	}
	for k, v := range m.first {
		c.first[k] = v
	}
	for k, v := range m.votes {
		c.votes[k] = v
	}
	if m.pin != nil {
		p := *m.pin
		c.pin = &p
	}
	return c
}
