package fcx

import (
	"bytes"
	"context"
	"errors"
	"fmt"
	"sort"
	"strings"

	"github.com/protolambda/zrnt/eth2/beacon/common"
	"github.com/protolambda/zrnt/eth2/configs"
	"github.com/protolambda/zrnt/eth2/forkchoice"
	"github.com/protolambda/zrnt/eth2/forkchoice/proto"

	"verif/internal/dump"
	"verif/internal/seqlock"
	"verif/internal/seqx"
)

// ---------- names ----------

var (
	RA = mkRoot(0x50, "A") // anchor; in the middle so that new roots fall on both sides for tie-breaks
	RB = mkRoot(0x20, "B")
	RC = mkRoot(0x80, "C")
	RD = mkRoot(0x30, "D")
	RE = mkRoot(0x70, "E")
	RF = mkRoot(0x10, "F")
	RG = mkRoot(0x40, "G")
	RH = mkRoot(0x90, "H")
	RU = mkRoot(0xee, "U") // never inserted
	RP = mkRoot(0x01, "P") // parent root of the anchor, never inserted as a node
)

var pool = []Root{RB, RC, RD, RE, RF, RG, RH}

// ---------- operations ----------

type OpBlock struct {
	Parent, Root Root
	Slot         Slot
	JE, FE       Epoch
}

func (o OpBlock) String() string {
	return fmt.Sprintf("Block(parent=%s,root=%s,slot=%d,je=%d,fe=%d)", rootName(o.Parent), rootName(o.Root), o.Slot, o.JE, o.FE)
}

type OpSlot struct {
	Root   Root
	Slot   Slot
	JE, FE Epoch
}

func (o OpSlot) String() string {
	return fmt.Sprintf("Slot(root=%s,slot=%d,je=%d,fe=%d)", rootName(o.Root), o.Slot, o.JE, o.FE)
}

type OpVote struct {
	V    uint64
	Root Root
	Slot Slot
}

func (o OpVote) String() string {
	return fmt.Sprintf("Vote(v=%d,%s@%d)", o.V, rootName(o.Root), o.Slot)
}

type OpHead struct{}

func (OpHead) String() string { return "Head()" }

// OpQueries runs every read-only query once (they touch lazily maintained links), then continues.
type OpQueries struct{}

func (OpQueries) String() string { return "Queries()" }

type OpUJ struct {
	Trigger Root
	J, F    Checkpoint
	Bal     string // same | v0 | shrink | grow | err
}

func (o OpUJ) String() string {
	return fmt.Sprintf("UpdateJustified(trigger=%s,J=%s/%d,F=%s/%d,bal=%s)", rootName(o.Trigger),
		rootName(o.J.Root), o.J.Epoch, rootName(o.F.Root), o.F.Epoch, o.Bal)
}

// OpBlockUJ: a block whose post-state carries newer checkpoints, followed at once by the
// justified/finalized update it triggers (what a client does in on_block). Keeps the invariant
// that no node carries a justified/finalized epoch above the store's.
type OpBlockUJ struct {
	B   OpBlock
	UJ  OpUJ
}

func (o OpBlockUJ) String() string { return o.B.String() + "+" + o.UJ.String() }

type OpSetPin struct {
	Root Root
	Slot Slot
}

func (o OpSetPin) String() string { return fmt.Sprintf("SetPin(%s@%d)", rootName(o.Root), o.Slot) }

// ---------- scenario / harness ----------

type Scenario struct {
	Name     string
	SPE      Slot
	Balances []uint64
	Prefix   []fmt.Stringer
	Menu     func(in *Inst) []fmt.Stringer
	// Sink: "accept", "nil", or "fail<i>" (fails on its i-th call, 0-based)
	Sink     string
	Props    map[string]bool // which properties' findings are reported
	MaxNodes int
	MaxSlot  Slot
}

func (s *Scenario) Name_() string { return s.Name }

type H struct{ S *Scenario }

func (h H) Name() string { return h.S.Name }

type sinkCall struct {
	Ref       Ref
	Canonical bool
}

type Inst struct {
	S     *Scenario
	M     *Model
	FC    forkchoice.Forkchoice
	spec  *common.Spec
	calls []sinkCall
	// sink failure configuration
	failAt int
	key    string
	pruned bool // a prune has happened on this path
	broken bool // a sink failure left the store in a state the statement does not define
}

var specCache = map[Slot]*common.Spec{}

func specFor(spe Slot) *common.Spec {
	if s, ok := specCache[spe]; ok {
		return s
	}
	c := *configs.Mainnet
	c.SLOTS_PER_EPOCH = common.Slot(spe)
	specCache[spe] = &c
	return &c
}

func init() {
	seqlock.Install()
	specFor(2)
	specFor(4)
}

func toRoot(r Root) common.Root { return common.Root(r) }
func toCP(c Checkpoint) common.Checkpoint {
	return common.Checkpoint{Epoch: common.Epoch(c.Epoch), Root: toRoot(c.Root)}
}
func gweis(b []uint64) []common.Gwei {
	out := make([]common.Gwei, len(b))
	for i, x := range b {
		out[i] = common.Gwei(x)
	}
	return out
}

func (h H) Fresh() seqx.Instance {
	in := h.S.fresh()
	for _, op := range h.S.Prefix {
		in.Apply(op, false)
	}
	return in
}

func (s *Scenario) fresh() *Inst {
	in := &Inst{S: s, spec: specFor(s.SPE), failAt: -1}
	fin := Checkpoint{RA, 0}
	in.M = NewModel(s.SPE, fin, fin, RA, 0, RP, s.Balances)
	var sink proto.NodeSink
	switch {
	case s.Sink == "nil":
		sink = nil
	default:
		if strings.HasPrefix(s.Sink, "fail") {
			fmt.Sscanf(s.Sink, "fail%d", &in.failAt)
		}
		sink = proto.NodeSinkFn(func(ctx context.Context, ref forkchoice.NodeRef, canonical bool) error {
			if in.failAt >= 0 && len(in.calls) == in.failAt {
				in.calls = append(in.calls, sinkCall{Ref{Root(ref.Root), Slot(ref.Slot)}, canonical})
				return errors.New("sink failure (injected)")
			}
			in.calls = append(in.calls, sinkCall{Ref{Root(ref.Root), Slot(ref.Slot)}, canonical})
			return nil
		})
	}
	fc, err := proto.NewProtoForkChoice(in.spec, toCP(fin), toCP(fin), toRoot(RA), 0, toRoot(RP), gweis(s.Balances), sink)
	if err != nil {
		panic(fmt.Sprintf("fcx: cannot construct fork choice: %v", err))
	}
	in.FC = fc
	return in
}

// CheckPrefix runs the scenario prefix with full observation (the start state must itself be sound).
func (h H) CheckPrefix() []seqx.Finding {
	in := h.S.fresh()
	var all []seqx.Finding
	for _, op := range h.S.Prefix {
		fs, _ := in.Apply(op, true)
		all = append(all, fs...)
	}
	return all
}

func (in *Inst) Enabled() []fmt.Stringer {
	if in.broken {
		return nil
	}
	return in.S.Menu(in)
}

var dumpOpts = &dump.Options{
	SkipFields: map[string]bool{"ProtoForkChoice.mu": true, "ProtoForkChoice.spec": true, "ProtoVoteStore.spec": true, "ProtoArray.sink": true},
}

func (in *Inst) Key() string { return in.key }

// guard runs f, converting a panic into a finding description.
func guard(f func()) (panicMsg string, blocked bool) {
	defer func() {
		if r := recover(); r != nil {
			if wb, ok := r.(seqlock.WouldBlockForever); ok {
				blocked = true
				panicMsg = wb.Error()
				return
			}
			panicMsg = fmt.Sprintf("panic: %v", r)
		}
	}()
	f()
	return
}

func (in *Inst) finding(props []string, sig, msg string) []seqx.Finding {
	var out []seqx.Finding
	for _, p := range props {
		if in.S.Props[p] {
			out = append(out, seqx.Finding{Sig: p + "/" + sig, Msg: msg})
		}
	}
	return out
}

func (in *Inst) Apply(op fmt.Stringer, observe bool) (fs []seqx.Finding, outcome string) {
	add := func(props []string, sig, msg string) {
		fs = append(fs, in.finding(props, sig, fmt.Sprintf("%s: %s", op, msg))...)
	}
	all := []string{"C09", "C10", "C11"}
	switch o := op.(type) {
	case OpBlock:
		exp := in.M.ProcessBlock(o.Parent, o.Root, o.Slot, o.JE, o.FE)
		var got bool
		pm, _ := guard(func() {
			got = in.FC.ProcessBlock(toRoot(o.Parent), toRoot(o.Root), common.Slot(o.Slot), common.Epoch(o.JE), common.Epoch(o.FE))
		})
		if pm != "" {
			add(all, "panic/ProcessBlock", pm)
		} else if got != exp {
			add([]string{"C09", "C11"}, "ProcessBlock/result", fmt.Sprintf("returned %v, expected %v", got, exp))
		}
		outcome = fmt.Sprintf("block:%v", got)
	case OpSlot:
		in.M.ProcessSlot(o.Root, o.Slot, o.JE, o.FE)
		pm, _ := guard(func() {
			in.FC.ProcessSlot(toRoot(o.Root), common.Slot(o.Slot), common.Epoch(o.JE), common.Epoch(o.FE))
		})
		if pm != "" {
			add(all, "panic/ProcessSlot", pm)
		}
		outcome = "slot"
	case OpVote:
		exp := in.M.Vote(o.V, o.Root, o.Slot)
		var got bool
		pm, _ := guard(func() {
			got = in.FC.ProcessAttestation(common.ValidatorIndex(o.V), toRoot(o.Root), common.Slot(o.Slot))
		})
		if pm != "" {
			add(all, "panic/ProcessAttestation", pm)
		} else if got != exp {
			if exp {
				add([]string{"C09"}, "vote/known-node-refused", fmt.Sprintf("vote for existing node %s@%d refused (returned false)", rootName(o.Root), o.Slot))
			} else {
				add([]string{"C09"}, "vote/unknown-node-accepted", fmt.Sprintf("vote for non-existent node %s@%d accepted (returned true)", rootName(o.Root), o.Slot))
			}
		}
		outcome = fmt.Sprintf("vote:%v", got)
	case OpHead:
		fs = append(fs, in.checkHead(op.String())...)
		outcome = "head"
	case OpQueries:
		fs = append(fs, in.observe(true)...)
		outcome = "queries"
	case OpSetPin:
		exp := in.M.SetPin(o.Root, o.Slot)
		var err error
		pm, _ := guard(func() { err = in.FC.SetPin(toRoot(o.Root), common.Slot(o.Slot)) })
		if pm != "" {
			add(all, "panic/SetPin", pm)
		} else if (err == nil) != exp {
			add([]string{"C09", "C10"}, "SetPin/result", fmt.Sprintf("returned err=%v, expected success=%v", err, exp))
		}
		outcome = fmt.Sprintf("setpin:%v", err == nil)
	case OpUJ:
		f, oc := in.applyUJ(o)
		fs = append(fs, f...)
		outcome = oc
	case OpBlockUJ:
		f1, _ := in.Apply(o.B, false)
		fs = append(fs, f1...)
		f, oc := in.applyUJ(o.UJ)
		fs = append(fs, f...)
		outcome = "block+" + oc
	default:
		panic("unknown op")
	}
	if observe {
		in.key = in.M.Key() + "|" + dump.String(in.FC, dumpOpts) + fmt.Sprintf("|calls%d broken%v", len(in.calls), in.broken)
	}
	if observe && len(fs) == 0 && !in.broken {
		fs = append(fs, in.observe(false)...)
	}
	return
}

func balVariant(cur []uint64, v string) []uint64 {
	out := append([]uint64{}, cur...)
	switch v {
	case "v0":
		if len(out) > 0 {
			if out[0] == 7 {
				out[0] = 12
			} else {
				out[0] = 7
			}
		}
	case "shrink":
		if len(out) > 0 {
			out = out[:len(out)-1]
		}
	case "grow":
		out = append(out, 9)
	}
	return out
}

func (in *Inst) applyUJ(o OpUJ) (fs []seqx.Finding, outcome string) {
	add := func(props []string, sig, msg string) {
		fs = append(fs, in.finding(props, sig, fmt.Sprintf("%s: %s", o, msg))...)
	}
	newBal := balVariant(in.M.balances, o.Bal)
	before := in.M.Clone()
	res := in.M.UpdateJustified(o.Trigger, o.J, o.F, newBal, o.Bal == "err")
	ncalls := len(in.calls)
	var err error
	pm, blocked := guard(func() {
		err = in.FC.UpdateJustified(context.Background(), toRoot(o.Trigger), toCP(o.J), toCP(o.F), func() ([]common.Gwei, error) {
			if o.Bal == "err" {
				return nil, errors.New("balances unavailable (injected)")
			}
			return gweis(newBal), nil
		})
	})
	calls := in.calls[ncalls:]
	outcome = fmt.Sprintf("uj:%s:err=%v:pruned=%d", res.Why, err != nil, len(calls))
	if blocked {
		add([]string{"C10"}, "blocks-forever/UpdateJustified", pm)
		return
	}
	if pm != "" {
		add([]string{"C10", "C09"}, "panic/UpdateJustified", pm)
		return
	}
	sinkFailed := in.failAt >= 0 && len(in.calls) > in.failAt && ncalls <= in.failAt
	if res.Err {
		if err == nil {
			add([]string{"C10"}, "refusal-missing/"+strings.ReplaceAll(res.Why, " ", "-"), "returned nil, expected an error ("+res.Why+")")
		}
	} else if err != nil && !sinkFailed {
		add([]string{"C10"}, "unexpected-error/"+strings.ReplaceAll(res.Why, " ", "-"), fmt.Sprintf("returned error %q, expected success (%s)", err, res.Why))
		return
	}
	if !res.Changed {
		// nothing may change: compare store-level getters now; queries are compared in observe().
		if len(calls) > 0 {
			add([]string{"C10"}, "prune-on-unchanged", fmt.Sprintf("sink called %d times although nothing may change (%s)", len(calls), res.Why))
		}
		_ = before
		return
	}
	// applied
	if len(res.Pruned) > 0 || len(calls) > 0 {
		in.pruned = true
	}
	const kfSig = "prune-set/conflicting-node-inserted-after-finalized-node-kept"
	exists := func(r Ref) bool {
		var got forkchoice.NodeRef
		var e error
		if pm, _ := guard(func() { got, e = in.FC.ClosestToSlot(toRoot(r.Root), common.Slot(r.Slot)) }); pm != "" {
			return false
		}
		return e == nil && Root(got.Root) == r.Root && Slot(got.Slot) == r.Slot
	}
	if sinkFailed {
		// the statement does not define the store after a sink failure beyond "returns";
		// require: an error is surfaced, every reported node was in the prune set, no duplicates.
		if err == nil {
			add([]string{"C10"}, "sink-error-swallowed", "sink failed but UpdateJustified returned nil")
		}
		// "each dropped node is reported once": a node whose report FAILED has not been reported, so it must not
		// have been dropped (it can still be delivered later); the nodes reported before it are gone.
		if rel := in.failAt - ncalls; rel >= 0 && rel < len(calls) {
			if r := calls[rel].Ref; !exists(r) {
				if _, inSet := func() (PrunedNode, bool) {
					for _, p := range res.Pruned {
						if p.Ref == r {
							return p, true
						}
					}
					return PrunedNode{}, false
				}(); inSet {
					add([]string{"C10"}, "sink-failure/refused-node-dropped", fmt.Sprintf("the sink refused node %s (call %d) but the node was dropped all the same: it is lost without ever being reported", r, in.failAt))
				}
			}
		}
		in.broken = true
	}
	exp := map[Ref]PrunedNode{}
	for _, p := range res.Pruned {
		exp[p.Ref] = p
	}
	seen := map[Ref]bool{}
	for _, c := range calls {
		p, ok := exp[c.Ref]
		if !ok {
			add([]string{"C10"}, "prune-set/retained-node-reported", fmt.Sprintf("node %s reported to the sink but it descends from the finalized node", c.Ref))
			continue
		}
		if seen[c.Ref] {
			add([]string{"C10"}, "prune-set/reported-twice", fmt.Sprintf("node %s reported twice", c.Ref))
		}
		seen[c.Ref] = true
		if p.CanonT == p.CanonF && c.Canonical != p.CanonT {
			add([]string{"C10"}, "prune-set/canonical-flag", fmt.Sprintf("node %s reported canonical=%v, expected %v", c.Ref, c.Canonical, p.CanonT))
		}
	}
	if sinkFailed {
		// the checkpoints were advanced before pruning started and the nodes that are left over are not viable: the head
		// is the model's head ("the head stays inside the finalized subtree", "later ... keep working")
		exp, st := in.M.Head(in.M.HeadAnchor())
		var got forkchoice.NodeRef
		var herr error
		if pm, _ := guard(func() { got, herr = in.FC.Head() }); pm != "" {
			add([]string{"C10"}, "sink-failure/head/panic", "Head() after the sink failure: "+pm)
		} else if c := headClass(herr); c != st {
			add([]string{"C10"}, "sink-failure/head/status-"+headClassNames[c], fmt.Sprintf("Head() after the sink failure: status %s (%v), expected %s", headClassNames[c], herr, headClassNames[st]))
		} else if st == HeadOK && (Root(got.Root) != exp.Root || Slot(got.Slot) != exp.Slot) {
			add([]string{"C10"}, "sink-failure/head/mismatch", fmt.Sprintf("Head() after the sink failure = %s@%d, LMD-GHOST winner is %s\n%s", rootName(Root(got.Root)), got.Slot, exp, in.explain()))
		}
		return
	}
	for _, p := range res.Pruned {
		if p.AfterAnchor {
			continue
		}
		if in.S.Sink != "nil" && !seen[p.Ref] {
			add([]string{"C10"}, "prune-set/not-reported", fmt.Sprintf("node %s is not a descendant of the finalized node but was not reported to the sink", p.Ref))
			break
		}
		if exists(p.Ref) {
			add([]string{"C10"}, "prune-set/not-dropped", fmt.Sprintf("node %s is not a descendant of the finalized node but is still present", p.Ref))
			break
		}
	}
	for _, p := range res.Pruned {
		if p.AfterAnchor && (exists(p.Ref) || (in.S.Sink != "nil" && !seen[p.Ref])) {
			add([]string{"C10"}, kfSig, fmt.Sprintf("node %s (inserted after the finalized node, on a conflicting branch) is not a descendant of the finalized node but was neither dropped nor reported to the sink", p.Ref))
			// model and implementation have diverged (known finding): this path is not explored further
			// under any property, whatever follows would only restate the same defect.
			in.broken = true
			break
		}
	}
	for _, r := range in.M.order {
		if !exists(r.ref) {
			add([]string{"C10"}, "prune-set/descendant-dropped", fmt.Sprintf("node %s descends from the finalized node but is gone", r.ref))
			break
		}
	}
	return
}

func headClass(err error) int {
	switch {
	case err == nil:
		return HeadOK
	case errors.Is(err, proto.UnknownAnchorErr):
		return HeadUnknownAnchor
	case errors.Is(err, proto.NoViableHeadErr):
		return HeadNoViable
	}
	return -1
}

var headClassNames = map[int]string{HeadOK: "ok", HeadUnknownAnchor: "unknown-anchor", HeadNoViable: "no-viable-head", -1: "other-error"}

func (in *Inst) headProps() []string {
	if in.pruned {
		return []string{"C09", "C10"}
	}
	return []string{"C09"}
}

func (in *Inst) checkHead(ctx string) (fs []seqx.Finding) {
	exp, st := in.M.Head(in.M.HeadAnchor())
	var got forkchoice.NodeRef
	var err error
	pm, blocked := guard(func() { got, err = in.FC.Head() })
	if pm != "" {
		sig := "panic/Head"
		if blocked {
			sig = "blocks-forever/Head"
		}
		return in.finding(in.headProps(), sig, ctx+": "+pm)
	}
	if headClass(err) != st {
		return in.finding(in.headProps(), "head/status", fmt.Sprintf("%s: Head() status %s (%v), expected %s", ctx, headClassNames[headClass(err)], err, headClassNames[st]))
	}
	if st == HeadOK && (Root(got.Root) != exp.Root || Slot(got.Slot) != exp.Slot) {
		return in.finding(in.headProps(), "head/mismatch", fmt.Sprintf("%s: Head() = %s@%d, LMD-GHOST winner is %s\n%s", ctx, rootName(Root(got.Root)), got.Slot, exp, in.explain()))
	}
	return nil
}

// explain: model weights, for messages.
func (in *Inst) explain() string {
	var sb strings.Builder
	sb.WriteString("    model tree (node<parent je/fe weight):")
	for _, n := range in.M.order {
		fmt.Fprintf(&sb, " %s<%s j%d/f%d w=%d;", n.ref, rootName(n.parentRoot), n.je, n.fe, in.M.Weight(n))
	}
	fmt.Fprintf(&sb, " votes=%v bal=%v J=%s/%d F=%s/%d", in.M.votes, in.M.balances, rootName(in.M.justified.Root), in.M.justified.Epoch, rootName(in.M.finalized.Root), in.M.finalized.Epoch)
	return sb.String()
}

func (in *Inst) queryProps() []string {
	if in.pruned {
		return []string{"C11", "C10"}
	}
	return []string{"C11"}
}

// observe evaluates every read-only query for every argument combination against the model.
// asOp: it is being run as an operation (same checks).
func (in *Inst) observe(asOp bool) (fs []seqx.Finding) {
	m := in.M
	// --- store level ---
	if !(in.S.Props["C09"] || in.S.Props["C10"]) {
		// Head() applies pending votes; the canonical-chain queries below are only defined w.r.t. applied votes
		guard(func() { in.FC.Head() })
	}
	if in.S.Props["C09"] || in.S.Props["C10"] {
		fs = append(fs, in.checkHead("after step")...)
		if len(fs) > 0 {
			return
		}
		j, f := in.FC.Justified(), in.FC.Finalized()
		if Root(j.Root) != m.justified.Root || Epoch(j.Epoch) != m.justified.Epoch || Root(f.Root) != m.finalized.Root || Epoch(f.Epoch) != m.finalized.Epoch {
			fs = append(fs, in.finding([]string{"C10"}, "store/checkpoints", fmt.Sprintf("Justified()/Finalized() = %s/%d %s/%d, expected %s/%d %s/%d",
				rootName(Root(j.Root)), j.Epoch, rootName(Root(f.Root)), f.Epoch, rootName(m.justified.Root), m.justified.Epoch, rootName(m.finalized.Root), m.finalized.Epoch))...)
		}
		p := in.FC.Pin()
		if (p == nil) != (m.pin == nil) || (p != nil && (Root(p.Root) != m.pin.Root || Slot(p.Slot) != m.pin.Slot)) {
			fs = append(fs, in.finding([]string{"C10"}, "store/pin", fmt.Sprintf("Pin() = %v, expected %v", p, m.pin))...)
		}
		// FindHead from every node: the LMD-GHOST walk from any starting node
		for _, n := range m.order {
			exp, st := m.Head(n.ref)
			var got forkchoice.NodeRef
			var err error
			pm, _ := guard(func() { got, err = in.FC.FindHead(toRoot(n.ref.Root), common.Slot(n.ref.Slot)) })
			if pm != "" {
				fs = append(fs, in.finding(in.headProps(), "panic/FindHead", fmt.Sprintf("FindHead(%s): %s", n.ref, pm))...)
				return
			}
			if headClass(err) != st {
				fs = append(fs, in.finding(in.headProps(), "findhead/status", fmt.Sprintf("FindHead(%s) status %s (%v), expected %s\n%s", n.ref, headClassNames[headClass(err)], err, headClassNames[st], in.explain()))...)
				return
			}
			if st == HeadOK && (Root(got.Root) != exp.Root || Slot(got.Slot) != exp.Slot) {
				fs = append(fs, in.finding(in.headProps(), "findhead/mismatch", fmt.Sprintf("FindHead(%s) = %s@%d, LMD-GHOST winner is %s\n%s", n.ref, rootName(Root(got.Root)), got.Slot, exp, in.explain()))...)
				return
			}
		}
		if in.S.Props["C10"] && m.finalized.Epoch > 0 {
			// the head stays inside the finalized subtree
			if h, st := m.Head(m.HeadAnchor()); st == HeadOK {
				if unk, inn := m.rootInSubtree(m.finalized.Root, h.Root); unk || !inn {
					panic("model: head outside finalized subtree")
				}
			}
		}
	}
	if !(in.S.Props["C11"] || (in.S.Props["C10"] && in.pruned)) {
		return
	}
	qp := in.queryProps()
	addq := func(sig, msg string) { fs = append(fs, in.finding(qp, sig, msg)...) }
	roots := append(m.KnownRoots(), RU)
	// pruned / never inserted names are in the pool too
	for _, r := range pool {
		if _, ok := m.first[r]; !ok {
			roots = append(roots, r)
		}
	}
	if _, ok := m.first[RA]; !ok {
		roots = append(roots, RA)
	}
	maxSlot := m.Maxslot() + 2
	// GetSlot
	for _, r := range roots {
		es, eok := m.GetSlot(r)
		var gs common.Slot
		var gok bool
		if pm, _ := guard(func() { gs, gok = in.FC.GetSlot(toRoot(r)) }); pm != "" {
			addq("panic/GetSlot", fmt.Sprintf("GetSlot(%s): %s", rootName(r), pm))
			return
		}
		if gok != eok || (eok && Slot(gs) != es) {
			addq("GetSlot", fmt.Sprintf("GetSlot(%s) = (%d,%v), expected (%d,%v)", rootName(r), gs, gok, es, eok))
		}
	}
	// InSubtree
	for _, a := range roots {
		for _, r := range roots {
			eu, ei := m.rootInSubtree(a, r)
			if a == r {
				if _, known := m.first[a]; !known {
					continue // documented shortcut "equal roots count as in-subtree"; left open for unknown roots
				}
				eu, ei = false, true
			}
			var gu, gi bool
			if pm, _ := guard(func() { gu, gi = in.FC.InSubtree(toRoot(a), toRoot(r)) }); pm != "" {
				addq("panic/InSubtree", fmt.Sprintf("InSubtree(%s,%s): %s", rootName(a), rootName(r), pm))
				return
			}
			if gu != eu || (!eu && gi != ei) {
				addq("InSubtree", fmt.Sprintf("InSubtree(anchor=%s,root=%s) = (unknown=%v,in=%v), expected (%v,%v)\n%s", rootName(a), rootName(r), gu, gi, eu, ei, in.explain()))
			}
		}
	}
	// ClosestToSlot
	for _, r := range roots {
		for s := Slot(0); s <= maxSlot; s++ {
			exp, eok := m.ClosestToSlot(r, s)
			var got forkchoice.NodeRef
			var err error
			if pm, _ := guard(func() { got, err = in.FC.ClosestToSlot(toRoot(r), common.Slot(s)) }); pm != "" {
				addq("panic/ClosestToSlot", fmt.Sprintf("ClosestToSlot(%s,%d): %s", rootName(r), s, pm))
				return
			}
			if (err == nil) != eok || (eok && (Root(got.Root) != exp.Root || Slot(got.Slot) != exp.Slot)) {
				addq("ClosestToSlot", fmt.Sprintf("ClosestToSlot(%s,%d) = (%s@%d, err=%v), expected (%s, ok=%v)", rootName(r), s, rootName(Root(got.Root)), got.Slot, err, exp, eok))
			}
		}
	}
	// CanonicalChain from every node (+ unknown anchors)
	anchors := []Ref{}
	for _, n := range m.order {
		anchors = append(anchors, n.ref)
	}
	anchors = append(anchors, Ref{RU, 1}, Ref{RA, maxSlot})
	for _, a := range anchors {
		exp, st := m.CanonicalChain(a)
		var got []forkchoice.ExtendedNodeRef
		var err error
		if pm, _ := guard(func() { got, err = in.FC.CanonicalChain(toRoot(a.Root), common.Slot(a.Slot)) }); pm != "" {
			addq("panic/CanonicalChain", fmt.Sprintf("CanonicalChain(%s): %s", a, pm))
			return
		}
		if (err == nil) != (st == HeadOK) {
			addq("CanonicalChain/status", fmt.Sprintf("CanonicalChain(%s) err=%v, expected status %s", a, err, headClassNames[st]))
			continue
		}
		if st != HeadOK {
			continue
		}
		ok := len(got) == len(exp)
		for i := 0; ok && i < len(got); i++ {
			ok = Root(got[i].Root) == exp[i].ref.Root && Slot(got[i].Slot) == exp[i].ref.Slot && Root(got[i].ParentRoot) == exp[i].parentRoot
		}
		if !ok {
			var gs, es []string
			for _, g := range got {
				gs = append(gs, fmt.Sprintf("%s@%d", rootName(Root(g.Root)), g.Slot))
			}
			for _, e := range exp {
				es = append(es, e.ref.String())
			}
			addq("CanonicalChain", fmt.Sprintf("CanonicalChain(%s) = %v, expected (head back to and including the anchor) %v", a, gs, es))
		}
	}
	// CanonAtSlot
	for _, r := range roots {
		for s := Slot(0); s <= maxSlot; s++ {
			for _, wb := range []bool{false, true} {
				exp, kind := in.canonAtSlot(r, s, wb)
				var got forkchoice.NodeRef
				var err error
				if pm, _ := guard(func() { got, err = in.FC.CanonAtSlot(toRoot(r), common.Slot(s), wb) }); pm != "" {
					addq("panic/CanonAtSlot", fmt.Sprintf("CanonAtSlot(%s,%d,%v): %s", rootName(r), s, wb, pm))
					return
				}
				switch kind {
				case casOpen:
				case casErr:
					if err == nil {
						addq("CanonAtSlot/error-expected", fmt.Sprintf("CanonAtSlot(%s,%d,withBlock=%v) = %s@%d without error, expected an error", rootName(r), s, wb, rootName(Root(got.Root)), got.Slot))
					}
				case casRef:
					if err != nil || Root(got.Root) != exp.Root || Slot(got.Slot) != exp.Slot {
						addq("CanonAtSlot", fmt.Sprintf("CanonAtSlot(%s,%d,withBlock=%v) = (%s@%d, err=%v), expected %s\n%s", rootName(r), s, wb, rootName(Root(got.Root)), got.Slot, err, exp, in.explain()))
					}
				case casEmpty:
					if err != nil || got != (forkchoice.NodeRef{}) {
						addq("CanonAtSlot/empty-slot", fmt.Sprintf("CanonAtSlot(%s,%d,withBlock=true) = (%s@%d, err=%v), expected the zero ref (empty slot)", rootName(r), s, rootName(Root(got.Root)), got.Slot, err))
					}
				}
			}
		}
	}
	// Search
	for _, a := range anchors {
		an, known := m.nodes[a]
		if known {
			// a pre-block slot node with a block at its own slot: whether that block counts as inside
			// the anchor's subtree is not defined by the comments; such anchors are not queried.
			amb := false
			for _, c := range m.tchildren(an) {
				amb = amb || c.ref.Slot == an.ref.Slot
			}
			if amb {
				continue
			}
		}
		type filt struct {
			pf *Root
			sf *Slot
		}
		combos := []filt{{nil, nil}}
		for i := range roots {
			combos = append(combos, filt{&roots[i], nil})
		}
		for sl := Slot(0); sl <= maxSlot; sl++ {
			x := sl
			combos = append(combos, filt{nil, &x})
		}
		for _, n := range m.order {
			if n.isBlock() {
				pr, sl, sl2 := n.parentRoot, n.ref.Slot, n.ref.Slot+1
				combos = append(combos, filt{&pr, &sl}, filt{&pr, &sl2})
			}
		}
		for _, cb := range combos {
			{
				pf, sf := cb.pf, cb.sf
				var gn, gc []forkchoice.NodeRef
				var err error
				var cpf *common.Root
				if pf != nil {
					x := toRoot(*pf)
					cpf = &x
				}
				var csf *common.Slot
				if sf != nil {
					x := common.Slot(*sf)
					csf = &x
				}
				desc := fmt.Sprintf("Search(anchor=%s,parent=%v,slot=%v)", a, optRoot(pf), optSlot(sf))
				if pm, _ := guard(func() {
					gn, gc, err = in.FC.Search(forkchoice.NodeRef{Root: toRoot(a.Root), Slot: common.Slot(a.Slot)}, cpf, csf)
				}); pm != "" {
					addq("panic/Search", desc+": "+pm)
					return
				}
				if !known {
					if err == nil {
						addq("Search/unknown-anchor", desc+": no error for an anchor that was never inserted / was pruned")
					}
					continue
				}
				_, hst := m.Head(a)
				if hst != HeadOK {
					if err == nil {
						addq("Search/status", desc+": no error although no viable head exists from this anchor")
					}
					continue
				}
				if err != nil {
					addq("Search/status", desc+fmt.Sprintf(": unexpected error %v", err))
					continue
				}
				if pf == nil && sf == nil {
					continue // "search for heads" is not part of the statement (search by parent or slot): no-panic only
				}
				en, ec := in.search(an, pf, sf)
				if !sameRefs(gn, en) || !sameRefs(gc, ec) {
					addq("Search", desc+fmt.Sprintf(" = nonCanon %s canon %s, expected nonCanon %v canon %v\n%s", fmtRefs(gn), fmtRefs(gc), en, ec, in.explain()))
				}
			}
		}
	}
	return
}

func optRoot(r *Root) string {
	if r == nil {
		return "nil"
	}
	return rootName(*r)
}
func optSlot(s *Slot) string {
	if s == nil {
		return "nil"
	}
	return fmt.Sprint(*s)
}

func fmtRefs(rs []forkchoice.NodeRef) string {
	var out []string
	for _, r := range rs {
		out = append(out, fmt.Sprintf("%s@%d", rootName(Root(r.Root)), r.Slot))
	}
	return fmt.Sprint(out)
}

func sameRefs(got []forkchoice.NodeRef, exp []Ref) bool {
	if len(got) != len(exp) {
		return false
	}
	g := make([]Ref, len(got))
	for i, x := range got {
		g[i] = Ref{Root(x.Root), Slot(x.Slot)}
	}
	e := append([]Ref{}, exp...)
	less := func(s []Ref) func(i, j int) bool {
		return func(i, j int) bool {
			if c := bytes.Compare(s[i].Root[:], s[j].Root[:]); c != 0 {
				return c < 0
			}
			return s[i].Slot < s[j].Slot
		}
	}
	sort.Slice(g, less(g))
	sort.Slice(e, less(e))
	for i := range g {
		if g[i] != e[i] {
			return false
		}
	}
	return true
}

// search: block nodes in the transition subtree of the anchor that match the filters; with no
// filter: the leaves of the block tree. canon <=> on the canonical chain from the anchor.
func (in *Inst) search(an *mnode, pf *Root, sf *Slot) (nonCanon, canon []Ref) {
	m := in.M
	chain, _ := m.CanonicalChain(an.ref)
	onChain := map[*mnode]bool{}
	for _, n := range chain {
		onChain[n] = true
	}
	for _, n := range m.order {
		if !n.isBlock() || !m.inTSubtree(an, n) {
			continue
		}
		if pf == nil && sf == nil {
			// leaf of the block tree: no block node descends from it
			leaf := true
			for _, c := range m.order {
				if c != n && c.isBlock() && m.inTSubtree(n, c) {
					leaf = false
					break
				}
			}
			if !leaf {
				continue
			}
		} else {
			if pf != nil && n.parentRoot != *pf {
				continue
			}
			if sf != nil && n.ref.Slot != *sf {
				continue
			}
		}
		if onChain[n] {
			canon = append(canon, n.ref)
		} else {
			nonCanon = append(nonCanon, n.ref)
		}
	}
	return
}

const (
	casOpen = iota
	casErr
	casRef
	casEmpty
)

// canonAtSlot per the doc comment of CanonAtSlot; cases the comment leaves open return casOpen.
func (in *Inst) canonAtSlot(r Root, s Slot, withBlock bool) (Ref, int) {
	m := in.M
	fs, ok := m.first[r]
	if !ok || s < fs {
		return Ref{}, casErr
	}
	an := m.nodes[Ref{r, fs}]
	if s == fs {
		if !withBlock {
			if an.isBlock() {
				return Ref{}, casErr // documented: pre-block data of the anchor is not available
			}
			return an.ref, casRef
		}
		if an.isBlock() {
			return an.ref, casRef
		}
		return Ref{}, casOpen // anchor is a slot node and a block is asked for: not defined by the comment
	}
	chain, st := m.CanonicalChain(an.ref)
	if st != HeadOK {
		return Ref{}, casErr
	}
	head := chain[0]
	if head.ref.Slot < s {
		return head.ref, casRef // documented: the head may be the closest we have
	}
	if head.ref.Slot == s {
		// "the head may be the closest we have" vs "a slot node / a block node is retrieved": when the
		// head sits exactly at the slot but is of the other kind the comment is ambiguous: left open.
		if head.isBlock() == withBlock {
			return head.ref, casRef
		}
		return Ref{}, casOpen
	}
	for _, n := range chain {
		if n.ref.Slot != s {
			continue
		}
		if withBlock && n.isBlock() {
			return n.ref, casRef
		}
		if !withBlock && !n.isBlock() {
			return n.ref, casRef
		}
	}
	if withBlock {
		return Ref{}, casEmpty
	}
	return Ref{}, casOpen
}
