package statex

import (
	"fmt"
	"runtime"
	"sync"
	"sync/atomic"

	"verif/internal/core"
)

type Stats struct {
	Evals, NonTrivial int64
	Uncovered         []string
}

func par(n int, f func(i int)) {
	var wg sync.WaitGroup
	var next int64 = -1
	for w := 0; w < runtime.NumCPU(); w++ {
		wg.Add(1)
		go func() {
			defer wg.Done()
			for {
				i := int(atomic.AddInt64(&next, 1))
				if i >= n {
					return
				}
				f(i)
			}
		}()
	}
	wg.Wait()
}

func opsFor(f int) []Op {
	var out []Op
	for _, o := range AllOps() {
		if o.Forks(f) {
			out = append(out, o)
		}
	}
	return out
}

// Accessors (C15a): on the all-leaves-distinct state of every fork: every getter returns what the
// bytes hold; every setter changes exactly its field (bytes == model after the op) and getters follow.
func Accessors(run *core.Run, w *World, preset string, st *Stats) {
	for f := 0; f < 6; f++ {
		h, err := w.Start(f)
		if err != nil {
			run.Report("C15/load/"+ForkNames[f], fmt.Sprintf("preset %s: the reference encoding of a %s state does not load: %v", preset, ForkNames[f], err), nil)
			continue
		}
		atomic.AddInt64(&st.Evals, 1)
		if d := w.Check(h); d != "" {
			run.Report("C15/load-state/"+ForkNames[f], fmt.Sprintf("preset %s, %s state loaded from bytes: %s", preset, ForkNames[f], d), nil)
		}
		if d := w.Getters(h); d != "" {
			run.Report("C15/getter-after-load/"+ForkNames[f], fmt.Sprintf("preset %s, %s state loaded from bytes: %s", preset, ForkNames[f], d), map[string]interface{}{"engine": "enumx", "fork": ForkNames[f]})
		}
		ops := opsFor(f)
		par(len(ops), func(i int) {
			op := &ops[i]
			h, _ := w.Start(f)
			atomic.AddInt64(&st.Evals, 1)
			atomic.AddInt64(&st.NonTrivial, 1)
			rep := func(sig, msg string) {
				run.Report("C15/"+sig+"/"+ForkNames[f]+"/"+op.Name, fmt.Sprintf("preset %s, %s state, %s: %s", preset, ForkNames[f], op.Name, msg),
					map[string]interface{}{"engine": "enumx", "fork": ForkNames[f], "op": op.Name, "preset": preset})
			}
			if m := w.Apply(h, op); m != "" {
				rep("setter-fails", m)
				return
			}
			if d := w.Check(h); d != "" {
				rep("setter", "after the call "+d)
				return
			}
			if d := w.Getters(h); d != "" {
				rep("getter-after-set", d)
			}
		})
	}
}

// Copies (C15b): A, B = Copy(A), later C = Copy(B); every sequence of <= depth steps, each step an op
// on any live state (or a copy); after EVERY step every live state must equal its never-shared twin.
func Copies(run *core.Run, w *World, preset string, depth int, st *Stats) {
	for f := 0; f < 6; f++ {
		ops := opsFor(f)
		// steps: (target, op) with target in 0..2 (2 only once created), or copy(target)
		type step struct {
			target int
			op     int // -1 = copy target
		}
		var alphabet []step
		for t := 0; t < 2; t++ {
			for i := range ops {
				alphabet = append(alphabet, step{t, i})
			}
		}
		alphabet = append(alphabet, step{1, -1}) // C = Copy(B)
		// depth 1..depth sequences; to bound cost, the first step ranges over the whole alphabet, later
		// steps over a rotating sub-alphabet of every 3rd entry plus ops on the newest state
		var seqs [][]step
		var rec func(prefix []step, d int)
		rec = func(prefix []step, d int) {
			if len(prefix) > 0 {
				seqs = append(seqs, append([]step{}, prefix...))
			}
			if d == 0 {
				return
			}
			for i, s := range alphabet {
				if len(prefix) > 0 && (i+len(prefix))%5 != 0 && s.op != -1 {
					continue
				}
				rec(append(prefix, s), d-1)
			}
		}
		rec(nil, depth)
		par(len(seqs), func(si int) {
			if run.Expired() {
				run.CapHit("copies: time budget")
				return
			}
			seq := seqs[si]
			a, err := w.Start(f)
			if err != nil {
				return
			}
			b, err := w.Copy(a)
			if err != nil {
				run.Report("C15/copy-fails/"+ForkNames[f], err.Error(), nil)
				return
			}
			live := []*Handle{a, b}
			var names []string
			for _, s := range seq {
				if s.target >= len(live) {
					return
				}
				if s.op == -1 {
					c, err := w.Copy(live[s.target])
					if err != nil {
						run.Report("C15/copy-fails/"+ForkNames[f], err.Error(), nil)
						return
					}
					live = append(live, c)
					names = append(names, fmt.Sprintf("state%d = Copy(state%d)", len(live)-1, s.target))
				} else {
					names = append(names, fmt.Sprintf("state%d.%s", s.target, ops[s.op].Name))
					if m := w.Apply(live[s.target], &ops[s.op]); m != "" {
						return // failing ops are reported by Accessors
					}
				}
				atomic.AddInt64(&st.Evals, 1)
				for k, h := range live {
					if d := w.Check(h); d != "" {
						run.Report("C15/copy-independence/"+ForkNames[f], fmt.Sprintf("preset %s, %s: state0; state1 = Copy(state0); then %v: state%d no longer equals its own content: %s", preset, ForkNames[f], names, k, d),
							map[string]interface{}{"engine": "seqx", "fork": ForkNames[f], "steps": names, "preset": preset})
						return
					}
				}
			}
			atomic.AddInt64(&st.NonTrivial, 1)
		})
	}
}

// Sequences (C05b): every sequence of <= depth mutations on one tree-backed state, with the cached
// HashTreeRoot queried after every subset of the steps (2^depth patterns: staleness depends on when
// the cache was filled); after the LAST step (and wherever queried) cached root = root of the same
// content built from scratch = SSZ root.
func Sequences(run *core.Run, w *World, preset string, depth int, st *Stats) {
	for f := 0; f < 6; f++ {
		ops := opsFor(f)
		var seqs [][]int
		var rec func(prefix []int, d int)
		rec = func(prefix []int, d int) {
			if len(prefix) > 0 {
				seqs = append(seqs, append([]int{}, prefix...))
			}
			if d == 0 {
				return
			}
			for i := range ops {
				if len(prefix) >= 2 && (i+prefix[0]+prefix[1])%4 != 0 {
					continue // third level: every 4th op (rotating with the prefix)
				}
				rec(append(prefix, i), d-1)
			}
		}
		rec(nil, depth)
		par(len(seqs), func(si int) {
			if run.Expired() {
				run.CapHit("sequences: time budget")
				return
			}
			seq := seqs[si]
			for pattern := 0; pattern < 1<<uint(len(seq)); pattern++ {
				// bit i set: query the root after step i; the last step is always queried
				if pattern&(1<<uint(len(seq)-1)) == 0 {
					continue
				}
				// also: was the root cached BEFORE the first mutation? two variants
				for _, warm := range []bool{false, true} {
					h, err := w.Start(f)
					if err != nil {
						return
					}
					if warm {
						w.Check(h)
					}
					var names []string
					ok := true
					for i, oi := range seq {
						names = append(names, ops[oi].Name)
						if m := w.Apply(h, &ops[oi]); m != "" {
							ok = false
							break
						}
						if pattern&(1<<uint(i)) != 0 {
							atomic.AddInt64(&st.Evals, 1)
							if d := w.Check(h); d != "" {
								run.Report("C05/stale-or-wrong-root/"+ForkNames[f], fmt.Sprintf("preset %s, %s state (root cached before the first mutation: %v), mutations %v, root queried after steps %b: %s", preset, ForkNames[f], warm, names, pattern, d),
									map[string]interface{}{"engine": "seqx", "fork": ForkNames[f], "steps": names, "query_pattern": pattern, "warm": warm, "preset": preset})
								ok = false
								break
							}
						}
					}
					if ok {
						atomic.AddInt64(&st.NonTrivial, 1)
					}
				}
			}
		})
	}
}
