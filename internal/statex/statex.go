// Package statex: C15 (accessors exact, copies independent) and C05(b) (no stale cached subtree after
// any mutation sequence) on the tree-backed beacon states of every fork.
//
// Every operation is a pair (real call on the zrnt view, model edit on the fork's reference struct by
// field NAME); after every step the view's Serialize bytes must equal the refssz encoding of the
// model, and the cached HashTreeRoot must equal the refssz root.
package statex

import (
	"bytes"
	"fmt"
	"reflect"

	"github.com/protolambda/zrnt/eth2/beacon/altair"
	"github.com/protolambda/zrnt/eth2/beacon/bellatrix"
	"github.com/protolambda/zrnt/eth2/beacon/capella"
	"github.com/protolambda/zrnt/eth2/beacon/common"
	"github.com/protolambda/zrnt/eth2/beacon/deneb"
	"github.com/protolambda/zrnt/eth2/beacon/electra"
	"github.com/protolambda/zrnt/eth2/beacon/phase0"
	"github.com/protolambda/ztyp/codec"
	"github.com/protolambda/ztyp/tree"
	"github.com/protolambda/ztyp/view"

	"verif/internal/refspec"
	"verif/internal/refssz"
)

var ForkNames = []string{"phase0", "altair", "bellatrix", "capella", "deneb", "electra"}

func refStateSample(f int) interface{} {
	switch f {
	case 0:
		return new(refspec.BeaconStatePhase0)
	case 1:
		return new(refspec.BeaconStateAltair)
	case 2:
		return new(refspec.BeaconStateBellatrix)
	case 3:
		return new(refspec.BeaconStateCapella)
	case 4:
		return new(refspec.BeaconStateDeneb)
	}
	return new(refspec.BeaconStateElectra)
}

func loadView(spec *common.Spec, f int, b []byte) (common.BeaconState, error) {
	dr := codec.NewDecodingReader(bytes.NewReader(b), uint64(len(b)))
	switch f {
	case 0:
		return phase0.AsBeaconStateView(phase0.BeaconStateType(spec).Deserialize(dr))
	case 1:
		return altair.AsBeaconStateView(altair.BeaconStateType(spec).Deserialize(dr))
	case 2:
		return bellatrix.AsBeaconStateView(bellatrix.BeaconStateType(spec).Deserialize(dr))
	case 3:
		return capella.AsBeaconStateView(capella.BeaconStateType(spec).Deserialize(dr))
	case 4:
		return deneb.AsBeaconStateView(deneb.BeaconStateType(spec).Deserialize(dr))
	}
	return electra.AsBeaconStateView(electra.BeaconStateType(spec).Deserialize(dr))
}

// Handle: one live state: zrnt view + its never-shared model twin.
type Handle struct {
	Fork  int
	Real  common.BeaconState
	Model reflect.Value // pointer to the fork's reference struct
}

type World struct {
	Spec *common.Spec
	P    refssz.Params
	gens [6]*refssz.Gen
}

func NewWorld(spec *common.Spec, p refssz.Params) *World {
	w := &World{Spec: spec, P: p}
	for f := 0; f < 6; f++ {
		w.gens[f] = refssz.NewGen(refStateSample(f), "", p, 64)
	}
	return w
}

// Start: the "all leaves distinct" state of the fork (3 validators, lists of 3), loaded into a view.
func (w *World) Start(f int) (*Handle, error) {
	m := w.gens[f].Distinct(uint64(1000+f), 3)
	// keep registry-shaped lists consistent in length (balances etc. have 3 entries as well: Distinct
	// gives every list 3 elements)
	b := w.gens[f].Encode(m)
	v, err := loadView(w.Spec, f, b)
	if err != nil {
		return nil, err
	}
	return &Handle{Fork: f, Real: v, Model: m}, nil
}

func realBytes(st common.BeaconState) (out []byte) {
	defer func() {
		// a state object that cannot even serialise itself (e.g. a view type that does not match its tree): the
		// caller compares against the model's bytes and reports the difference
		if r := recover(); r != nil {
			out = []byte(fmt.Sprintf("<<state cannot be serialised: %v>>", r))
		}
	}()
	var buf bytes.Buffer
	if err := st.(interface {
		Serialize(w *codec.EncodingWriter) error
	}).Serialize(codec.NewEncodingWriter(&buf)); err != nil {
		panic(err)
	}
	return buf.Bytes()
}

// Check: bytes and cached root of the view vs the model.
func (w *World) Check(h *Handle) string {
	rb := realBytes(h.Real)
	mb := w.gens[h.Fork].Encode(h.Model)
	if !bytes.Equal(rb, mb) {
		dec, err := w.gens[h.Fork].Decode(rb)
		if err != nil {
			return "the state's bytes no longer decode: " + err.Error()
		}
		return "state content differs from the model at " + firstDiff("", dec.Elem(), h.Model.Elem())
	}
	got := h.Real.HashTreeRoot(tree.GetHashFn())
	want := w.gens[h.Fork].Root(h.Model)
	if got != common.Root(want) {
		// is a from-scratch view of the same bytes right? (then the cache of the live view is stale)
		fresh, err := loadView(w.Spec, h.Fork, rb)
		if err == nil && fresh.HashTreeRoot(tree.GetHashFn()) == common.Root(want) {
			return fmt.Sprintf("STALE cached root: HashTreeRoot() = %s but the same content built from scratch has root %x", got, want)
		}
		return fmt.Sprintf("HashTreeRoot() = %s, SSZ root of the content is %x", got, want)
	}
	return ""
}

func firstDiff(path string, a, b reflect.Value) string {
	switch a.Kind() {
	case reflect.Struct:
		for i := 0; i < a.NumField(); i++ {
			if d := firstDiff(path+"."+a.Type().Field(i).Name, a.Field(i), b.Field(i)); d != "" {
				return d
			}
		}
		return ""
	case reflect.Slice:
		if a.Type().Elem().Kind() == reflect.Uint8 {
			if !bytes.Equal(a.Bytes(), b.Bytes()) {
				return fmt.Sprintf("%s: real=%x model=%x", path, a.Bytes(), b.Bytes())
			}
			return ""
		}
		if a.Len() != b.Len() {
			return fmt.Sprintf("%s.len: real=%d model=%d", path, a.Len(), b.Len())
		}
		for i := 0; i < a.Len(); i++ {
			if d := firstDiff(fmt.Sprintf("%s[%d]", path, i), a.Index(i), b.Index(i)); d != "" {
				return d
			}
		}
		return ""
	default:
		if !reflect.DeepEqual(a.Interface(), b.Interface()) {
			s1, s2 := fmt.Sprintf("%v", a.Interface()), fmt.Sprintf("%v", b.Interface())
			if a.Kind() == reflect.Array {
				s1, s2 = fmt.Sprintf("%x", a.Interface()), fmt.Sprintf("%x", b.Interface())
			}
			return fmt.Sprintf("%s: real=%s model=%s", path, s1, s2)
		}
		return ""
	}
}

// ---- model helpers (by field name: the per-fork reference structs share names)

func fld(m reflect.Value, name string) reflect.Value {
	f := m.Elem().FieldByName(name)
	if !f.IsValid() {
		panic("model has no field " + name)
	}
	return f
}
func has(m reflect.Value, name string) bool { return m.Elem().FieldByName(name).IsValid() }

func root(b byte) (r common.Root) {
	for i := range r {
		r[i] = b
	}
	return
}

// Op: one accessor/mutation.
type Op struct {
	Name  string
	Forks func(f int) bool
	Real  func(w *World, st common.BeaconState) error
	Model func(w *World, m reflect.Value)
}

func all(int) bool       { return true }
func from(k int) func(int) bool { return func(f int) bool { return f >= k } }
func only(k int) func(int) bool { return func(f int) bool { return f == k } }

const S = 0x5e_5e_5e_5e // sentinel

func cp(e uint64, b byte) (common.Checkpoint, refspec.Checkpoint) {
	return common.Checkpoint{Epoch: common.Epoch(e), Root: root(b)}, refspec.Checkpoint{Epoch: e, Root: refspec.Root(root(b))}
}

// Ops: the mutation alphabet (setters, sub-view element writes, appends, resets, whole-subtree
// replacements) with their model edits.
func Ops() []Op {
	var ops []Op
	add := func(name string, forks func(int) bool, real func(w *World, st common.BeaconState) error, model func(w *World, m reflect.Value)) {
		ops = append(ops, Op{name, forks, real, model})
	}
	add("SetGenesisTime", all, func(w *World, st common.BeaconState) error { return st.SetGenesisTime(S) }, func(w *World, m reflect.Value) { fld(m, "GenesisTime").SetUint(S) })
	add("SetGenesisValidatorsRoot", all, func(w *World, st common.BeaconState) error { return st.SetGenesisValidatorsRoot(root(0x91)) }, func(w *World, m reflect.Value) { fld(m, "GenesisValidatorsRoot").Set(reflect.ValueOf(refspec.Root(root(0x91)))) })
	add("SetSlot", all, func(w *World, st common.BeaconState) error { return st.SetSlot(S + 1) }, func(w *World, m reflect.Value) { fld(m, "Slot").SetUint(S + 1) })
	add("SetFork", all, func(w *World, st common.BeaconState) error {
		return st.SetFork(common.Fork{PreviousVersion: common.Version{1, 2, 3, 4}, CurrentVersion: common.Version{5, 6, 7, 8}, Epoch: S + 2})
	}, func(w *World, m reflect.Value) {
		fld(m, "Fork").Set(reflect.ValueOf(refspec.Fork{PreviousVersion: refspec.Version{1, 2, 3, 4}, CurrentVersion: refspec.Version{5, 6, 7, 8}, Epoch: S + 2}))
	})
	add("SetLatestBlockHeader", all, func(w *World, st common.BeaconState) error {
		h := &common.BeaconBlockHeader{Slot: S + 3, ProposerIndex: S + 4, ParentRoot: root(0x92), StateRoot: root(0x93), BodyRoot: root(0x94)}
		err := st.SetLatestBlockHeader(h)
		scribble(h)
		return err
	}, func(w *World, m reflect.Value) {
		fld(m, "LatestBlockHeader").Set(reflect.ValueOf(refspec.BeaconBlockHeader{Slot: S + 3, ProposerIndex: S + 4, ParentRoot: refspec.Root(root(0x92)), StateRoot: refspec.Root(root(0x93)), BodyRoot: refspec.Root(root(0x94))}))
	})
	for _, sl := range []uint64{0, 1, 5} {
		sl := sl
		add(fmt.Sprintf("BlockRoots.SetRoot(%d)", sl), all, func(w *World, st common.BeaconState) error {
			br, err := st.BlockRoots()
			if err != nil {
				return err
			}
			return br.SetRoot(common.Slot(sl), root(0x95))
		}, func(w *World, m reflect.Value) {
			v := fld(m, "BlockRoots")
			v.Index(int(sl % uint64(v.Len()))).Set(reflect.ValueOf(refspec.Root(root(0x95))))
		})
		add(fmt.Sprintf("StateRoots.SetRoot(%d)", sl), all, func(w *World, st common.BeaconState) error {
			br, err := st.StateRoots()
			if err != nil {
				return err
			}
			return br.SetRoot(common.Slot(sl), root(0x96))
		}, func(w *World, m reflect.Value) {
			v := fld(m, "StateRoots")
			v.Index(int(sl % uint64(v.Len()))).Set(reflect.ValueOf(refspec.Root(root(0x96))))
		})
	}
	add("HistoricalRoots.Append", all, func(w *World, st common.BeaconState) error {
		hr, err := st.HistoricalRoots()
		if err != nil {
			return err
		}
		return hr.Append(root(0x97))
	}, func(w *World, m reflect.Value) {
		v := fld(m, "HistoricalRoots")
		v.Set(reflect.Append(v, reflect.ValueOf(refspec.Root(root(0x97)))))
	})
	e1 := common.Eth1Data{DepositRoot: root(0x98), DepositCount: S + 5, BlockHash: root(0x99)}
	e1m := refspec.Eth1Data{DepositRoot: refspec.Root(root(0x98)), DepositCount: S + 5, BlockHash: refspec.Root(root(0x99))}
	add("SetEth1Data", all, func(w *World, st common.BeaconState) error { return st.SetEth1Data(e1) }, func(w *World, m reflect.Value) { fld(m, "Eth1Data").Set(reflect.ValueOf(e1m)) })
	add("Eth1DataVotes.Append", all, func(w *World, st common.BeaconState) error {
		v, err := st.Eth1DataVotes()
		if err != nil {
			return err
		}
		return v.Append(e1)
	}, func(w *World, m reflect.Value) {
		v := fld(m, "Eth1DataVotes")
		if uint64(v.Len()) < w.P["ETH1_DATA_VOTES_LIMIT"] {
			v.Set(reflect.Append(v, reflect.ValueOf(e1m)))
		}
	})
	add("Eth1DataVotes.Reset", all, func(w *World, st common.BeaconState) error {
		v, err := st.Eth1DataVotes()
		if err != nil {
			return err
		}
		return v.Reset()
	}, func(w *World, m reflect.Value) { v := fld(m, "Eth1DataVotes"); v.Set(reflect.MakeSlice(v.Type(), 0, 0)) })
	add("IncrementDepositIndex", all, func(w *World, st common.BeaconState) error { return st.IncrementDepositIndex() }, func(w *World, m reflect.Value) { v := fld(m, "Eth1DepositIndex"); v.SetUint(v.Uint() + 1) })
	// validators
	valOp := func(name string, idx int, real func(v common.Validator) error, model func(v *refspec.Validator)) {
		add(fmt.Sprintf("Validators[%d].%s", idx, name), all, func(w *World, st common.BeaconState) error {
			vals, err := st.Validators()
			if err != nil {
				return err
			}
			v, err := vals.Validator(common.ValidatorIndex(idx))
			if err != nil {
				return err
			}
			return real(v)
		}, func(w *World, m reflect.Value) {
			model(fld(m, "Validators").Index(idx).Addr().Interface().(*refspec.Validator))
		})
	}
	for _, idx := range []int{0, 2} {
		valOp("SetWithdrawalCredentials", idx, func(v common.Validator) error { return v.SetWithdrawalCredentials(root(0x9a)) }, func(v *refspec.Validator) { v.WithdrawalCredentials = refspec.Root(root(0x9a)) })
		valOp("SetEffectiveBalance", idx, func(v common.Validator) error { return v.SetEffectiveBalance(S + 6) }, func(v *refspec.Validator) { v.EffectiveBalance = S + 6 })
		valOp("MakeSlashed", idx, func(v common.Validator) error { return v.MakeSlashed() }, func(v *refspec.Validator) { v.Slashed = true })
		valOp("SetActivationEligibilityEpoch", idx, func(v common.Validator) error { return v.SetActivationEligibilityEpoch(S + 7) }, func(v *refspec.Validator) { v.ActivationEligibilityEpoch = S + 7 })
		valOp("SetActivationEpoch", idx, func(v common.Validator) error { return v.SetActivationEpoch(S + 8) }, func(v *refspec.Validator) { v.ActivationEpoch = S + 8 })
		valOp("SetExitEpoch", idx, func(v common.Validator) error { return v.SetExitEpoch(S + 9) }, func(v *refspec.Validator) { v.ExitEpoch = S + 9 })
		valOp("SetWithdrawableEpoch", idx, func(v common.Validator) error { return v.SetWithdrawableEpoch(S + 10) }, func(v *refspec.Validator) { v.WithdrawableEpoch = S + 10 })
	}
	for _, idx := range []int{0, 2} {
		idx := idx
		add(fmt.Sprintf("Balances.SetBalance(%d)", idx), all, func(w *World, st common.BeaconState) error {
			b, err := st.Balances()
			if err != nil {
				return err
			}
			return b.SetBalance(common.ValidatorIndex(idx), S+11)
		}, func(w *World, m reflect.Value) { fld(m, "Balances").Index(idx).SetUint(S + 11) })
	}
	add("SetBalances", all, func(w *World, st common.BeaconState) error { b := []common.Gwei{7, 8, 9}; err := st.SetBalances(b); scribble(b); return err }, func(w *World, m reflect.Value) { fld(m, "Balances").Set(reflect.ValueOf([]uint64{7, 8, 9})) })
	add("AddValidator", all, func(w *World, st common.BeaconState) error {
		var pk common.BLSPubkey
		pk[0], pk[47] = 0xab, 0xcd
		return st.AddValidator(w.Spec, pk, root(0x9b), 17_500_000_000)
	}, func(w *World, m reflect.Value) {
		var pk refspec.Pubkey
		pk[0], pk[47] = 0xab, 0xcd
		inc, max := uint64(w.Spec.EFFECTIVE_BALANCE_INCREMENT), uint64(w.Spec.MAX_EFFECTIVE_BALANCE)
		eff := uint64(17_500_000_000) - uint64(17_500_000_000)%inc
		if eff > max {
			eff = max
		}
		far := ^uint64(0)
		v := fld(m, "Validators")
		v.Set(reflect.Append(v, reflect.ValueOf(refspec.Validator{Pubkey: pk, WithdrawalCredentials: refspec.Root(root(0x9b)), EffectiveBalance: eff, ActivationEligibilityEpoch: far, ActivationEpoch: far, ExitEpoch: far, WithdrawableEpoch: far})))
		b := fld(m, "Balances")
		b.Set(reflect.Append(b, reflect.ValueOf(uint64(17_500_000_000))))
		for _, n := range []string{"PreviousEpochParticipation", "CurrentEpochParticipation"} {
			if has(m, n) {
				x := fld(m, n)
				x.Set(reflect.Append(x, reflect.ValueOf(uint8(0))))
			}
		}
		if has(m, "InactivityScores") {
			x := fld(m, "InactivityScores")
			x.Set(reflect.Append(x, reflect.ValueOf(uint64(0))))
		}
	})
	for _, ep := range []uint64{0, 3} {
		ep := ep
		add(fmt.Sprintf("RandaoMixes.SetRandomMix(%d)", ep), all, func(w *World, st common.BeaconState) error {
			mx, err := st.RandaoMixes()
			if err != nil {
				return err
			}
			return mx.SetRandomMix(common.Epoch(ep), root(0x9c))
		}, func(w *World, m reflect.Value) {
			v := fld(m, "RandaoMixes")
			v.Index(int(ep % uint64(v.Len()))).Set(reflect.ValueOf(refspec.Root(root(0x9c))))
		})
	}
	add("SeedRandao", all, func(w *World, st common.BeaconState) error { return st.SeedRandao(w.Spec, root(0x9d)) }, func(w *World, m reflect.Value) {
		v := fld(m, "RandaoMixes")
		for i := 0; i < v.Len(); i++ {
			v.Index(i).Set(reflect.ValueOf(refspec.Root(root(0x9d))))
		}
	})
	add("Slashings.AddSlashing(1)", all, func(w *World, st common.BeaconState) error {
		s, err := st.Slashings()
		if err != nil {
			return err
		}
		return s.AddSlashing(1, 1000)
	}, func(w *World, m reflect.Value) {
		v := fld(m, "Slashings")
		e := v.Index(1 % v.Len())
		e.SetUint(e.Uint() + 1000)
	})
	add("Slashings.ResetSlashings(2)", all, func(w *World, st common.BeaconState) error {
		s, err := st.Slashings()
		if err != nil {
			return err
		}
		return s.ResetSlashings(2)
	}, func(w *World, m reflect.Value) { v := fld(m, "Slashings"); v.Index(2 % v.Len()).SetUint(0) })
	add("SetJustificationBits", all, func(w *World, st common.BeaconState) error { return st.SetJustificationBits(common.JustificationBits{0b0101}) }, func(w *World, m reflect.Value) {
		fld(m, "JustificationBits").Set(reflect.ValueOf([]bool{true, false, true, false}))
	})
	// the epoch-rotation helper used by justification processing, through the state: shift by one, bit 3 drops out
	for _, start := range []uint8{0b1111, 0b1000, 0b0101} {
		start := start
		add(fmt.Sprintf("JustificationBits(%04b).NextEpoch", start), all, func(w *World, st common.BeaconState) error {
			if err := st.SetJustificationBits(common.JustificationBits{start}); err != nil {
				return err
			}
			jb, err := st.JustificationBits()
			if err != nil {
				return err
			}
			jb.NextEpoch()
			return st.SetJustificationBits(jb)
		}, func(w *World, m reflect.Value) {
			nb := (start << 1) & 0x0f
			fld(m, "JustificationBits").Set(reflect.ValueOf([]bool{nb&1 != 0, nb&2 != 0, nb&4 != 0, nb&8 != 0}))
		})
	}
	// a checkpoint that keeps the stored EPOCH and changes only the root (a sibling branch; the genesis checkpoint)
	for _, which := range []string{"PreviousJustifiedCheckpoint", "CurrentJustifiedCheckpoint", "FinalizedCheckpoint"} {
		which := which
		add("Set"+which+"(same epoch, other root)", all, func(w *World, st common.BeaconState) error {
			var cur common.Checkpoint
			var err error
			switch which {
			case "PreviousJustifiedCheckpoint":
				cur, err = st.PreviousJustifiedCheckpoint()
			case "CurrentJustifiedCheckpoint":
				cur, err = st.CurrentJustifiedCheckpoint()
			default:
				cur, err = st.FinalizedCheckpoint()
			}
			if err != nil {
				return err
			}
			cur.Root = root(0xa7)
			switch which {
			case "PreviousJustifiedCheckpoint":
				return st.SetPreviousJustifiedCheckpoint(cur)
			case "CurrentJustifiedCheckpoint":
				return st.SetCurrentJustifiedCheckpoint(cur)
			}
			return st.SetFinalizedCheckpoint(cur)
		}, func(w *World, m reflect.Value) {
			c := fld(m, which).Interface().(refspec.Checkpoint)
			c.Root = refspec.Root(root(0xa7))
			fld(m, which).Set(reflect.ValueOf(c))
		})
	}
	c1, c1m := cp(S+12, 0x9e)
	c2, c2m := cp(S+13, 0x9f)
	c3, c3m := cp(S+14, 0xa0)
	add("SetPreviousJustifiedCheckpoint", all, func(w *World, st common.BeaconState) error { return st.SetPreviousJustifiedCheckpoint(c1) }, func(w *World, m reflect.Value) { fld(m, "PreviousJustifiedCheckpoint").Set(reflect.ValueOf(c1m)) })
	add("SetCurrentJustifiedCheckpoint", all, func(w *World, st common.BeaconState) error { return st.SetCurrentJustifiedCheckpoint(c2) }, func(w *World, m reflect.Value) { fld(m, "CurrentJustifiedCheckpoint").Set(reflect.ValueOf(c2m)) })
	add("SetFinalizedCheckpoint", all, func(w *World, st common.BeaconState) error { return st.SetFinalizedCheckpoint(c3) }, func(w *World, m reflect.Value) { fld(m, "FinalizedCheckpoint").Set(reflect.ValueOf(c3m)) })
	// phase0 pending attestations
	add("CurrentEpochAttestations.Append", only(0), func(w *World, st common.BeaconState) error {
		v, err := st.(phase0.Phase0PendingAttestationsBeaconState).CurrentEpochAttestations()
		if err != nil {
			return err
		}
		pa := phase0.PendingAttestation{AggregationBits: phase0.AttestationBits{0b1101}, InclusionDelay: 3, ProposerIndex: 2}
		pa.Data.Slot = S
		return v.Append(pa.View(w.Spec))
	}, func(w *World, m reflect.Value) {
		v := fld(m, "CurrentEpochAttestations")
		pa := refspec.PendingAttestation{AggregationBits: []bool{true, false, true}, InclusionDelay: 3, ProposerIndex: 2}
		pa.Data.Slot = S
		v.Set(reflect.Append(v, reflect.ValueOf(pa)))
	})
	// altair+
	add("CurrentEpochParticipation.SetFlags(1)", from(1), func(w *World, st common.BeaconState) error {
		v, err := st.(altair.AltairLikeBeaconState).CurrentEpochParticipation()
		if err != nil {
			return err
		}
		return v.SetFlags(1, 0b101)
	}, func(w *World, m reflect.Value) { fld(m, "CurrentEpochParticipation").Index(1).SetUint(0b101) })
	add("PreviousEpochParticipation.SetFlags(2)", from(1), func(w *World, st common.BeaconState) error {
		v, err := st.(altair.AltairLikeBeaconState).PreviousEpochParticipation()
		if err != nil {
			return err
		}
		return v.SetFlags(2, 0b011)
	}, func(w *World, m reflect.Value) { fld(m, "PreviousEpochParticipation").Index(2).SetUint(0b011) })
	add("CurrentEpochParticipation.FillZeroes", from(1), func(w *World, st common.BeaconState) error {
		v, err := st.(altair.AltairLikeBeaconState).CurrentEpochParticipation()
		if err != nil {
			return err
		}
		vals, _ := st.Validators()
		n, _ := vals.ValidatorCount()
		return v.FillZeroes(n)
	}, func(w *World, m reflect.Value) {
		n := fld(m, "Validators").Len()
		fld(m, "CurrentEpochParticipation").Set(reflect.ValueOf(make([]uint8, n)))
	})
	add("InactivityScores.SetScore(0)", from(1), func(w *World, st common.BeaconState) error {
		v, err := st.(altair.AltairLikeBeaconState).InactivityScores()
		if err != nil {
			return err
		}
		return v.SetScore(0, S+15)
	}, func(w *World, m reflect.Value) { fld(m, "InactivityScores").Index(0).SetUint(S + 15) })
	add("RotateSyncCommittee(next=current)", from(1), func(w *World, st common.BeaconState) error {
		s := st.(common.SyncCommitteeBeaconState)
		cur, err := s.CurrentSyncCommittee()
		if err != nil {
			return err
		}
		return s.RotateSyncCommittee(cur)
	}, func(w *World, m reflect.Value) {
		// current = next; next = (old) current
		cur := fld(m, "CurrentSyncCommittee").Interface()
		fld(m, "CurrentSyncCommittee").Set(fld(m, "NextSyncCommittee"))
		fld(m, "NextSyncCommittee").Set(reflect.ValueOf(cur))
	})
	add("SetNextSyncCommittee(current)", from(1), func(w *World, st common.BeaconState) error {
		s := st.(common.SyncCommitteeBeaconState)
		cur, err := s.CurrentSyncCommittee()
		if err != nil {
			return err
		}
		return s.SetNextSyncCommittee(cur)
	}, func(w *World, m reflect.Value) { fld(m, "NextSyncCommittee").Set(fld(m, "CurrentSyncCommittee")) })
	add("SetCurrentSyncCommittee(next)", from(1), func(w *World, st common.BeaconState) error {
		s := st.(common.SyncCommitteeBeaconState)
		nx, err := s.NextSyncCommittee()
		if err != nil {
			return err
		}
		return s.SetCurrentSyncCommittee(nx)
	}, func(w *World, m reflect.Value) { fld(m, "CurrentSyncCommittee").Set(fld(m, "NextSyncCommittee")) })
	// capella+
	type wdState interface {
		SetNextWithdrawalIndex(common.WithdrawalIndex) error
		SetNextWithdrawalValidatorIndex(common.ValidatorIndex) error
		IncrementNextWithdrawalIndex() error
	}
	add("SetNextWithdrawalIndex", from(3), func(w *World, st common.BeaconState) error { return st.(wdState).SetNextWithdrawalIndex(S + 16) }, func(w *World, m reflect.Value) { fld(m, "NextWithdrawalIndex").SetUint(S + 16) })
	add("SetNextWithdrawalValidatorIndex", from(3), func(w *World, st common.BeaconState) error { return st.(wdState).SetNextWithdrawalValidatorIndex(S + 17) }, func(w *World, m reflect.Value) { fld(m, "NextWithdrawalValidatorIndex").SetUint(S + 17) })
	add("IncrementNextWithdrawalIndex", from(3), func(w *World, st common.BeaconState) error { return st.(wdState).IncrementNextWithdrawalIndex() }, func(w *World, m reflect.Value) { v := fld(m, "NextWithdrawalIndex"); v.SetUint(v.Uint() + 1) })
	add("HistoricalSummaries.Append", from(3), func(w *World, st common.BeaconState) error {
		hs, err := st.(capella.HistoricalSummariesBeaconState).HistoricalSummaries()
		if err != nil {
			return err
		}
		return hs.Append(capella.HistoricalSummary{BlockSummaryRoot: root(0xa1), StateSummaryRoot: root(0xa2)})
	}, func(w *World, m reflect.Value) {
		v := fld(m, "HistoricalSummaries")
		v.Set(reflect.Append(v, reflect.ValueOf(refspec.HistoricalSummary{BlockSummaryRoot: refspec.Root(root(0xa1)), StateSummaryRoot: refspec.Root(root(0xa2))})))
	})
	// electra scalars
	type elState interface {
		SetDepositRequestsStartIndex(view.Uint64View) error
		SetDepositBalanceToConsume(common.Gwei) error
		SetExitBalanceToConsume(common.Gwei) error
		SetEarliestExitEpoch(common.Epoch) error
		SetConsolidationBalanceToConsume(common.Gwei) error
		SetEarliestConsolidationEpoch(common.Epoch) error
	}
	add("SetDepositRequestsStartIndex", only(5), func(w *World, st common.BeaconState) error { return st.(elState).SetDepositRequestsStartIndex(S + 18) }, func(w *World, m reflect.Value) { fld(m, "DepositRequestsStartIndex").SetUint(S + 18) })
	add("SetDepositBalanceToConsume", only(5), func(w *World, st common.BeaconState) error { return st.(elState).SetDepositBalanceToConsume(S + 19) }, func(w *World, m reflect.Value) { fld(m, "DepositBalanceToConsume").SetUint(S + 19) })
	add("SetExitBalanceToConsume", only(5), func(w *World, st common.BeaconState) error { return st.(elState).SetExitBalanceToConsume(S + 20) }, func(w *World, m reflect.Value) { fld(m, "ExitBalanceToConsume").SetUint(S + 20) })
	add("SetEarliestExitEpoch", only(5), func(w *World, st common.BeaconState) error { return st.(elState).SetEarliestExitEpoch(S + 21) }, func(w *World, m reflect.Value) { fld(m, "EarliestExitEpoch").SetUint(S + 21) })
	add("SetConsolidationBalanceToConsume", only(5), func(w *World, st common.BeaconState) error { return st.(elState).SetConsolidationBalanceToConsume(S + 22) }, func(w *World, m reflect.Value) { fld(m, "ConsolidationBalanceToConsume").SetUint(S + 22) })
	add("SetEarliestConsolidationEpoch", only(5), func(w *World, st common.BeaconState) error { return st.(elState).SetEarliestConsolidationEpoch(S + 23) }, func(w *World, m reflect.Value) { fld(m, "EarliestConsolidationEpoch").SetUint(S + 23) })
	return ops
}

// payload header setters (per fork types)
func HeaderOps() []Op {
	var ops []Op
	mk := func() (common.Root, common.Root) { return root(0xb1), root(0xb2) }
	modelSet := func(m reflect.Value) {
		h := fld(m, "LatestExecutionPayloadHeader")
		a, b := mk()
		h.FieldByName("ParentHash").Set(reflect.ValueOf(refspec.Root(a)))
		h.FieldByName("StateRoot").Set(reflect.ValueOf(refspec.Root{}))
		h.FieldByName("FeeRecipient").Set(reflect.ValueOf(refspec.Address{}))
		h.FieldByName("ReceiptsRoot").Set(reflect.ValueOf(refspec.Root{}))
		h.FieldByName("LogsBloom").SetBytes(make([]byte, 256))
		h.FieldByName("PrevRandao").Set(reflect.ValueOf(refspec.Root{}))
		h.FieldByName("BlockNumber").SetUint(S + 30)
		h.FieldByName("GasLimit").SetUint(0)
		h.FieldByName("GasUsed").SetUint(0)
		h.FieldByName("Timestamp").SetUint(S + 31)
		h.FieldByName("ExtraData").SetBytes([]byte{1, 2, 3})
		h.FieldByName("BaseFeePerGas").Set(reflect.ValueOf(refspec.Root{}))
		h.FieldByName("BlockHash").Set(reflect.ValueOf(refspec.Root(b)))
		h.FieldByName("TransactionsRoot").Set(reflect.ValueOf(refspec.Root(root(0xb3))))
		if f := h.FieldByName("WithdrawalsRoot"); f.IsValid() {
			f.Set(reflect.ValueOf(refspec.Root(root(0xb4))))
		}
		if f := h.FieldByName("BlobGasUsed"); f.IsValid() {
			f.SetUint(S + 32)
			h.FieldByName("ExcessBlobGas").SetUint(S + 33)
		}
	}
	ops = append(ops, Op{"SetLatestExecutionPayloadHeader", from(2), func(w *World, st common.BeaconState) error {
		a, b := mk()
		switch s := st.(type) {
		case *bellatrix.BeaconStateView:
			h := &bellatrix.ExecutionPayloadHeader{ParentHash: a, BlockNumber: S + 30, Timestamp: S + 31, ExtraData: []byte{1, 2, 3}, BlockHash: b, TransactionsRoot: root(0xb3)}
			err := s.SetLatestExecutionPayloadHeader(h)
			scribble(h)
			return err
		case *capella.BeaconStateView:
			h := &capella.ExecutionPayloadHeader{ParentHash: a, BlockNumber: S + 30, Timestamp: S + 31, ExtraData: []byte{1, 2, 3}, BlockHash: b, TransactionsRoot: root(0xb3), WithdrawalsRoot: root(0xb4)}
			err := s.SetLatestExecutionPayloadHeader(h)
			scribble(h)
			return err
		case *deneb.BeaconStateView:
			h := &deneb.ExecutionPayloadHeader{ParentHash: a, BlockNumber: S + 30, Timestamp: S + 31, ExtraData: []byte{1, 2, 3}, BlockHash: b, TransactionsRoot: root(0xb3), WithdrawalsRoot: root(0xb4), BlobGasUsed: S + 32, ExcessBlobGas: S + 33}
			err := s.SetLatestExecutionPayloadHeader(h)
			scribble(h)
			return err
		case *electra.BeaconStateView:
			h := &deneb.ExecutionPayloadHeader{ParentHash: a, BlockNumber: S + 30, Timestamp: S + 31, ExtraData: []byte{1, 2, 3}, BlockHash: b, TransactionsRoot: root(0xb3), WithdrawalsRoot: root(0xb4), BlobGasUsed: S + 32, ExcessBlobGas: S + 33}
			err := s.SetLatestExecutionPayloadHeader(h)
			scribble(h)
			return err
		}
		return fmt.Errorf("no payload header on %T", st)
	}, func(w *World, m reflect.Value) { modelSet(m) }})
	return ops
}

func AllOps() []Op { return append(Ops(), HeaderOps()...) }

// scribble overwrites, in place, everything reachable from a value the caller handed to a setter (struct fields,
// array bytes, slice elements): the state must have taken a copy, so nothing of the state may change
// ("each setter changes that field and nothing else" — including later, through memory the caller still owns).
func scribble(p interface{}) { scribbleV(reflect.ValueOf(p)) }

func scribbleV(v reflect.Value) {
	switch v.Kind() {
	case reflect.Ptr, reflect.Interface:
		if !v.IsNil() {
			scribbleV(v.Elem())
		}
	case reflect.Struct:
		for i := 0; i < v.NumField(); i++ {
			if v.Field(i).CanSet() || v.Field(i).Kind() == reflect.Slice || v.Field(i).Kind() == reflect.Ptr {
				scribbleV(v.Field(i))
			}
		}
	case reflect.Array, reflect.Slice:
		for i := 0; i < v.Len(); i++ {
			scribbleV(v.Index(i))
		}
	case reflect.Uint8, reflect.Uint16, reflect.Uint32, reflect.Uint64, reflect.Uint:
		if v.CanSet() {
			v.SetUint(v.Uint() ^ 0xEE)
		}
	case reflect.Bool:
		if v.CanSet() {
			v.SetBool(!v.Bool())
		}
	}
}

// Getters: every getter / typed sub-view read vs the model. Returns the first mismatch.
func (w *World) Getters(h *Handle) string {
	st, m := h.Real, h.Model
	u := func(name string) uint64 { return fld(m, name).Uint() }
	bad := func(name string, got, want interface{}) string {
		return fmt.Sprintf("getter %s returns %v, the field holds %v", name, got, want)
	}
	if v, err := st.GenesisTime(); err != nil || uint64(v) != u("GenesisTime") {
		return bad("GenesisTime", v, u("GenesisTime"))
	}
	if v, err := st.Slot(); err != nil || uint64(v) != u("Slot") {
		return bad("Slot", v, u("Slot"))
	}
	if v, err := st.GenesisValidatorsRoot(); err != nil || refspec.Root(v) != fld(m, "GenesisValidatorsRoot").Interface().(refspec.Root) {
		return bad("GenesisValidatorsRoot", v, "model")
	}
	if v, err := st.Fork(); err != nil || (refspec.Fork{PreviousVersion: refspec.Version(v.PreviousVersion), CurrentVersion: refspec.Version(v.CurrentVersion), Epoch: uint64(v.Epoch)}) != fld(m, "Fork").Interface().(refspec.Fork) {
		return bad("Fork", v, fld(m, "Fork").Interface())
	}
	if v, err := st.LatestBlockHeader(); err != nil || (refspec.BeaconBlockHeader{Slot: uint64(v.Slot), ProposerIndex: uint64(v.ProposerIndex), ParentRoot: refspec.Root(v.ParentRoot), StateRoot: refspec.Root(v.StateRoot), BodyRoot: refspec.Root(v.BodyRoot)}) != fld(m, "LatestBlockHeader").Interface().(refspec.BeaconBlockHeader) {
		return bad("LatestBlockHeader", v, fld(m, "LatestBlockHeader").Interface())
	}
	br, _ := st.BlockRoots()
	sr, _ := st.StateRoots()
	mbr, msr := fld(m, "BlockRoots"), fld(m, "StateRoots")
	for i := 0; i < mbr.Len(); i++ {
		if v, err := br.GetRoot(common.Slot(i)); err != nil || refspec.Root(v) != mbr.Index(i).Interface().(refspec.Root) {
			return bad(fmt.Sprintf("BlockRoots.GetRoot(%d)", i), v, mbr.Index(i).Interface())
		}
		if v, err := sr.GetRoot(common.Slot(i)); err != nil || refspec.Root(v) != msr.Index(i).Interface().(refspec.Root) {
			return bad(fmt.Sprintf("StateRoots.GetRoot(%d)", i), v, msr.Index(i).Interface())
		}
	}
	if v, err := st.Eth1Data(); err != nil || (refspec.Eth1Data{DepositRoot: refspec.Root(v.DepositRoot), DepositCount: uint64(v.DepositCount), BlockHash: refspec.Root(v.BlockHash)}) != fld(m, "Eth1Data").Interface().(refspec.Eth1Data) {
		return bad("Eth1Data", v, fld(m, "Eth1Data").Interface())
	}
	if v, err := st.Eth1DepositIndex(); err != nil || uint64(v) != u("Eth1DepositIndex") {
		return bad("Eth1DepositIndex", v, u("Eth1DepositIndex"))
	}
	votes, _ := st.Eth1DataVotes()
	if n, err := votes.Length(); err != nil || int(n) != fld(m, "Eth1DataVotes").Len() {
		return bad("Eth1DataVotes.Length", n, fld(m, "Eth1DataVotes").Len())
	}
	vals, _ := st.Validators()
	mv := fld(m, "Validators")
	if n, err := vals.ValidatorCount(); err != nil || int(n) != mv.Len() {
		return bad("Validators.ValidatorCount", n, mv.Len())
	}
	bals, _ := st.Balances()
	for i := 0; i < mv.Len(); i++ {
		v, err := vals.Validator(common.ValidatorIndex(i))
		if err != nil {
			return bad(fmt.Sprintf("Validators.Validator(%d)", i), err, "ok")
		}
		var fl common.FlatValidator
		if err := v.Flatten(&fl); err != nil {
			return bad("Flatten", err, "ok")
		}
		mvv := mv.Index(i).Interface().(refspec.Validator)
		pk, _ := v.Pubkey()
		wc, _ := v.WithdrawalCredentials()
		ae, _ := v.ActivationEligibilityEpoch()
		got := refspec.Validator{Pubkey: refspec.Pubkey(pk), WithdrawalCredentials: refspec.Root(wc), EffectiveBalance: uint64(fl.EffectiveBalance), Slashed: fl.Slashed,
			ActivationEligibilityEpoch: uint64(ae), ActivationEpoch: uint64(fl.ActivationEpoch), ExitEpoch: uint64(fl.ExitEpoch), WithdrawableEpoch: uint64(fl.WithdrawableEpoch)}
		if got != mvv {
			return bad(fmt.Sprintf("validator %d (sub-view getters / Flatten)", i), got, mvv)
		}
		eb, _ := v.EffectiveBalance()
		sl, _ := v.Slashed()
		ac, _ := v.ActivationEpoch()
		ex, _ := v.ExitEpoch()
		wd, _ := v.WithdrawableEpoch()
		if uint64(eb) != mvv.EffectiveBalance || sl != mvv.Slashed || uint64(ac) != mvv.ActivationEpoch || uint64(ex) != mvv.ExitEpoch || uint64(wd) != mvv.WithdrawableEpoch {
			return bad(fmt.Sprintf("validator %d field getters", i), fmt.Sprint(eb, sl, ac, ex, wd), mvv)
		}
		if b, err := bals.GetBalance(common.ValidatorIndex(i)); err != nil || uint64(b) != fld(m, "Balances").Index(i).Uint() {
			return bad(fmt.Sprintf("Balances.GetBalance(%d)", i), b, fld(m, "Balances").Index(i).Uint())
		}
	}
	mixes, _ := st.RandaoMixes()
	mm := fld(m, "RandaoMixes")
	for i := 0; i < mm.Len(); i++ {
		if v, err := mixes.GetRandomMix(common.Epoch(i)); err != nil || refspec.Root(v) != mm.Index(i).Interface().(refspec.Root) {
			return bad(fmt.Sprintf("RandaoMixes.GetRandomMix(%d)", i), v, mm.Index(i).Interface())
		}
	}
	sls, _ := st.Slashings()
	ms := fld(m, "Slashings")
	var tot uint64
	for i := 0; i < ms.Len(); i++ {
		tot += ms.Index(i).Uint()
		if v, err := sls.GetSlashingsValue(common.Epoch(i)); err != nil || uint64(v) != ms.Index(i).Uint() {
			return bad(fmt.Sprintf("Slashings.GetSlashingsValue(%d)", i), v, ms.Index(i).Uint())
		}
	}
	if v, err := sls.Total(); err != nil || uint64(v) != tot {
		return bad("Slashings.Total", v, tot)
	}
	jb, _ := st.JustificationBits()
	mj := fld(m, "JustificationBits")
	for i := 0; i < 4; i++ {
		if (jb[0]>>uint(i)&1 == 1) != mj.Index(i).Bool() {
			return bad("JustificationBits", jb, mj.Interface())
		}
	}
	for name, get := range map[string]func() (common.Checkpoint, error){"PreviousJustifiedCheckpoint": st.PreviousJustifiedCheckpoint, "CurrentJustifiedCheckpoint": st.CurrentJustifiedCheckpoint, "FinalizedCheckpoint": st.FinalizedCheckpoint} {
		v, err := get()
		want := fld(m, name).Interface().(refspec.Checkpoint)
		if err != nil || uint64(v.Epoch) != want.Epoch || refspec.Root(v.Root) != want.Root {
			return bad(name, v, want)
		}
	}
	if a, ok := st.(altair.AltairLikeBeaconState); ok {
		cur, _ := a.CurrentEpochParticipation()
		prev, _ := a.PreviousEpochParticipation()
		sc, _ := a.InactivityScores()
		for i := 0; i < mv.Len(); i++ {
			if v, err := cur.GetFlags(common.ValidatorIndex(i)); err != nil || uint64(v) != fld(m, "CurrentEpochParticipation").Index(i).Uint() {
				return bad(fmt.Sprintf("CurrentEpochParticipation.GetFlags(%d)", i), v, fld(m, "CurrentEpochParticipation").Index(i).Uint())
			}
			if v, err := prev.GetFlags(common.ValidatorIndex(i)); err != nil || uint64(v) != fld(m, "PreviousEpochParticipation").Index(i).Uint() {
				return bad(fmt.Sprintf("PreviousEpochParticipation.GetFlags(%d)", i), v, fld(m, "PreviousEpochParticipation").Index(i).Uint())
			}
			if v, err := sc.GetScore(common.ValidatorIndex(i)); err != nil || v != fld(m, "InactivityScores").Index(i).Uint() {
				return bad(fmt.Sprintf("InactivityScores.GetScore(%d)", i), v, fld(m, "InactivityScores").Index(i).Uint())
			}
		}
	}
	if s, ok := st.(common.SyncCommitteeBeaconState); ok {
		for name, get := range map[string]func() (*common.SyncCommitteeView, error){"CurrentSyncCommittee": s.CurrentSyncCommittee, "NextSyncCommittee": s.NextSyncCommittee} {
			v, err := get()
			if err != nil {
				return bad(name, err, "ok")
			}
			want := refssz.Root(fld(m, name).Addr().Interface(), w.P)
			if got := v.HashTreeRoot(tree.GetHashFn()); got != common.Root(want) {
				return bad(name+" (sub-view root)", got, fmt.Sprintf("%x", want))
			}
		}
	}
	type wd interface {
		NextWithdrawalIndex() (common.WithdrawalIndex, error)
		NextWithdrawalValidatorIndex() (common.ValidatorIndex, error)
	}
	if s, ok := st.(wd); ok {
		if v, err := s.NextWithdrawalIndex(); err != nil || uint64(v) != u("NextWithdrawalIndex") {
			return bad("NextWithdrawalIndex", v, u("NextWithdrawalIndex"))
		}
		if v, err := s.NextWithdrawalValidatorIndex(); err != nil || uint64(v) != u("NextWithdrawalValidatorIndex") {
			return bad("NextWithdrawalValidatorIndex", v, u("NextWithdrawalValidatorIndex"))
		}
	}
	if s, ok := st.(*electra.BeaconStateView); ok {
		a, _ := s.DepositRequestsStartIndex()
		b, _ := s.DepositBalanceToConsume()
		c, _ := s.ExitBalanceToConsume()
		d, _ := s.EarliestExitEpoch()
		e, _ := s.ConsolidationBalanceToConsume()
		f, _ := s.EarliestConsolidationEpoch()
		got := []uint64{uint64(a), uint64(b), uint64(c), uint64(d), uint64(e), uint64(f)}
		want := []uint64{u("DepositRequestsStartIndex"), u("DepositBalanceToConsume"), u("ExitBalanceToConsume"), u("EarliestExitEpoch"), u("ConsolidationBalanceToConsume"), u("EarliestConsolidationEpoch")}
		if fmt.Sprint(got) != fmt.Sprint(want) {
			return bad("electra scalar getters (start index, deposit/exit balances, exit epoch, consolidation balance/epoch)", got, want)
		}
	}
	// execution payload header sub-view
	type hdr interface {
		HashTreeRoot(tree.HashFn) common.Root
	}
	var hv hdr
	switch s := st.(type) {
	case *bellatrix.BeaconStateView:
		hv, _ = s.LatestExecutionPayloadHeader()
	case *capella.BeaconStateView:
		hv, _ = s.LatestExecutionPayloadHeader()
	case *deneb.BeaconStateView:
		hv, _ = s.LatestExecutionPayloadHeader()
	case *electra.BeaconStateView:
		hv, _ = s.LatestExecutionPayloadHeader()
	}
	if hv != nil {
		want := refssz.Root(fld(m, "LatestExecutionPayloadHeader").Addr().Interface(), w.P)
		if got := hv.HashTreeRoot(tree.GetHashFn()); got != common.Root(want) {
			return bad("LatestExecutionPayloadHeader (sub-view root)", got, fmt.Sprintf("%x", want))
		}
	}
	if msg := w.subViews(h); msg != "" {
		return msg
	}
	return ""
}

// Copy: CopyState on the real side, deep copy of the model.
func (w *World) Copy(h *Handle) (*Handle, error) {
	st, err := h.Real.CopyState()
	if err != nil {
		return nil, err
	}
	if reflect.TypeOf(st) != reflect.TypeOf(h.Real) {
		return nil, fmt.Errorf("CopyState of a %T returns a %T: the copy is a state of another fork's type", h.Real, st)
	}
	m, err := w.gens[h.Fork].Decode(w.gens[h.Fork].Encode(h.Model))
	if err != nil {
		return nil, err
	}
	return &Handle{Fork: h.Fork, Real: st, Model: m}, nil
}

// Apply runs op on a handle (real + model); returns an error/panic description.
func (w *World) Apply(h *Handle, op *Op) (msg string) {
	defer func() {
		if r := recover(); r != nil {
			msg = fmt.Sprintf("panic: %v", r)
		}
	}()
	if err := op.Real(w, h.Real); err != nil {
		return "error: " + err.Error()
	}
	op.Model(w, h.Model)
	return ""
}


// subViews: the typed container sub-views a caller obtains from the state's own tree (checkpoints, fork, eth1 data,
// latest block header, latest execution payload header): every zero-argument reader method must return the value of
// the model field of the same name, and Raw() must serialise to the model's bytes.
func (w *World) subViews(h *Handle) string {
	cv, ok := reflect.ValueOf(h.Real).Elem().Field(0).Interface().(*view.ContainerView)
	if !ok {
		return ""
	}
	rename := map[string]string{"Random": "PrevRandao", "ReceiptRoot": "ReceiptsRoot"}
	norm := func(v reflect.Value) (string, bool) {
		switch v.Kind() {
		case reflect.Uint8, reflect.Uint16, reflect.Uint32, reflect.Uint64, reflect.Uint:
			return fmt.Sprint(v.Uint()), true
		case reflect.Bool:
			return fmt.Sprint(v.Bool()), true
		case reflect.Array:
			if v.Type().Elem().Kind() == reflect.Uint8 {
				b := make([]byte, v.Len())
				for i := range b {
					b[i] = byte(v.Index(i).Uint())
				}
				return fmt.Sprintf("%x", b), true
			}
		}
		return "", false
	}
	for i, fd := range cv.ContainerTypeDef.Fields {
		var sub interface{}
		var err error
		var modelField string
		switch fd.Name {
		case "previous_justified_checkpoint", "current_justified_checkpoint", "finalized_checkpoint":
			sub, err = common.AsCheckPoint(cv.Get(uint64(i)))
			modelField = map[string]string{"previous_justified_checkpoint": "PreviousJustifiedCheckpoint", "current_justified_checkpoint": "CurrentJustifiedCheckpoint", "finalized_checkpoint": "FinalizedCheckpoint"}[fd.Name]
		case "fork":
			sub, err = common.AsFork(cv.Get(uint64(i)))
			modelField = "Fork"
		case "eth1_data":
			sub, err = common.AsEth1Data(cv.Get(uint64(i)))
			modelField = "Eth1Data"
		case "latest_block_header":
			sub, err = common.AsBeaconBlockHeader(cv.Get(uint64(i)))
			modelField = "LatestBlockHeader"
		case "latest_execution_payload_header":
			modelField = "LatestExecutionPayloadHeader"
			switch h.Fork {
			case 2:
				sub, err = bellatrix.AsExecutionPayloadHeader(cv.Get(uint64(i)))
			case 3:
				sub, err = capella.AsExecutionPayloadHeader(cv.Get(uint64(i)))
			default:
				sub, err = deneb.AsExecutionPayloadHeader(cv.Get(uint64(i)))
			}
		default:
			continue
		}
		if err != nil {
			return fmt.Sprintf("typed sub-view of field %s cannot be obtained: %v", fd.Name, err)
		}
		mf := fld(h.Model, modelField)
		sv := reflect.ValueOf(sub)
		for mi := 0; mi < sv.NumMethod(); mi++ {
			mt := sv.Type().Method(mi)
			if mt.Type.NumIn() != 1 || mt.Type.NumOut() != 2 || mt.Type.Out(1).String() != "error" {
				continue
			}
			name := mt.Name
			outs := sv.Method(mi).Call(nil)
			if name == "Raw" {
				if !outs[1].IsNil() {
					return fmt.Sprintf("%s sub-view: Raw() fails: %v", fd.Name, outs[1].Interface())
				}
				raw := outs[0]
				if raw.Kind() != reflect.Ptr {
					p := reflect.New(raw.Type())
					p.Elem().Set(raw)
					raw = p
				}
				var buf bytes.Buffer
				var serr error
				switch x := raw.Interface().(type) {
				case interface {
					Serialize(w *codec.EncodingWriter) error
				}:
					serr = x.Serialize(codec.NewEncodingWriter(&buf))
				case interface {
					Serialize(spec *common.Spec, w *codec.EncodingWriter) error
				}:
					serr = x.Serialize(w.Spec, codec.NewEncodingWriter(&buf))
				default:
					continue
				}
				if serr != nil {
					return fmt.Sprintf("%s sub-view: Raw() does not serialise: %v", fd.Name, serr)
				}
				if want := refssz.Encode(mf.Addr().Interface(), w.P); !bytes.Equal(buf.Bytes(), want) {
					return fmt.Sprintf("%s sub-view: Raw() = %x, the field holds %x", fd.Name, buf.Bytes(), want)
				}
				continue
			}
			mname := name
			if r, ok := rename[name]; ok {
				mname = r
			}
			mfv := mf.FieldByName(mname)
			if !mfv.IsValid() {
				continue
			}
			want, ok1 := norm(mfv)
			if !ok1 {
				continue
			}
			if !outs[1].IsNil() {
				return fmt.Sprintf("%s sub-view: %s() fails (%v), the field holds %s", fd.Name, name, outs[1].Interface(), want)
			}
			got, ok2 := norm(outs[0])
			if !ok2 {
				continue
			}
			if got != want {
				return fmt.Sprintf("%s sub-view: %s() returns %s, the field holds %s", fd.Name, name, got, want)
			}
		}
	}
	return ""
}
