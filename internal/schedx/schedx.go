// Package schedx: controlled cooperative scheduler + stateless DFS over thread interleavings of the
// REAL zrnt components (through the sync shim), with iterative preemption bounding.
//
//   - logical threads are goroutines; exactly one holds the turn; the hand-off is a spin on a plain
//     variable inside //go:norace functions, so that under `-race` the detector sees ONLY the program's
//     own happens-before edges (its mutexes): a lock-discipline violation is reported even in a fully
//     serialised schedule, a correctly locked pair is not;
//   - scheduling points: every Lock/RLock of the shim (before the real operation) and every operation
//     boundary of the harness; a thread at Lock(m) is enabled iff m is free, at RLock(m) iff no writer holds m and no writer waits for it
//     holds m;
//   - per complete schedule: deadlock check (no enabled thread, some unfinished) and linearizability
//     of the recorded call/return history by brute force over all sequential orders consistent with
//     the real-time order, each executed on a fresh object.
//
// All scheduler state lives in fixed-size arrays and is touched only from //go:norace functions
// (no maps/append: the runtime's own race hooks would see them).
package schedx

import (
	"fmt"
	"runtime"
	"strings"
	"sync"
	"unsafe"

	vsync "github.com/protolambda/zrnt/eth2/verifsync"
)

const (
	maxThreads = 6
	maxMutex   = 32
	maxPoints  = 2048
	maxOps     = 8
)

const (
	pkOp = iota // operation boundary
	pkLock      // about to call Lock
	pkRLock
	pkLockWait // has called Lock while readers held the mutex: waits, and blocks new readers meanwhile
)

type Op struct {
	Name string
	Do   func(obj interface{}) string
}

type Harness struct {
	Name    string
	New     func() interface{}
	Threads [][]Op
}

type mstate struct {
	ptr     unsafe.Pointer
	writer  int // thread id or -1
	readers [maxThreads]int
}

type point struct {
	nEnabled int
	enabled  [maxThreads]int // canonical order: running thread first if enabled, then ascending ids
	chosen   int             // index into enabled
	running  int             // thread that was running when the point was reached (-1 at start)
	runningEnabled bool
}

type opRec struct {
	thread, idx  int
	name         string
	invoke, ret  int // logical clock
	result       string
	done         bool
}

type abortSignal struct{}

type Sched struct {
	h        *Harness
	n        int
	turn     int
	aborted  bool
	finished [maxThreads]bool
	nDone    int
	pendKind [maxThreads]int
	pendMu   [maxThreads]int
	atPoint  [maxThreads]bool
	mus      [maxMutex]mstate
	nMus     int
	points   [maxPoints]point
	nPoints  int
	prefix   []int
	clock    int
	ops      [maxThreads][maxOps]opRec
	deadlock bool
	diverged bool
	curOp    [maxThreads]int
	panicMsg [maxThreads]string
	tooLong  bool
	exited   [maxThreads]bool
}

//go:norace
func (s *Sched) muSlot(p unsafe.Pointer) int {
	for i := 0; i < s.nMus; i++ {
		if s.mus[i].ptr == p {
			return i
		}
	}
	if s.nMus >= maxMutex {
		panic("schedx: too many mutexes")
	}
	s.mus[s.nMus] = mstate{ptr: p, writer: -1}
	s.nMus++
	return s.nMus - 1
}

//go:norace
func (s *Sched) enabledThread(t int) bool {
	if s.finished[t] || !s.atPoint[t] {
		return false
	}
	switch s.pendKind[t] {
	case pkOp:
		return true
	case pkLock:
		// calling Lock is a step of its own: on a free mutex it acquires; while READERS hold the mutex it turns the
		// caller into a waiting writer (from then on new readers block: writer preference of sync.RWMutex). While
		// another writer holds the mutex the call changes nothing for anybody: not offered as a separate step.
		return s.mus[s.pendMu[t]].writer == -1
	case pkLockWait:
		m := &s.mus[s.pendMu[t]]
		if m.writer != -1 {
			return false
		}
		for i := 0; i < s.n; i++ {
			if m.readers[i] > 0 {
				return false
			}
		}
		return true
	case pkRLock:
		if s.mus[s.pendMu[t]].writer != -1 {
			return false
		}
		// a waiting writer blocks NEW readers, also a reader that already holds the lock and asks again (recursive
		// read locking deadlocks exactly this way)
		for u := 0; u < s.n; u++ {
			if u != t && !s.finished[u] && s.atPoint[u] && s.pendKind[u] == pkLockWait && s.pendMu[u] == s.pendMu[t] {
				return false
			}
		}
		return true
	}
	return false
}

// decide: called by the thread `me` that just reached a point (or finished: me's atPoint false).
// Picks the next thread per prefix / default (choice 0) and hands the turn over.
//
//go:norace
func (s *Sched) decide(me int) {
	for {
		if s.nPoints >= maxPoints {
			s.tooLong = true
			s.aborted = true
			return
		}
		p := &s.points[s.nPoints]
		p.nEnabled = 0
		p.running = me
		p.runningEnabled = me >= 0 && s.enabledThread(me)
		if p.runningEnabled {
			p.enabled[0] = me
			p.nEnabled = 1
		}
		for t := 0; t < s.n; t++ {
			if t != me && s.enabledThread(t) {
				p.enabled[p.nEnabled] = t
				p.nEnabled++
			}
		}
		if p.nEnabled == 0 {
			if s.nDone < s.n {
				s.deadlock = true
			}
			s.aborted = true
			return
		}
		choice := 0
		if s.nPoints < len(s.prefix) {
			choice = s.prefix[s.nPoints]
			if choice >= p.nEnabled {
				s.diverged = true
				s.aborted = true
				return
			}
		}
		p.chosen = choice
		s.nPoints++
		next := p.enabled[choice]
		if s.pendKind[next] == pkLock {
			m := &s.mus[s.pendMu[next]]
			busy := false
			for i := 0; i < s.n; i++ {
				busy = busy || m.readers[i] > 0
			}
			if busy {
				// the Lock call itself: the thread becomes a waiting writer and stays parked; decide again
				s.pendKind[next] = pkLockWait
				continue
			}
		}
		// grant: the chosen thread passes its point
		s.atPoint[next] = false
		switch s.pendKind[next] {
		case pkLock, pkLockWait:
			s.mus[s.pendMu[next]].writer = next
		case pkRLock:
			s.mus[s.pendMu[next]].readers[next]++
		}
		s.turn = next
		return
	}
}

//go:norace
func (s *Sched) waitTurn(me int) {
	for s.turn != me {
		if s.aborted {
			panic(abortSignal{})
		}
		runtime.Gosched()
	}
	if s.aborted {
		panic(abortSignal{})
	}
}

// reach: thread me arrives at a scheduling point.
//
//go:norace
func (s *Sched) reach(me, kind, mu int) {
	s.pendKind[me] = kind
	s.pendMu[me] = mu
	s.atPoint[me] = true
	s.decide(me)
	if s.aborted {
		panic(abortSignal{})
	}
	s.waitTurn(me)
}

//go:norace
func (s *Sched) current() int { return s.turn }

// ---- shim hook

type hook struct{ s *Sched }

// theHook is installed once per process (the shim's Hook variable is never written again: a later
// write would itself be a race with the readers in the shim); the scheduler it dispatches to is
// swapped through norace accessors, nil = pass-through.
var theHook = &hook{}

// Install puts the shim under schedx control for the rest of the process.
func Install() { vsync.Hook = theHook }

//go:norace
func setSched(s *Sched) { theHook.s = s }

//go:norace
func (h *hook) Acquire(p unsafe.Pointer, op int) {
	s := h.s
	if s == nil {
		return
	}
	me := s.current()
	mu := s.muSlot(p)
	if op == vsync.OpLock {
		s.reach(me, pkLock, mu)
	} else {
		s.reach(me, pkRLock, mu)
	}
}

//go:norace
func (h *hook) Release(p unsafe.Pointer, op int) {
	s := h.s
	if s == nil {
		return
	}
	me := s.current()
	if me < 0 || me >= s.n {
		return
	}
	mu := s.muSlot(p)
	if op == vsync.OpUnlock {
		s.mus[mu].writer = -1
	} else if s.mus[mu].readers[me] > 0 {
		s.mus[mu].readers[me]--
	}
}

// ---- running one execution

//go:norace
func (s *Sched) opStart(me, idx int, name string) {
	s.clock++
	s.ops[me][idx] = opRec{thread: me, idx: idx, name: name, invoke: s.clock}
}

//go:norace
func (s *Sched) opEnd(me, idx int, res string) {
	s.clock++
	s.ops[me][idx].ret = s.clock
	s.ops[me][idx].result = res
	s.ops[me][idx].done = true
}

//go:norace
func (s *Sched) threadDone(me int) {
	s.finished[me] = true
	s.nDone++
	if s.nDone < s.n {
		s.decide(-1)
	} else {
		s.turn = -2
	}
}

//go:norace
func (s *Sched) setPanic(me int, msg string) { s.panicMsg[me] = msg }

//go:norace
func (s *Sched) allQuiet() bool { return s.nDone == s.n || s.aborted }

//go:norace
func (s *Sched) markExit(me int) {
	// a thread unwound by abort also counts as gone (for the main goroutine's wait)
	s.exited[me] = true
}

func (s *Sched) thread(me int, obj interface{}) {
	defer func() {
		if r := recover(); r != nil {
			if _, ok := r.(abortSignal); !ok {
				s.setPanic(me, fmt.Sprintf("panic: %v", r))
				s.abortAll()
			}
		}
		s.markExit(me)
	}()
	s.waitTurn(me)
	for i, op := range s.h.Threads[me] {
		if i > 0 {
			s.reach(me, pkOp, 0)
		}
		s.opStart(me, i, op.Name)
		res := op.Do(obj)
		s.opEnd(me, i, res)
	}
	s.threadDone(me)
}

//go:norace
func (s *Sched) abortAll() { s.aborted = true }

//go:norace
func (s *Sched) allExited() bool {
	for t := 0; t < s.n; t++ {
		if !s.exited[t] {
			return false
		}
	}
	return true
}

// Execution: what one run produced.
type Execution struct {
	Choices   []int
	Points    []PointInfo
	Deadlock  bool
	Diverged  bool
	TooLong   bool
	Panic     string
	History   []OpResult
	Blocked   []string // for deadlocks: what every unfinished thread waits for
}

type PointInfo struct {
	NEnabled       int
	Chosen         int
	RunningEnabled bool
}

type OpResult struct {
	Thread, Idx int
	Name        string
	Invoke, Ret int
	Result      string
	Done        bool
}

// Run executes the harness under the given choice prefix (then always choice 0).
func Run(h *Harness, prefix []int) *Execution {
	s := &Sched{h: h, n: len(h.Threads), prefix: prefix, turn: -1}
	if s.n > maxThreads {
		panic("schedx: too many threads")
	}
	setSched(nil)
	obj := h.New()
	setSched(s)
	// all threads start at an op-boundary point
	for t := 0; t < s.n; t++ {
		s.pendKind[t] = pkOp
		s.atPoint[t] = true
	}
	// thread exit -> main is a REAL happens-before edge (WaitGroup): main reads the recorded results,
	// and the next execution's threads must be ordered after this execution's. It creates no edge
	// BETWEEN the threads of one execution.
	var wg sync.WaitGroup
	for t := 0; t < s.n; t++ {
		wg.Add(1)
		go func(t int) {
			defer wg.Done()
			s.thread(t, obj)
		}(t)
	}
	s.start()
	wg.Wait()
	setSched(nil)
	return s.result()
}

//go:norace
func (s *Sched) start() { s.decide(-1) }

//go:norace
func (s *Sched) allExitedOrDone() bool { return s.allExited() }

//go:norace
func (s *Sched) result() *Execution {
	ex := &Execution{Deadlock: s.deadlock, Diverged: s.diverged, TooLong: s.tooLong}
	for i := 0; i < s.nPoints; i++ {
		p := &s.points[i]
		ex.Choices = append(ex.Choices, p.chosen)
		ex.Points = append(ex.Points, PointInfo{p.nEnabled, p.chosen, p.runningEnabled})
	}
	for t := 0; t < s.n; t++ {
		if s.panicMsg[t] != "" {
			ex.Panic += fmt.Sprintf("thread %d: %s; ", t, s.panicMsg[t])
		}
		for i := range s.h.Threads[t] {
			o := s.ops[t][i]
			if o.invoke == 0 {
				continue
			}
			ex.History = append(ex.History, OpResult{t, i, o.name, o.invoke, o.ret, o.result, o.done})
		}
		if s.deadlock && !s.finished[t] {
			what := "?"
			switch s.pendKind[t] {
			case pkLock, pkLockWait:
				what = fmt.Sprintf("Lock(mutex#%d held by writer=%d readers=%v)", s.pendMu[t], s.mus[s.pendMu[t]].writer, s.mus[s.pendMu[t]].readers[:s.n])
			case pkRLock:
				what = fmt.Sprintf("RLock(mutex#%d held by writer=%d)", s.pendMu[t], s.mus[s.pendMu[t]].writer)
			}
			ex.Blocked = append(ex.Blocked, fmt.Sprintf("thread %d in %s waits for %s", t, s.curName(t), what))
		}
	}
	return ex
}

//go:norace
func (s *Sched) curName(t int) string {
	last := ""
	for i := range s.h.Threads[t] {
		if s.ops[t][i].invoke != 0 {
			last = s.ops[t][i].name
		}
	}
	return last
}

// Sequential: runs the ops in the given order on a fresh object without the scheduler.
func Sequential(h *Harness, order [][2]int) []string {
	setSched(nil)
	obj := h.New()
	out := make([]string, len(order))
	for i, o := range order {
		out[i] = h.Threads[o[0]][o[1]].Do(obj)
	}
	return out
}

// Linearizable: is the history explained by some sequential order consistent with real time?
func Linearizable(h *Harness, hist []OpResult) (bool, string) {
	n := len(hist)
	used := make([]bool, n)
	order := make([]int, 0, n)
	var tried []string
	var rec func() bool
	rec = func() bool {
		if len(order) == n {
			ord := make([][2]int, n)
			for i, k := range order {
				ord[i] = [2]int{hist[k].Thread, hist[k].Idx}
			}
			res := Sequential(h, ord)
			ok := true
			var desc []string
			for i, k := range order {
				desc = append(desc, fmt.Sprintf("%s=%s", hist[k].Name, res[i]))
				if res[i] != hist[k].Result {
					ok = false
				}
			}
			if !ok && len(tried) < 24 {
				tried = append(tried, strings.Join(desc, " ; "))
			}
			return ok
		}
		for k := 0; k < n; k++ {
			if used[k] {
				continue
			}
			// real-time order: every op that returned before k was invoked must already be placed
			okRT := true
			for j := 0; j < n; j++ {
				if !used[j] && j != k && hist[j].Ret < hist[k].Invoke {
					okRT = false
					break
				}
			}
			if !okRT {
				continue
			}
			used[k] = true
			order = append(order, k)
			if rec() {
				return true
			}
			order = order[:len(order)-1]
			used[k] = false
		}
		return false
	}
	if rec() {
		return true, ""
	}
	return false, strings.Join(tried, "\n      ")
}
