package schedx

import (
	"fmt"
	"strings"
)

type Stats struct {
	Schedules   int64
	Points      int64
	Outcomes    map[string]int
	BoundDone   int
	Capped      bool
}

type Violation struct {
	Kind     string // deadlock | non-linearizable | panic | divergence
	Msg      string
	Schedule []int
	History  []OpResult
}

// Explore enumerates every schedule of h with at most `bound` preemptions (iterating 0..bound).
// announce (optional) is called with the choice prefix before every execution (crash attribution).
func Explore(h *Harness, bound int, maxSchedules int64, announce func(prefix []int), expired func() bool) (Stats, []Violation) {
	st := Stats{Outcomes: map[string]int{}}
	var viols []Violation
	seenViol := map[string]bool{}
	for b := 0; b <= bound; b++ {
		// stateless DFS with exact bound b... we explore "<= b" from scratch only for b == bound to
		// keep it simple: iterate so that the first counter-example has the fewest preemptions
		st2 := Stats{Outcomes: map[string]int{}}
		capped := false
		var rec func(prefix []int)
		rec = func(prefix []int) {
			if capped {
				return
			}
			if st2.Schedules >= maxSchedules || (expired != nil && expired()) {
				capped = true
				return
			}
			if announce != nil {
				announce(prefix)
			}
			ex := Run(h, prefix)
			st2.Schedules++
			st2.Points += int64(len(ex.Points))
			if ex.Diverged {
				viols = append(viols, Violation{Kind: "divergence", Msg: "replaying a recorded prefix met a different set of enabled threads (nondeterminism not under control)", Schedule: prefix})
				capped = true
				return
			}
			check(h, ex, &st2, &viols, seenViol)
			// branch
			pre := 0
			for i := 0; i < len(ex.Points); i++ {
				p := ex.Points[i]
				if i >= len(prefix) {
					for alt := 1; alt < p.NEnabled; alt++ {
						cost := pre
						if p.RunningEnabled {
							cost++
						}
						if cost > b {
							continue
						}
						np := append(append([]int{}, ex.Choices[:i]...), alt)
						rec(np)
					}
				}
				if p.RunningEnabled && p.Chosen != 0 {
					pre++
				}
			}
		}
		rec(nil)
		st = st2
		st.BoundDone = b
		st.Capped = capped
		if capped || len(viols) > 0 {
			break
		}
	}
	return st, viols
}

func check(h *Harness, ex *Execution, st *Stats, viols *[]Violation, seen map[string]bool) {
	add := func(kind, msg string) {
		key := kind + "/" + strings.SplitN(msg, "\n", 2)[0]
		if seen[key] || len(*viols) > 20 {
			return
		}
		seen[key] = true
		*viols = append(*viols, Violation{Kind: kind, Msg: msg, Schedule: ex.Choices, History: ex.History})
	}
	if ex.Panic != "" {
		add("panic", ex.Panic)
		return
	}
	if ex.TooLong {
		add("too-long", "execution exceeded the scheduling-point horizon (livelock?)")
		return
	}
	if ex.Deadlock {
		add("deadlock", "no thread can make progress: "+strings.Join(ex.Blocked, "; "))
		return
	}
	var parts []string
	for _, o := range ex.History {
		parts = append(parts, fmt.Sprintf("t%d.%s=%s", o.Thread, o.Name, o.Result))
	}
	// real-time order is part of the outcome: rank of every invoke/return event
	for _, o := range ex.History {
		for _, p := range ex.History {
			if o.Ret < p.Invoke {
				parts = append(parts, fmt.Sprintf("%d.%d<%d.%d", o.Thread, o.Idx, p.Thread, p.Idx))
			}
		}
	}
	out := strings.Join(parts, " | ")
	st.Outcomes[out]++
	if st.Outcomes[out] > 1 {
		return // this outcome was already explained by a sequential order
	}
	ok, tried := Linearizable(h, ex.History)
	if !ok {
		add("non-linearizable", fmt.Sprintf("results %s are not explained by any sequential order of the same calls; sequential orders give:\n      %s", out, tried))
	}
}
