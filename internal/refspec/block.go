package refspec

import (
	"fmt"

	"verif/internal/refssz"
)

func must(cond bool, what string) {
	if !cond {
		panic(specErr(what))
	}
}

var InfinitySignature = func() (s Signature) { s[0] = 0xc0; return }()

// ---------------------------------------------------------------- process_block

func (env *Env) ProcessBlock(s *State, b *Block) {
	must(b.F == s.F, "block fork differs from state fork")
	env.processBlockHeader(s, b)
	if s.F >= Capella {
		env.processWithdrawals(s, &b.Body.ExecutionPayload)
	}
	if s.F >= Bellatrix {
		if s.F >= Capella || env.isExecutionEnabled(s, b) {
			env.processExecutionPayload(s, b)
		}
	}
	env.processRandao(s, b)
	env.processEth1Data(s, b)
	env.processOperations(s, b)
	if s.F >= Altair {
		env.processSyncAggregate(s, &b.Body.SyncAggregate)
	}
}

func (env *Env) processBlockHeader(s *State, b *Block) {
	c := env.C
	must(b.Slot == s.Slot, "block.slot == state.slot")
	must(b.Slot > s.LatestBlockHeader.Slot, "block.slot > latest_block_header.slot")
	must(b.ProposerIndex == s.ProposerIndex(c), "block.proposer_index == get_beacon_proposer_index(state)")
	must(b.ParentRoot == refssz.Root(&s.LatestBlockHeader, nil), "block.parent_root == hash_tree_root(latest_block_header)")
	s.LatestBlockHeader = BeaconBlockHeader{Slot: b.Slot, ProposerIndex: b.ProposerIndex, ParentRoot: b.ParentRoot, BodyRoot: b.BodyRoot(c)}
	must(!s.Validators[b.ProposerIndex].Slashed, "proposer is not slashed")
}

func (env *Env) processRandao(s *State, b *Block) {
	c := env.C
	epoch := s.CurrentEpoch(c)
	prop := &s.Validators[s.ProposerIndex(c)]
	type ep struct{ E uint64 }
	sr := SigningRoot(refssz.Root(&ep{epoch}, nil), s.Domain(c, DomainRandao, epoch))
	must(env.Verify([]Pubkey{prop.Pubkey}, sr, b.Body.RandaoReveal), "randao reveal signature")
	h := hash(b.Body.RandaoReveal[:])
	mix := s.RandaoMix(c, epoch)
	for i := range mix {
		mix[i] ^= h[i]
	}
	s.RandaoMixes[epoch%c.EpochsPerHistoricalVector] = mix
}

func (env *Env) processEth1Data(s *State, b *Block) {
	c := env.C
	s.Eth1DataVotes = append(s.Eth1DataVotes, b.Body.Eth1Data)
	cnt := uint64(0)
	for _, v := range s.Eth1DataVotes {
		if v == b.Body.Eth1Data {
			cnt++
		}
	}
	if cnt*2 > c.EpochsPerEth1VotingPeriod*c.SlotsPerEpoch {
		s.Eth1Data = b.Body.Eth1Data
	}
}

func (env *Env) processOperations(s *State, b *Block) {
	c := env.C
	y := &b.Body
	must(uint64(len(y.ProposerSlashings)) <= c.MaxProposerSlashings && uint64(len(y.AttesterSlashings)) <= c.MaxAttesterSlashings &&
		uint64(len(y.Attestations)) <= c.MaxAttestations && uint64(len(y.Deposits)) <= c.MaxDeposits && uint64(len(y.VoluntaryExits)) <= c.MaxVoluntaryExits &&
		uint64(len(y.BLSToExecutionChanges)) <= c.MaxBLSToExecutionChanges, "operation list within its limit")
	must(uint64(len(y.Deposits)) == min64(c.MaxDeposits, sub(s.Eth1Data.DepositCount, s.Eth1DepositIndex)), "expected number of deposits")
	for i := range y.ProposerSlashings {
		env.processProposerSlashing(s, &y.ProposerSlashings[i])
	}
	for i := range y.AttesterSlashings {
		env.processAttesterSlashing(s, &y.AttesterSlashings[i])
	}
	for i := range y.Attestations {
		env.processAttestation(s, &y.Attestations[i])
	}
	for i := range y.Deposits {
		env.ProcessDeposit(s, &y.Deposits[i])
	}
	for i := range y.VoluntaryExits {
		env.processVoluntaryExit(s, &y.VoluntaryExits[i])
	}
	if s.F >= Capella {
		for i := range y.BLSToExecutionChanges {
			env.processBLSToExecutionChange(s, &y.BLSToExecutionChanges[i])
		}
	}
}

func (env *Env) processProposerSlashing(s *State, ps *ProposerSlashing) {
	c := env.C
	h1, h2 := &ps.SignedHeader1.Message, &ps.SignedHeader2.Message
	must(h1.Slot == h2.Slot, "proposer slashing: slots match")
	must(h1.ProposerIndex == h2.ProposerIndex, "proposer slashing: proposer indices match")
	must(*h1 != *h2, "proposer slashing: headers differ")
	must(h1.ProposerIndex < uint64(len(s.Validators)), "proposer slashing: proposer index in range")
	prop := &s.Validators[h1.ProposerIndex]
	must(IsSlashable(prop, s.CurrentEpoch(c)), "proposer slashing: proposer is slashable")
	for _, sh := range []*SignedBeaconBlockHeader{&ps.SignedHeader1, &ps.SignedHeader2} {
		dom := s.Domain(c, DomainBeaconProposer, c.EpochAtSlot(sh.Message.Slot))
		must(env.Verify([]Pubkey{prop.Pubkey}, SigningRoot(refssz.Root(&sh.Message, nil), dom), sh.Signature), "proposer slashing: header signature")
	}
	s.SlashValidator(c, h1.ProposerIndex, nil)
}

func (env *Env) processAttesterSlashing(s *State, as *AttesterSlashing) {
	c := env.C
	a1, a2 := &as.Attestation1, &as.Attestation2
	must(IsSlashableAttestationData(&a1.Data, &a2.Data), "attester slashing: data is slashable")
	must(env.IsValidIndexedAttestation(s, a1), "attester slashing: attestation 1 valid")
	must(env.IsValidIndexedAttestation(s, a2), "attester slashing: attestation 2 valid")
	slashedAny := false
	in2 := map[uint64]bool{}
	for _, i := range a2.AttestingIndices {
		in2[i] = true
	}
	for _, i := range a1.AttestingIndices { // sorted (validated), intersection in ascending order
		if in2[i] && IsSlashable(&s.Validators[i], s.CurrentEpoch(c)) {
			s.SlashValidator(c, i, nil)
			slashedAny = true
		}
	}
	must(slashedAny, "attester slashing: at least one validator slashed")
}

func (env *Env) processAttestation(s *State, a *Attestation) {
	c := env.C
	d := &a.Data
	must(d.Target.Epoch == s.PreviousEpoch(c) || d.Target.Epoch == s.CurrentEpoch(c), "attestation: target epoch is previous or current")
	must(d.Target.Epoch == c.EpochAtSlot(d.Slot), "attestation: target epoch matches slot")
	must(add(d.Slot, c.MinAttestationInclusionDelay) <= s.Slot, "attestation: inclusion delay")
	if s.F < Deneb {
		must(s.Slot <= add(d.Slot, c.SlotsPerEpoch), "attestation: within one epoch")
	}
	must(d.Index < s.CommitteeCountPerSlot(c, d.Target.Epoch), "attestation: committee index in range")
	comm := s.BeaconCommittee(c, d.Slot, d.Index)
	must(len(a.AggregationBits) == len(comm), "attestation: bitfield length equals committee size")
	if s.F == Phase0 {
		pa := PendingAttestation{AggregationBits: a.AggregationBits, Data: *d, InclusionDelay: s.Slot - d.Slot, ProposerIndex: s.ProposerIndex(c)}
		if d.Target.Epoch == s.CurrentEpoch(c) {
			must(d.Source == s.CurrentJustifiedCheckpoint, "attestation: source is the current justified checkpoint")
			s.CurrentEpochAttestations = append(s.CurrentEpochAttestations, pa)
		} else {
			must(d.Source == s.PreviousJustifiedCheckpoint, "attestation: source is the previous justified checkpoint")
			s.PreviousEpochAttestations = append(s.PreviousEpochAttestations, pa)
		}
		ia := IndexedAttestation{AttestingIndices: s.AttestingIndices(c, d, a.AggregationBits), Data: *d, Signature: a.Signature}
		must(env.IsValidIndexedAttestation(s, &ia), "attestation: valid indexed attestation")
		return
	}
	flags := env.participationFlagIndices(s, d, s.Slot-d.Slot)
	ia := IndexedAttestation{AttestingIndices: s.AttestingIndices(c, d, a.AggregationBits), Data: *d, Signature: a.Signature}
	must(env.IsValidIndexedAttestation(s, &ia), "attestation: valid indexed attestation")
	part := s.PreviousEpochParticipation
	if d.Target.Epoch == s.CurrentEpoch(c) {
		part = s.CurrentEpochParticipation
	}
	var numer uint64
	for _, i := range ia.AttestingIndices {
		for fi, w := range ParticipationFlagWeights {
			set := false
			for _, f := range flags {
				set = set || f == uint(fi)
			}
			if set && !hasFlag(part[i], uint(fi)) {
				part[i] |= 1 << uint(fi)
				numer = add(numer, mul(s.baseRewardAltair(c, i), w))
			}
		}
	}
	den := (WeightDenominator - ProposerWeight) * WeightDenominator / ProposerWeight
	s.IncreaseBalance(s.ProposerIndex(c), numer/uint64(den))
}

func (env *Env) participationFlagIndices(s *State, d *AttestationData, delay uint64) []uint {
	c := env.C
	var just Checkpoint
	if d.Target.Epoch == s.CurrentEpoch(c) {
		just = s.CurrentJustifiedCheckpoint
	} else {
		just = s.PreviousJustifiedCheckpoint
	}
	matchSource := d.Source == just
	matchTarget := matchSource && d.Target.Root == s.BlockRoot(c, d.Target.Epoch)
	matchHead := matchTarget && d.BeaconBlockRoot == s.BlockRootAtSlot(c, d.Slot)
	must(matchSource, "attestation: source matches the justified checkpoint")
	var out []uint
	if matchSource && delay <= isqrt(c.SlotsPerEpoch) {
		out = append(out, TimelySourceFlagIndex)
	}
	if s.F >= Deneb {
		if matchTarget {
			out = append(out, TimelyTargetFlagIndex)
		}
	} else if matchTarget && delay <= c.SlotsPerEpoch {
		out = append(out, TimelyTargetFlagIndex)
	}
	if matchHead && delay == c.MinAttestationInclusionDelay {
		out = append(out, TimelyHeadFlagIndex)
	}
	return out
}

func (env *Env) newValidator(d *DepositData) Validator {
	c := env.C
	return Validator{Pubkey: d.Pubkey, WithdrawalCredentials: d.WithdrawalCredentials, ActivationEligibilityEpoch: FarFutureEpoch, ActivationEpoch: FarFutureEpoch,
		ExitEpoch: FarFutureEpoch, WithdrawableEpoch: FarFutureEpoch, EffectiveBalance: min64(d.Amount-d.Amount%c.EffectiveBalanceIncrement, c.MaxEffectiveBalance)}
}

func (env *Env) ProcessDeposit(s *State, dep *Deposit) {
	c := env.C
	must(IsValidMerkleBranch(refssz.Root(&dep.Data, nil), dep.Proof, DepositContractTreeDepth+1, s.Eth1DepositIndex, s.Eth1Data.DepositRoot), "deposit: merkle proof")
	s.Eth1DepositIndex = add(s.Eth1DepositIndex, 1)
	env.ApplyDeposit(s, &dep.Data)
	_ = c
}

func (env *Env) ApplyDeposit(s *State, d *DepositData) {
	c := env.C
	for i := range s.Validators {
		if s.Validators[i].Pubkey == d.Pubkey {
			s.IncreaseBalance(uint64(i), d.Amount)
			return
		}
	}
	msg := DepositMessage{d.Pubkey, d.WithdrawalCredentials, d.Amount}
	dom := ComputeDomain(DomainDeposit, c.GenesisForkVersion, Root{})
	if !env.Verify([]Pubkey{d.Pubkey}, SigningRoot(refssz.Root(&msg, nil), dom), d.Signature) {
		return
	}
	s.Validators = append(s.Validators, env.newValidator(d))
	s.Balances = append(s.Balances, d.Amount)
	if s.F >= Altair {
		s.PreviousEpochParticipation = append(s.PreviousEpochParticipation, 0)
		s.CurrentEpochParticipation = append(s.CurrentEpochParticipation, 0)
		s.InactivityScores = append(s.InactivityScores, 0)
	}
}

func (env *Env) processVoluntaryExit(s *State, se *SignedVoluntaryExit) {
	c := env.C
	e := &se.Message
	must(e.ValidatorIndex < uint64(len(s.Validators)), "exit: validator index in range")
	v := &s.Validators[e.ValidatorIndex]
	cur := s.CurrentEpoch(c)
	must(IsActive(v, cur), "exit: validator is active")
	must(v.ExitEpoch == FarFutureEpoch, "exit: not yet initiated")
	must(cur >= e.Epoch, "exit: not before its epoch")
	must(cur >= add(v.ActivationEpoch, c.ShardCommitteePeriod), "exit: active long enough")
	var dom Bytes32
	if s.F >= Deneb {
		dom = ComputeDomain(DomainVoluntaryExit, c.ForkVersions[Capella], s.GenesisValidatorsRoot)
	} else {
		dom = s.Domain(c, DomainVoluntaryExit, e.Epoch)
	}
	must(env.Verify([]Pubkey{v.Pubkey}, SigningRoot(refssz.Root(e, nil), dom), se.Signature), "exit: signature")
	s.InitiateValidatorExit(c, e.ValidatorIndex)
}

// ---------------- altair

func (env *Env) processSyncAggregate(s *State, sa *SyncAggregate) {
	c := env.C
	var pks []Pubkey
	for i, b := range sa.SyncCommitteeBits {
		if b {
			pks = append(pks, s.CurrentSyncCommittee.Pubkeys[i])
		}
	}
	prevSlot := max64(s.Slot, 1) - 1
	dom := s.Domain(c, DomainSyncCommittee, c.EpochAtSlot(prevSlot))
	br := s.BlockRootAtSlot(c, prevSlot)
	sr := SigningRoot(br, dom)
	// eth_fast_aggregate_verify
	if len(pks) == 0 && sa.SyncCommitteeSignature == InfinitySignature {
		// valid
	} else {
		must(env.Verify(pks, sr, sa.SyncCommitteeSignature), "sync aggregate: signature")
	}
	totalInc := s.TotalActiveBalance(c) / c.EffectiveBalanceIncrement
	totalBase := mul(s.baseRewardPerIncrement(c), totalInc)
	maxPart := totalBase * SyncRewardWeight / WeightDenominator / c.SlotsPerEpoch
	partReward := maxPart / c.SyncCommitteeSize
	propReward := partReward * ProposerWeight / (WeightDenominator - ProposerWeight)
	// committee indices by pubkey
	idxOf := map[Pubkey]uint64{}
	for i := range s.Validators {
		if _, ok := idxOf[s.Validators[i].Pubkey]; !ok {
			idxOf[s.Validators[i].Pubkey] = uint64(i)
		}
	}
	proposer := s.ProposerIndex(c)
	for i, pk := range s.CurrentSyncCommittee.Pubkeys {
		vi := idxOf[pk]
		if sa.SyncCommitteeBits[i] {
			s.IncreaseBalance(vi, partReward)
			s.IncreaseBalance(proposer, propReward)
		} else {
			s.DecreaseBalance(vi, partReward)
		}
	}
}

// ---------------- bellatrix+

func (env *Env) isExecutionEnabled(s *State, b *Block) bool {
	c := env.C
	if s.IsMergeTransitionComplete(c) {
		return true
	}
	def := DefaultPayload(c)
	blk := Block{F: s.F}
	blk.Body.ExecutionPayload = def
	return refssz.Root(payloadSSZ(s.F, &b.Body.ExecutionPayload), c.Params()) != refssz.Root(payloadSSZ(s.F, &def), c.Params())
}

// IsExecutionEnabled: is_execution_enabled(state, body) on a state that has been advanced to the block's slot.
func (env *Env) IsExecutionEnabled(s *State, b *Block) bool { return s.F >= Capella || env.isExecutionEnabled(s, b) }

func payloadSSZ(f ForkID, p *Payload) interface{} {
	switch f {
	case Bellatrix:
		x := plBellatrix(*p)
		return &x
	case Capella:
		x := plCapella(*p)
		return &x
	}
	return p
}

func KZGCommitmentToVersionedHash(cm Pubkey) Bytes32 {
	h := hash(cm[:])
	h[0] = 0x01
	return h
}

func (env *Env) processExecutionPayload(s *State, b *Block) {
	c := env.C
	p := &b.Body.ExecutionPayload
	if s.F >= Capella || s.IsMergeTransitionComplete(c) {
		must(p.ParentHash == s.LatestExecutionPayloadHeader.BlockHash, "payload: parent hash")
	}
	must(p.PrevRandao == s.RandaoMix(c, s.CurrentEpoch(c)), "payload: prev_randao")
	must(p.Timestamp == add(s.GenesisTime, mul(s.Slot, c.SecondsPerSlot)), "payload: timestamp")
	var hashes []Bytes32
	var parentRoot *Root
	if s.F >= Deneb {
		must(uint64(len(b.Body.BlobKZGCommitments)) <= c.MaxBlobsPerBlock, "payload: blob commitments within limit")
		for _, cm := range b.Body.BlobKZGCommitments {
			hashes = append(hashes, KZGCommitmentToVersionedHash(cm))
		}
		pr := s.LatestBlockHeader.ParentRoot
		parentRoot = &pr
	}
	if env.Engine != nil {
		must(env.Engine(p, hashes, parentRoot), "payload: execution engine verdict")
	}
	s.LatestExecutionPayloadHeader = PayloadHeaderOf(c, s.F, p)
}

// ---------------- capella

func hasEth1Creds(v *Validator) bool { return v.WithdrawalCredentials[0] == Eth1AddressWithdrawalPrefix }

func (s *State) ExpectedWithdrawals(c *Cfg) []Withdrawal {
	epoch := s.CurrentEpoch(c)
	wi := s.NextWithdrawalIndex
	vi := s.NextWithdrawalValidatorIndex
	var out []Withdrawal
	bound := min64(uint64(len(s.Validators)), c.MaxValidatorsPerWithdrawalsSweep)
	for k := uint64(0); k < bound; k++ {
		v := &s.Validators[vi]
		bal := s.Balances[vi]
		var addr Address
		copy(addr[:], v.WithdrawalCredentials[12:])
		if hasEth1Creds(v) && v.WithdrawableEpoch <= epoch && bal > 0 {
			out = append(out, Withdrawal{wi, vi, addr, bal})
			wi++
		} else if hasEth1Creds(v) && v.EffectiveBalance == c.MaxEffectiveBalance && bal > c.MaxEffectiveBalance {
			out = append(out, Withdrawal{wi, vi, addr, bal - c.MaxEffectiveBalance})
			wi++
		}
		if uint64(len(out)) == c.MaxWithdrawalsPerPayload {
			break
		}
		vi = (vi + 1) % uint64(len(s.Validators))
	}
	return out
}

func (env *Env) processWithdrawals(s *State, p *Payload) {
	c := env.C
	exp := s.ExpectedWithdrawals(c)
	must(len(p.Withdrawals) == len(exp), "withdrawals: count")
	for i := range exp {
		must(p.Withdrawals[i] == exp[i], "withdrawals: content")
		s.DecreaseBalance(exp[i].ValidatorIndex, exp[i].Amount)
	}
	if len(exp) > 0 {
		s.NextWithdrawalIndex = add(exp[len(exp)-1].Index, 1)
	}
	n := uint64(len(s.Validators))
	if uint64(len(exp)) == c.MaxWithdrawalsPerPayload {
		s.NextWithdrawalValidatorIndex = (exp[len(exp)-1].ValidatorIndex + 1) % n
	} else {
		s.NextWithdrawalValidatorIndex = (s.NextWithdrawalValidatorIndex + c.MaxValidatorsPerWithdrawalsSweep) % n
	}
}

func (env *Env) processBLSToExecutionChange(s *State, sc *SignedBLSToExecutionChange) {
	c := env.C
	ch := &sc.Message
	must(ch.ValidatorIndex < uint64(len(s.Validators)), "bls change: validator index in range")
	v := &s.Validators[ch.ValidatorIndex]
	must(v.WithdrawalCredentials[0] == BLSWithdrawalPrefix, "bls change: credentials have the BLS prefix")
	h := hash(ch.FromBLSPubkey[:])
	must(string(v.WithdrawalCredentials[1:]) == string(h[1:]), "bls change: credentials commit to the pubkey")
	dom := ComputeDomain(DomainBLSToExecutionChange, c.GenesisForkVersion, s.GenesisValidatorsRoot)
	must(env.Verify([]Pubkey{ch.FromBLSPubkey}, SigningRoot(refssz.Root(ch, nil), dom), sc.Signature), "bls change: signature")
	var wc Bytes32
	wc[0] = Eth1AddressWithdrawalPrefix
	copy(wc[12:], ch.ToExecutionAddress[:])
	v.WithdrawalCredentials = wc
}

// ---------------------------------------------------------------- state_transition

// StateTransition: the specification's state_transition (validate_result = validate). Returns nil
// iff the specification accepts the block; s is modified in place (discard it on error).
func (env *Env) StateTransition(s *State, sb *SignedBlock, validate bool) (err error) {
	defer func() {
		if r := recover(); r != nil {
			switch e := r.(type) {
			case specErr:
				err = e
			case overflowErr:
				err = e
			case error:
				err = fmt.Errorf("reference: invalid (%w)", e)
			default:
				panic(r)
			}
		}
	}()
	c := env.C
	b := &sb.Message
	env.processSlots(s, b.Slot, nil)
	if validate {
		must(b.ProposerIndex < uint64(len(s.Validators)), "proposer index in range")
		prop := &s.Validators[b.ProposerIndex]
		sr := SigningRoot(b.HashTreeRoot(c), s.Domain(c, DomainBeaconProposer, s.CurrentEpoch(c)))
		must(env.Verify([]Pubkey{prop.Pubkey}, sr, sb.Signature), "block signature")
	}
	env.ProcessBlock(s, b)
	if validate {
		must(b.StateRoot == s.HashTreeRoot(c), "block.state_root == hash_tree_root(state)")
	}
	return nil
}

// ProcessSlots: the specification's process_slots; afterSlot (optional) is called after each slot.
func (env *Env) ProcessSlots(s *State, slot uint64, afterSlot func(*State)) (err error) {
	defer func() {
		if r := recover(); r != nil {
			switch e := r.(type) {
			case specErr:
				err = e
			case overflowErr:
				err = e
			case error:
				err = fmt.Errorf("reference: invalid (%w)", e)
			default:
				panic(r)
			}
		}
	}()
	env.processSlots(s, slot, afterSlot)
	return nil
}
