package refspec

import (
	"fmt"

	"verif/internal/refssz"
)

// ExecutionPayloadHeader / ExecutionPayload: working forms = the deneb (superset) structs.
type PayloadHeader = ExecutionPayloadHeaderDeneb
type Payload = ExecutionPayloadDeneb

// State: working form of a beacon state of any fork (superset of fields); F selects the schema.
type State struct {
	F                            ForkID
	GenesisTime                  uint64
	GenesisValidatorsRoot        Root
	Slot                         uint64
	Fork                         Fork
	LatestBlockHeader            BeaconBlockHeader
	BlockRoots                   []Root
	StateRoots                   []Root
	HistoricalRoots              []Root
	Eth1Data                     Eth1Data
	Eth1DataVotes                []Eth1Data
	Eth1DepositIndex             uint64
	Validators                   []Validator
	Balances                     []uint64
	RandaoMixes                  []Bytes32
	Slashings                    []uint64
	PreviousEpochAttestations    []PendingAttestation // phase0
	CurrentEpochAttestations     []PendingAttestation // phase0
	PreviousEpochParticipation   []uint8              // altair+
	CurrentEpochParticipation    []uint8              // altair+
	JustificationBits            []bool
	PreviousJustifiedCheckpoint  Checkpoint
	CurrentJustifiedCheckpoint   Checkpoint
	FinalizedCheckpoint          Checkpoint
	InactivityScores             []uint64      // altair+
	CurrentSyncCommittee         SyncCommittee // altair+
	NextSyncCommittee            SyncCommittee // altair+
	LatestExecutionPayloadHeader PayloadHeader // bellatrix+
	NextWithdrawalIndex          uint64        // capella+
	NextWithdrawalValidatorIndex uint64        // capella+
	HistoricalSummaries          []HistoricalSummary
}

func hdrBellatrix(h PayloadHeader) ExecutionPayloadHeaderBellatrix {
	return ExecutionPayloadHeaderBellatrix{h.ParentHash, h.FeeRecipient, h.StateRoot, h.ReceiptsRoot, h.LogsBloom, h.PrevRandao, h.BlockNumber,
		h.GasLimit, h.GasUsed, h.Timestamp, h.ExtraData, h.BaseFeePerGas, h.BlockHash, h.TransactionsRoot}
}
func hdrCapella(h PayloadHeader) ExecutionPayloadHeaderCapella {
	return ExecutionPayloadHeaderCapella{h.ParentHash, h.FeeRecipient, h.StateRoot, h.ReceiptsRoot, h.LogsBloom, h.PrevRandao, h.BlockNumber,
		h.GasLimit, h.GasUsed, h.Timestamp, h.ExtraData, h.BaseFeePerGas, h.BlockHash, h.TransactionsRoot, h.WithdrawalsRoot}
}

// SSZ returns the fork-specific container (the schema) holding this state's content.
func (s *State) SSZ() interface{} {
	switch s.F {
	case Phase0:
		return &BeaconStatePhase0{s.GenesisTime, s.GenesisValidatorsRoot, s.Slot, s.Fork, s.LatestBlockHeader, s.BlockRoots, s.StateRoots, s.HistoricalRoots,
			s.Eth1Data, s.Eth1DataVotes, s.Eth1DepositIndex, s.Validators, s.Balances, s.RandaoMixes, s.Slashings, s.PreviousEpochAttestations, s.CurrentEpochAttestations,
			s.JustificationBits, s.PreviousJustifiedCheckpoint, s.CurrentJustifiedCheckpoint, s.FinalizedCheckpoint}
	case Altair:
		return &BeaconStateAltair{s.GenesisTime, s.GenesisValidatorsRoot, s.Slot, s.Fork, s.LatestBlockHeader, s.BlockRoots, s.StateRoots, s.HistoricalRoots,
			s.Eth1Data, s.Eth1DataVotes, s.Eth1DepositIndex, s.Validators, s.Balances, s.RandaoMixes, s.Slashings, s.PreviousEpochParticipation, s.CurrentEpochParticipation,
			s.JustificationBits, s.PreviousJustifiedCheckpoint, s.CurrentJustifiedCheckpoint, s.FinalizedCheckpoint, s.InactivityScores, s.CurrentSyncCommittee, s.NextSyncCommittee}
	case Bellatrix:
		return &BeaconStateBellatrix{s.GenesisTime, s.GenesisValidatorsRoot, s.Slot, s.Fork, s.LatestBlockHeader, s.BlockRoots, s.StateRoots, s.HistoricalRoots,
			s.Eth1Data, s.Eth1DataVotes, s.Eth1DepositIndex, s.Validators, s.Balances, s.RandaoMixes, s.Slashings, s.PreviousEpochParticipation, s.CurrentEpochParticipation,
			s.JustificationBits, s.PreviousJustifiedCheckpoint, s.CurrentJustifiedCheckpoint, s.FinalizedCheckpoint, s.InactivityScores, s.CurrentSyncCommittee, s.NextSyncCommittee,
			hdrBellatrix(s.LatestExecutionPayloadHeader)}
	case Capella:
		return &BeaconStateCapella{s.GenesisTime, s.GenesisValidatorsRoot, s.Slot, s.Fork, s.LatestBlockHeader, s.BlockRoots, s.StateRoots, s.HistoricalRoots,
			s.Eth1Data, s.Eth1DataVotes, s.Eth1DepositIndex, s.Validators, s.Balances, s.RandaoMixes, s.Slashings, s.PreviousEpochParticipation, s.CurrentEpochParticipation,
			s.JustificationBits, s.PreviousJustifiedCheckpoint, s.CurrentJustifiedCheckpoint, s.FinalizedCheckpoint, s.InactivityScores, s.CurrentSyncCommittee, s.NextSyncCommittee,
			hdrCapella(s.LatestExecutionPayloadHeader), s.NextWithdrawalIndex, s.NextWithdrawalValidatorIndex, s.HistoricalSummaries}
	case Deneb:
		return &BeaconStateDeneb{s.GenesisTime, s.GenesisValidatorsRoot, s.Slot, s.Fork, s.LatestBlockHeader, s.BlockRoots, s.StateRoots, s.HistoricalRoots,
			s.Eth1Data, s.Eth1DataVotes, s.Eth1DepositIndex, s.Validators, s.Balances, s.RandaoMixes, s.Slashings, s.PreviousEpochParticipation, s.CurrentEpochParticipation,
			s.JustificationBits, s.PreviousJustifiedCheckpoint, s.CurrentJustifiedCheckpoint, s.FinalizedCheckpoint, s.InactivityScores, s.CurrentSyncCommittee, s.NextSyncCommittee,
			s.LatestExecutionPayloadHeader, s.NextWithdrawalIndex, s.NextWithdrawalValidatorIndex, s.HistoricalSummaries}
	}
	panic("bad fork")
}

func (s *State) HashTreeRoot(c *Cfg) Root { return refssz.Root(s.SSZ(), c.Params()) }
func (s *State) Encode(c *Cfg) []byte     { return refssz.Encode(s.SSZ(), c.Params()) }

// DecodeState parses the bytes of a fork's BeaconState into the working form.
func DecodeState(c *Cfg, f ForkID, b []byte) (*State, error) {
	p := c.Params()
	s := &State{F: f}
	switch f {
	case Phase0:
		var x BeaconStatePhase0
		if err := refssz.Decode(b, &x, p); err != nil {
			return nil, err
		}
		*s = State{F: f, GenesisTime: x.GenesisTime, GenesisValidatorsRoot: x.GenesisValidatorsRoot, Slot: x.Slot, Fork: x.Fork, LatestBlockHeader: x.LatestBlockHeader,
			BlockRoots: x.BlockRoots, StateRoots: x.StateRoots, HistoricalRoots: x.HistoricalRoots, Eth1Data: x.Eth1Data, Eth1DataVotes: x.Eth1DataVotes, Eth1DepositIndex: x.Eth1DepositIndex,
			Validators: x.Validators, Balances: x.Balances, RandaoMixes: x.RandaoMixes, Slashings: x.Slashings, PreviousEpochAttestations: x.PreviousEpochAttestations,
			CurrentEpochAttestations: x.CurrentEpochAttestations, JustificationBits: x.JustificationBits, PreviousJustifiedCheckpoint: x.PreviousJustifiedCheckpoint,
			CurrentJustifiedCheckpoint: x.CurrentJustifiedCheckpoint, FinalizedCheckpoint: x.FinalizedCheckpoint}
	case Altair:
		var x BeaconStateAltair
		if err := refssz.Decode(b, &x, p); err != nil {
			return nil, err
		}
		*s = State{F: f, GenesisTime: x.GenesisTime, GenesisValidatorsRoot: x.GenesisValidatorsRoot, Slot: x.Slot, Fork: x.Fork, LatestBlockHeader: x.LatestBlockHeader,
			BlockRoots: x.BlockRoots, StateRoots: x.StateRoots, HistoricalRoots: x.HistoricalRoots, Eth1Data: x.Eth1Data, Eth1DataVotes: x.Eth1DataVotes, Eth1DepositIndex: x.Eth1DepositIndex,
			Validators: x.Validators, Balances: x.Balances, RandaoMixes: x.RandaoMixes, Slashings: x.Slashings, PreviousEpochParticipation: x.PreviousEpochParticipation,
			CurrentEpochParticipation: x.CurrentEpochParticipation, JustificationBits: x.JustificationBits, PreviousJustifiedCheckpoint: x.PreviousJustifiedCheckpoint,
			CurrentJustifiedCheckpoint: x.CurrentJustifiedCheckpoint, FinalizedCheckpoint: x.FinalizedCheckpoint, InactivityScores: x.InactivityScores,
			CurrentSyncCommittee: x.CurrentSyncCommittee, NextSyncCommittee: x.NextSyncCommittee}
	case Bellatrix:
		var x BeaconStateBellatrix
		if err := refssz.Decode(b, &x, p); err != nil {
			return nil, err
		}
		h := x.LatestExecutionPayloadHeader
		*s = State{F: f, GenesisTime: x.GenesisTime, GenesisValidatorsRoot: x.GenesisValidatorsRoot, Slot: x.Slot, Fork: x.Fork, LatestBlockHeader: x.LatestBlockHeader,
			BlockRoots: x.BlockRoots, StateRoots: x.StateRoots, HistoricalRoots: x.HistoricalRoots, Eth1Data: x.Eth1Data, Eth1DataVotes: x.Eth1DataVotes, Eth1DepositIndex: x.Eth1DepositIndex,
			Validators: x.Validators, Balances: x.Balances, RandaoMixes: x.RandaoMixes, Slashings: x.Slashings, PreviousEpochParticipation: x.PreviousEpochParticipation,
			CurrentEpochParticipation: x.CurrentEpochParticipation, JustificationBits: x.JustificationBits, PreviousJustifiedCheckpoint: x.PreviousJustifiedCheckpoint,
			CurrentJustifiedCheckpoint: x.CurrentJustifiedCheckpoint, FinalizedCheckpoint: x.FinalizedCheckpoint, InactivityScores: x.InactivityScores,
			CurrentSyncCommittee: x.CurrentSyncCommittee, NextSyncCommittee: x.NextSyncCommittee,
			LatestExecutionPayloadHeader: PayloadHeader{ParentHash: h.ParentHash, FeeRecipient: h.FeeRecipient, StateRoot: h.StateRoot, ReceiptsRoot: h.ReceiptsRoot, LogsBloom: h.LogsBloom,
				PrevRandao: h.PrevRandao, BlockNumber: h.BlockNumber, GasLimit: h.GasLimit, GasUsed: h.GasUsed, Timestamp: h.Timestamp, ExtraData: h.ExtraData, BaseFeePerGas: h.BaseFeePerGas,
				BlockHash: h.BlockHash, TransactionsRoot: h.TransactionsRoot}}
	case Capella:
		var x BeaconStateCapella
		if err := refssz.Decode(b, &x, p); err != nil {
			return nil, err
		}
		h := x.LatestExecutionPayloadHeader
		*s = State{F: f, GenesisTime: x.GenesisTime, GenesisValidatorsRoot: x.GenesisValidatorsRoot, Slot: x.Slot, Fork: x.Fork, LatestBlockHeader: x.LatestBlockHeader,
			BlockRoots: x.BlockRoots, StateRoots: x.StateRoots, HistoricalRoots: x.HistoricalRoots, Eth1Data: x.Eth1Data, Eth1DataVotes: x.Eth1DataVotes, Eth1DepositIndex: x.Eth1DepositIndex,
			Validators: x.Validators, Balances: x.Balances, RandaoMixes: x.RandaoMixes, Slashings: x.Slashings, PreviousEpochParticipation: x.PreviousEpochParticipation,
			CurrentEpochParticipation: x.CurrentEpochParticipation, JustificationBits: x.JustificationBits, PreviousJustifiedCheckpoint: x.PreviousJustifiedCheckpoint,
			CurrentJustifiedCheckpoint: x.CurrentJustifiedCheckpoint, FinalizedCheckpoint: x.FinalizedCheckpoint, InactivityScores: x.InactivityScores,
			CurrentSyncCommittee: x.CurrentSyncCommittee, NextSyncCommittee: x.NextSyncCommittee,
			LatestExecutionPayloadHeader: PayloadHeader{ParentHash: h.ParentHash, FeeRecipient: h.FeeRecipient, StateRoot: h.StateRoot, ReceiptsRoot: h.ReceiptsRoot, LogsBloom: h.LogsBloom,
				PrevRandao: h.PrevRandao, BlockNumber: h.BlockNumber, GasLimit: h.GasLimit, GasUsed: h.GasUsed, Timestamp: h.Timestamp, ExtraData: h.ExtraData, BaseFeePerGas: h.BaseFeePerGas,
				BlockHash: h.BlockHash, TransactionsRoot: h.TransactionsRoot, WithdrawalsRoot: h.WithdrawalsRoot},
			NextWithdrawalIndex: x.NextWithdrawalIndex, NextWithdrawalValidatorIndex: x.NextWithdrawalValidatorIndex, HistoricalSummaries: x.HistoricalSummaries}
	case Deneb:
		var x BeaconStateDeneb
		if err := refssz.Decode(b, &x, p); err != nil {
			return nil, err
		}
		*s = State{F: f, GenesisTime: x.GenesisTime, GenesisValidatorsRoot: x.GenesisValidatorsRoot, Slot: x.Slot, Fork: x.Fork, LatestBlockHeader: x.LatestBlockHeader,
			BlockRoots: x.BlockRoots, StateRoots: x.StateRoots, HistoricalRoots: x.HistoricalRoots, Eth1Data: x.Eth1Data, Eth1DataVotes: x.Eth1DataVotes, Eth1DepositIndex: x.Eth1DepositIndex,
			Validators: x.Validators, Balances: x.Balances, RandaoMixes: x.RandaoMixes, Slashings: x.Slashings, PreviousEpochParticipation: x.PreviousEpochParticipation,
			CurrentEpochParticipation: x.CurrentEpochParticipation, JustificationBits: x.JustificationBits, PreviousJustifiedCheckpoint: x.PreviousJustifiedCheckpoint,
			CurrentJustifiedCheckpoint: x.CurrentJustifiedCheckpoint, FinalizedCheckpoint: x.FinalizedCheckpoint, InactivityScores: x.InactivityScores,
			CurrentSyncCommittee: x.CurrentSyncCommittee, NextSyncCommittee: x.NextSyncCommittee, LatestExecutionPayloadHeader: x.LatestExecutionPayloadHeader,
			NextWithdrawalIndex: x.NextWithdrawalIndex, NextWithdrawalValidatorIndex: x.NextWithdrawalValidatorIndex, HistoricalSummaries: x.HistoricalSummaries}
	}
	return s, nil
}

// Copy: deep copy through the codec.
func (s *State) Copy(c *Cfg) *State {
	n, err := DecodeState(c, s.F, s.Encode(c))
	if err != nil {
		panic(fmt.Sprintf("refspec: state copy: %v", err))
	}
	return n
}

// ---------------- blocks (working form = superset)

type Body struct {
	RandaoReveal          Signature
	Eth1Data              Eth1Data
	Graffiti              Bytes32
	ProposerSlashings     []ProposerSlashing
	AttesterSlashings     []AttesterSlashing
	Attestations          []Attestation
	Deposits              []Deposit
	VoluntaryExits        []SignedVoluntaryExit
	SyncAggregate         SyncAggregate                // altair+
	ExecutionPayload      Payload                      // bellatrix+
	BLSToExecutionChanges []SignedBLSToExecutionChange // capella+
	BlobKZGCommitments    []Pubkey                     // deneb+
}

type Block struct {
	F             ForkID
	Slot          uint64
	ProposerIndex uint64
	ParentRoot    Root
	StateRoot     Root
	Body          Body
}

type SignedBlock struct {
	Message   Block
	Signature Signature
}

func plBellatrix(p Payload) ExecutionPayloadBellatrix {
	return ExecutionPayloadBellatrix{p.ParentHash, p.FeeRecipient, p.StateRoot, p.ReceiptsRoot, p.LogsBloom, p.PrevRandao, p.BlockNumber, p.GasLimit, p.GasUsed,
		p.Timestamp, p.ExtraData, p.BaseFeePerGas, p.BlockHash, p.Transactions}
}
func plCapella(p Payload) ExecutionPayloadCapella {
	return ExecutionPayloadCapella{p.ParentHash, p.FeeRecipient, p.StateRoot, p.ReceiptsRoot, p.LogsBloom, p.PrevRandao, p.BlockNumber, p.GasLimit, p.GasUsed,
		p.Timestamp, p.ExtraData, p.BaseFeePerGas, p.BlockHash, p.Transactions, p.Withdrawals}
}

// BodySSZ: the fork-specific body container.
func (b *Block) BodySSZ() interface{} {
	y := &b.Body
	switch b.F {
	case Phase0:
		return &BeaconBlockBodyPhase0{y.RandaoReveal, y.Eth1Data, y.Graffiti, y.ProposerSlashings, y.AttesterSlashings, y.Attestations, y.Deposits, y.VoluntaryExits}
	case Altair:
		return &BeaconBlockBodyAltair{y.RandaoReveal, y.Eth1Data, y.Graffiti, y.ProposerSlashings, y.AttesterSlashings, y.Attestations, y.Deposits, y.VoluntaryExits, y.SyncAggregate}
	case Bellatrix:
		return &BeaconBlockBodyBellatrix{y.RandaoReveal, y.Eth1Data, y.Graffiti, y.ProposerSlashings, y.AttesterSlashings, y.Attestations, y.Deposits, y.VoluntaryExits, y.SyncAggregate, plBellatrix(y.ExecutionPayload)}
	case Capella:
		return &BeaconBlockBodyCapella{y.RandaoReveal, y.Eth1Data, y.Graffiti, y.ProposerSlashings, y.AttesterSlashings, y.Attestations, y.Deposits, y.VoluntaryExits, y.SyncAggregate, plCapella(y.ExecutionPayload), y.BLSToExecutionChanges}
	case Deneb:
		return &BeaconBlockBodyDeneb{y.RandaoReveal, y.Eth1Data, y.Graffiti, y.ProposerSlashings, y.AttesterSlashings, y.Attestations, y.Deposits, y.VoluntaryExits, y.SyncAggregate, y.ExecutionPayload, y.BLSToExecutionChanges, y.BlobKZGCommitments}
	}
	panic("bad fork")
}

func (b *Block) BodyRoot(c *Cfg) Root { return refssz.Root(b.BodySSZ(), c.Params()) }

func (b *Block) Header(c *Cfg) BeaconBlockHeader {
	return BeaconBlockHeader{b.Slot, b.ProposerIndex, b.ParentRoot, b.StateRoot, b.BodyRoot(c)}
}

// HashTreeRoot of the block = root of its header (same by SSZ construction).
func (b *Block) HashTreeRoot(c *Cfg) Root { h := b.Header(c); return refssz.Root(&h, c.Params()) }

// SignedSSZ: the fork-specific SignedBeaconBlock container.
func (sb *SignedBlock) SignedSSZ() interface{} {
	b := &sb.Message
	switch b.F {
	case Phase0:
		return &SignedBeaconBlockPhase0{BeaconBlockPhase0{b.Slot, b.ProposerIndex, b.ParentRoot, b.StateRoot, *b.BodySSZ().(*BeaconBlockBodyPhase0)}, sb.Signature}
	case Altair:
		return &SignedBeaconBlockAltair{BeaconBlockAltair{b.Slot, b.ProposerIndex, b.ParentRoot, b.StateRoot, *b.BodySSZ().(*BeaconBlockBodyAltair)}, sb.Signature}
	case Bellatrix:
		return &SignedBeaconBlockBellatrix{BeaconBlockBellatrix{b.Slot, b.ProposerIndex, b.ParentRoot, b.StateRoot, *b.BodySSZ().(*BeaconBlockBodyBellatrix)}, sb.Signature}
	case Capella:
		return &SignedBeaconBlockCapella{BeaconBlockCapella{b.Slot, b.ProposerIndex, b.ParentRoot, b.StateRoot, *b.BodySSZ().(*BeaconBlockBodyCapella)}, sb.Signature}
	case Deneb:
		return &SignedBeaconBlockDeneb{BeaconBlockDeneb{b.Slot, b.ProposerIndex, b.ParentRoot, b.StateRoot, *b.BodySSZ().(*BeaconBlockBodyDeneb)}, sb.Signature}
	}
	panic("bad fork")
}

func (sb *SignedBlock) Encode(c *Cfg) []byte { return refssz.Encode(sb.SignedSSZ(), c.Params()) }

// PayloadHeaderOf: the header a payload is summarised into (transactions / withdrawals roots).
func PayloadHeaderOf(c *Cfg, f ForkID, p *Payload) PayloadHeader {
	type txs struct {
		T [][]byte `ssz:"list,limit=MAX_TRANSACTIONS_PER_PAYLOAD;bytelist,limit=MAX_BYTES_PER_TRANSACTION"`
	}
	type wds struct {
		W []Withdrawal `ssz:"list,limit=MAX_WITHDRAWALS_PER_PAYLOAD"`
	}
	h := PayloadHeader{ParentHash: p.ParentHash, FeeRecipient: p.FeeRecipient, StateRoot: p.StateRoot, ReceiptsRoot: p.ReceiptsRoot, LogsBloom: p.LogsBloom,
		PrevRandao: p.PrevRandao, BlockNumber: p.BlockNumber, GasLimit: p.GasLimit, GasUsed: p.GasUsed, Timestamp: p.Timestamp, ExtraData: p.ExtraData,
		BaseFeePerGas: p.BaseFeePerGas, BlockHash: p.BlockHash}
	// root of a single-field container = root of the field
	h.TransactionsRoot = fieldRoot(&txs{p.Transactions}, c)
	if f >= Capella {
		h.WithdrawalsRoot = fieldRoot(&wds{p.Withdrawals}, c)
	}
	if f >= Deneb {
		h.BlobGasUsed, h.ExcessBlobGas = p.BlobGasUsed, p.ExcessBlobGas
	}
	return h
}

// fieldRoot: hash-tree-root of the single field of a one-field container (container root of one
// chunk is that chunk).
func fieldRoot(v interface{}, c *Cfg) Root { return refssz.Root(v, c.Params()) }
