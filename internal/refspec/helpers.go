package refspec

import (
	"crypto/sha256"
	"encoding/binary"
	"errors"
	"fmt"
	"math/bits"
	"sort"

	"verif/internal/refssz"
)

// Env: what the reference transition needs from outside the consensus rules.
type Env struct {
	C *Cfg
	// Verify: BLS FastAggregateVerify(pubkeys, signing root, signature) (Verify = one pubkey).
	// Symbolic in the harness: a look-up in the table of signatures that were really produced.
	Verify func(pubkeys []Pubkey, signingRoot Root, sig Signature) bool
	// AggregatePubkeys: eth_aggregate_pubkeys.
	AggregatePubkeys func(pubkeys []Pubkey) Pubkey
	// Engine: verdict of verify_and_notify_new_payload (nil = always valid).
	Engine func(p *Payload, versionedHashes []Bytes32, parentBeaconBlockRoot *Root) bool
}

type overflowErr struct{}

func (overflowErr) Error() string { return "uint64 overflow / underflow (the specification raises)" }

func add(a, b uint64) uint64 {
	s, c := bits.Add64(a, b, 0)
	if c != 0 {
		panic(overflowErr{})
	}
	return s
}
func sub(a, b uint64) uint64 {
	if b > a {
		panic(overflowErr{})
	}
	return a - b
}
func mul(a, b uint64) uint64 {
	h, l := bits.Mul64(a, b)
	if h != 0 {
		panic(overflowErr{})
	}
	return l
}

func hash(b []byte) Bytes32 { return sha256.Sum256(b) }

func u64le(x uint64) []byte {
	var b [8]byte
	binary.LittleEndian.PutUint64(b[:], x)
	return b[:]
}

func isqrt(n uint64) uint64 {
	if n == ^uint64(0) {
		return 4294967295
	}
	x := n
	y := (x + 1) / 2
	for y < x {
		x = y
		y = (x + n/x) / 2
	}
	return x
}

func max64(a, b uint64) uint64 {
	if a > b {
		return a
	}
	return b
}
func min64(a, b uint64) uint64 {
	if a < b {
		return a
	}
	return b
}

func (c *Cfg) EpochAtSlot(slot uint64) uint64  { return slot / c.SlotsPerEpoch }
func (c *Cfg) StartSlot(epoch uint64) uint64  { return mul(epoch, c.SlotsPerEpoch) }
func (s *State) CurrentEpoch(c *Cfg) uint64   { return c.EpochAtSlot(s.Slot) }
func (s *State) PreviousEpoch(c *Cfg) uint64 {
	e := s.CurrentEpoch(c)
	if e == 0 {
		return 0
	}
	return e - 1
}

func IsActive(v *Validator, e uint64) bool { return v.ActivationEpoch <= e && e < v.ExitEpoch }
func IsEligibleForActivationQueue(c *Cfg, v *Validator) bool {
	return v.ActivationEligibilityEpoch == FarFutureEpoch && v.EffectiveBalance == c.MaxEffectiveBalance
}
func IsEligibleForActivation(s *State, v *Validator) bool {
	return v.ActivationEligibilityEpoch <= s.FinalizedCheckpoint.Epoch && v.ActivationEpoch == FarFutureEpoch
}
func IsSlashable(v *Validator, e uint64) bool {
	return !v.Slashed && v.ActivationEpoch <= e && e < v.WithdrawableEpoch
}
func IsSlashableAttestationData(a, b *AttestationData) bool {
	return (*a != *b && a.Target.Epoch == b.Target.Epoch) || (a.Source.Epoch < b.Source.Epoch && b.Target.Epoch < a.Target.Epoch)
}

func (s *State) ActiveIndices(e uint64) []uint64 {
	var out []uint64
	for i := range s.Validators {
		if IsActive(&s.Validators[i], e) {
			out = append(out, uint64(i))
		}
	}
	return out
}

func ComputeShuffledIndex(c *Cfg, index, n uint64, seed Bytes32) uint64 {
	if index >= n {
		panic("shuffled index out of range")
	}
	for r := uint64(0); r < c.ShuffleRoundCount; r++ {
		in := append(append([]byte{}, seed[:]...), byte(r))
		ph := hash(in)
		pivot := binary.LittleEndian.Uint64(ph[:8]) % n
		flip := (pivot + n - index) % n
		pos := max64(index, flip)
		var p4 [4]byte
		binary.LittleEndian.PutUint32(p4[:], uint32(pos/256))
		src := hash(append(in, p4[:]...))
		b := src[(pos%256)/8]
		if (b>>(pos%8))%2 == 1 {
			index = flip
		}
	}
	return index
}

func (s *State) RandaoMix(c *Cfg, e uint64) Bytes32 { return s.RandaoMixes[e%c.EpochsPerHistoricalVector] }

func (s *State) Seed(c *Cfg, e uint64, domain [4]byte) Bytes32 {
	mix := s.RandaoMix(c, e+c.EpochsPerHistoricalVector-c.MinSeedLookahead-1)
	return hash(append(append(append([]byte{}, domain[:]...), u64le(e)...), mix[:]...))
}

func (s *State) CommitteeCountPerSlot(c *Cfg, e uint64) uint64 {
	n := uint64(len(s.ActiveIndices(e)))
	return max64(1, min64(c.MaxCommitteesPerSlot, n/c.SlotsPerEpoch/c.TargetCommitteeSize))
}

func ComputeCommittee(c *Cfg, indices []uint64, seed Bytes32, index, count uint64) []uint64 {
	n := uint64(len(indices))
	start := n * index / count
	end := n * (index + 1) / count
	out := make([]uint64, 0, end-start)
	for i := start; i < end; i++ {
		out = append(out, indices[ComputeShuffledIndex(c, i, n, seed)])
	}
	return out
}

func (s *State) BeaconCommittee(c *Cfg, slot, index uint64) []uint64 {
	e := c.EpochAtSlot(slot)
	cps := s.CommitteeCountPerSlot(c, e)
	return ComputeCommittee(c, s.ActiveIndices(e), s.Seed(c, e, DomainBeaconAttester), (slot%c.SlotsPerEpoch)*cps+index, cps*c.SlotsPerEpoch)
}

func ComputeProposerIndex(c *Cfg, s *State, indices []uint64, seed Bytes32) uint64 {
	if len(indices) == 0 {
		panic(errors.New("no active validators"))
	}
	n := uint64(len(indices))
	for i := uint64(0); ; i++ {
		cand := indices[ComputeShuffledIndex(c, i%n, n, seed)]
		rb := hash(append(append([]byte{}, seed[:]...), u64le(i/32)...))[i%32]
		if s.Validators[cand].EffectiveBalance*255 >= c.MaxEffectiveBalance*uint64(rb) {
			return cand
		}
	}
}

// ProposerIndexAtSlot: get_beacon_proposer_index for the state's epoch at the given slot.
func (s *State) ProposerIndexAtSlot(c *Cfg, slot uint64) uint64 {
	e := c.EpochAtSlot(slot)
	sd := s.Seed(c, e, DomainBeaconProposer)
	seed := hash(append(append([]byte{}, sd[:]...), u64le(slot)...))
	return ComputeProposerIndex(c, s, s.ActiveIndices(e), seed)
}

func (s *State) ProposerIndex(c *Cfg) uint64 { return s.ProposerIndexAtSlot(c, s.Slot) }

func (s *State) TotalBalance(c *Cfg, idx []uint64) uint64 {
	var t uint64
	for _, i := range idx {
		t = add(t, s.Validators[i].EffectiveBalance)
	}
	return max64(c.EffectiveBalanceIncrement, t)
}
func (s *State) TotalActiveBalance(c *Cfg) uint64 {
	return s.TotalBalance(c, s.ActiveIndices(s.CurrentEpoch(c)))
}

func (s *State) ChurnLimit(c *Cfg) uint64 {
	return max64(c.MinPerEpochChurnLimit, uint64(len(s.ActiveIndices(s.CurrentEpoch(c))))/c.ChurnLimitQuotient)
}
func (s *State) ActivationChurnLimit(c *Cfg) uint64 {
	if s.F >= Deneb {
		return min64(c.MaxPerEpochActivationChurnLimit, s.ChurnLimit(c))
	}
	return s.ChurnLimit(c)
}

func ComputeForkDataRoot(version Version, gvr Root) Root {
	return refssz.Root(&ForkData{version, gvr}, nil)
}
func ComputeDomain(dt [4]byte, version Version, gvr Root) Bytes32 {
	r := ComputeForkDataRoot(version, gvr)
	var d Bytes32
	copy(d[:4], dt[:])
	copy(d[4:], r[:28])
	return d
}
func (s *State) Domain(c *Cfg, dt [4]byte, epoch uint64) Bytes32 {
	v := s.Fork.CurrentVersion
	if epoch < s.Fork.Epoch {
		v = s.Fork.PreviousVersion
	}
	return ComputeDomain(dt, v, s.GenesisValidatorsRoot)
}
func SigningRoot(objRoot Root, domain Bytes32) Root {
	return refssz.Root(&SigningData{objRoot, domain}, nil)
}

func (s *State) BlockRootAtSlot(c *Cfg, slot uint64) Root {
	if !(slot < s.Slot && s.Slot <= slot+c.SlotsPerHistoricalRoot) {
		panic(fmt.Errorf("block root at slot %d not available at state slot %d", slot, s.Slot))
	}
	return s.BlockRoots[slot%c.SlotsPerHistoricalRoot]
}
func (s *State) BlockRoot(c *Cfg, epoch uint64) Root { return s.BlockRootAtSlot(c, c.StartSlot(epoch)) }

func (s *State) IncreaseBalance(i, d uint64) { s.Balances[i] = add(s.Balances[i], d) }
func (s *State) DecreaseBalance(i, d uint64) {
	if d > s.Balances[i] {
		s.Balances[i] = 0
	} else {
		s.Balances[i] -= d
	}
}

func (s *State) InitiateValidatorExit(c *Cfg, i uint64) {
	v := &s.Validators[i]
	if v.ExitEpoch != FarFutureEpoch {
		return
	}
	q := add(add(s.CurrentEpoch(c), 1), c.MaxSeedLookahead)
	for j := range s.Validators {
		if e := s.Validators[j].ExitEpoch; e != FarFutureEpoch && e > q {
			q = e
		}
	}
	churn := uint64(0)
	for j := range s.Validators {
		if s.Validators[j].ExitEpoch == q {
			churn++
		}
	}
	if churn >= s.ChurnLimit(c) {
		q = add(q, 1)
	}
	v.ExitEpoch = q
	v.WithdrawableEpoch = add(q, c.MinValidatorWithdrawabilityDelay)
}

func (s *State) minSlashingPenaltyQuotient(c *Cfg) uint64 {
	switch {
	case s.F >= Bellatrix:
		return c.MinSlashingPenaltyQuotientBellatrix
	case s.F == Altair:
		return c.MinSlashingPenaltyQuotientAltair
	}
	return c.MinSlashingPenaltyQuotient
}
func (s *State) proportionalSlashingMultiplier(c *Cfg) uint64 {
	switch {
	case s.F >= Bellatrix:
		return c.ProportionalSlashingMultiplierBellatrix
	case s.F == Altair:
		return c.ProportionalSlashingMultiplierAltair
	}
	return c.ProportionalSlashingMultiplier
}
func (s *State) inactivityPenaltyQuotient(c *Cfg) uint64 {
	switch {
	case s.F >= Bellatrix:
		return c.InactivityPenaltyQuotientBellatrix
	case s.F == Altair:
		return c.InactivityPenaltyQuotientAltair
	}
	return c.InactivityPenaltyQuotient
}

func (s *State) SlashValidator(c *Cfg, slashed uint64, whistleblower *uint64) {
	epoch := s.CurrentEpoch(c)
	s.InitiateValidatorExit(c, slashed)
	v := &s.Validators[slashed]
	v.Slashed = true
	v.WithdrawableEpoch = max64(v.WithdrawableEpoch, add(epoch, c.EpochsPerSlashingsVector))
	s.Slashings[epoch%c.EpochsPerSlashingsVector] = add(s.Slashings[epoch%c.EpochsPerSlashingsVector], v.EffectiveBalance)
	s.DecreaseBalance(slashed, v.EffectiveBalance/s.minSlashingPenaltyQuotient(c))
	proposer := s.ProposerIndex(c)
	wb := proposer
	if whistleblower != nil {
		wb = *whistleblower
	}
	wbReward := v.EffectiveBalance / c.WhistleblowerRewardQuotient
	var propReward uint64
	if s.F >= Altair {
		propReward = wbReward * ProposerWeight / WeightDenominator
	} else {
		propReward = wbReward / c.ProposerRewardQuotient
	}
	s.IncreaseBalance(proposer, propReward)
	s.IncreaseBalance(wb, wbReward-propReward)
}

// attesting indices of an attestation (sorted set)
func (s *State) AttestingIndices(c *Cfg, data *AttestationData, bitsL []bool) []uint64 {
	comm := s.BeaconCommittee(c, data.Slot, data.Index)
	var out []uint64
	for i, v := range comm {
		if i < len(bitsL) && bitsL[i] {
			out = append(out, v)
		}
	}
	sort.Slice(out, func(i, j int) bool { return out[i] < out[j] })
	// set semantics
	var ded []uint64
	for i, v := range out {
		if i == 0 || v != out[i-1] {
			ded = append(ded, v)
		}
	}
	return ded
}

func (env *Env) IsValidIndexedAttestation(s *State, ia *IndexedAttestation) bool {
	c := env.C
	idx := ia.AttestingIndices
	if len(idx) == 0 {
		return false
	}
	for i := 1; i < len(idx); i++ {
		if idx[i-1] >= idx[i] {
			return false
		}
	}
	var pks []Pubkey
	for _, i := range idx {
		if i >= uint64(len(s.Validators)) {
			return false // pyspec: IndexError -> invalid
		}
		pks = append(pks, s.Validators[i].Pubkey)
	}
	dom := s.Domain(c, DomainBeaconAttester, ia.Data.Target.Epoch)
	return env.Verify(pks, SigningRoot(refssz.Root(&ia.Data, nil), dom), ia.Signature)
}

func IsValidMerkleBranch(leaf Root, branch []Root, depth, index uint64, root Root) bool {
	v := leaf
	for i := uint64(0); i < depth; i++ {
		if (index>>i)&1 == 1 {
			v = hash(append(append([]byte{}, branch[i][:]...), v[:]...))
		} else {
			v = hash(append(append([]byte{}, v[:]...), branch[i][:]...))
		}
	}
	return v == root
}

func DefaultPayloadHeader(c *Cfg) PayloadHeader {
	return PayloadHeader{LogsBloom: make([]byte, c.BytesPerLogsBloom)}
}
func DefaultPayload(c *Cfg) Payload {
	return Payload{LogsBloom: make([]byte, c.BytesPerLogsBloom)}
}

func (s *State) payloadHeaderSSZ() interface{} {
	switch s.F {
	case Bellatrix:
		h := hdrBellatrix(s.LatestExecutionPayloadHeader)
		return &h
	case Capella:
		h := hdrCapella(s.LatestExecutionPayloadHeader)
		return &h
	}
	h := s.LatestExecutionPayloadHeader
	return &h
}

func (s *State) IsMergeTransitionComplete(c *Cfg) bool {
	def := State{F: s.F, LatestExecutionPayloadHeader: DefaultPayloadHeader(c)}
	return refssz.Root(s.payloadHeaderSSZ(), c.Params()) != refssz.Root(def.payloadHeaderSSZ(), c.Params())
}
