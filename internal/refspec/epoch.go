package refspec

import (
	"sort"

	"verif/internal/refssz"
)

// ---------------------------------------------------------------- process_slots

func (env *Env) ProcessSlot(s *State) {
	c := env.C
	prev := s.HashTreeRoot(c)
	s.StateRoots[s.Slot%c.SlotsPerHistoricalRoot] = prev
	if s.LatestBlockHeader.StateRoot == (Root{}) {
		s.LatestBlockHeader.StateRoot = prev
	}
	s.BlockRoots[s.Slot%c.SlotsPerHistoricalRoot] = refssz.Root(&s.LatestBlockHeader, nil)
}

// ProcessSlots returns an error for an invalid request; panics of kind overflowErr/error from
// deeper levels are turned into errors by the callers in transition.go.
func (env *Env) processSlots(s *State, slot uint64, afterSlot func(*State)) {
	c := env.C
	if !(s.Slot < slot) {
		panic(specErr("process_slots: state.slot < slot violated"))
	}
	for s.Slot < slot {
		env.ProcessSlot(s)
		if (s.Slot+1)%c.SlotsPerEpoch == 0 {
			env.ProcessEpoch(s)
		}
		s.Slot = add(s.Slot, 1)
		if s.Slot%c.SlotsPerEpoch == 0 {
			e := c.EpochAtSlot(s.Slot)
			if e == c.ForkEpochs[Altair] && s.F == Phase0 {
				env.UpgradeToAltair(s)
			}
			if e == c.ForkEpochs[Bellatrix] && s.F == Altair {
				env.UpgradeToBellatrix(s)
			}
			if e == c.ForkEpochs[Capella] && s.F == Bellatrix {
				env.UpgradeToCapella(s)
			}
			if e == c.ForkEpochs[Deneb] && s.F == Capella {
				env.UpgradeToDeneb(s)
			}
		}
		if afterSlot != nil {
			afterSlot(s)
		}
	}
}

type specErr string

func (e specErr) Error() string { return string(e) }

// ---------------------------------------------------------------- process_epoch

func (env *Env) ProcessEpoch(s *State) {
	if s.F == Phase0 {
		env.justificationPhase0(s)
		env.rewardsPhase0(s)
		env.registryUpdates(s)
		env.slashings(s)
		env.eth1DataReset(s)
		env.effectiveBalanceUpdates(s)
		env.slashingsReset(s)
		env.randaoMixesReset(s)
		env.historicalUpdate(s)
		s.PreviousEpochAttestations = s.CurrentEpochAttestations
		s.CurrentEpochAttestations = nil
		return
	}
	env.justificationAltair(s)
	env.inactivityUpdates(s)
	env.rewardsAltair(s)
	env.registryUpdates(s)
	env.slashings(s)
	env.eth1DataReset(s)
	env.effectiveBalanceUpdates(s)
	env.slashingsReset(s)
	env.randaoMixesReset(s)
	env.historicalUpdate(s)
	// participation flag rotation
	s.PreviousEpochParticipation = s.CurrentEpochParticipation
	s.CurrentEpochParticipation = make([]uint8, len(s.Validators))
	env.syncCommitteeUpdates(s)
}

// ---- phase0 attestation accounting

func (s *State) matchingSource(c *Cfg, epoch uint64) []PendingAttestation {
	if epoch == s.CurrentEpoch(c) {
		return s.CurrentEpochAttestations
	}
	if epoch == s.PreviousEpoch(c) {
		return s.PreviousEpochAttestations
	}
	panic(specErr("get_matching_source_attestations: epoch not current/previous"))
}
func (s *State) matchingTarget(c *Cfg, epoch uint64) []PendingAttestation {
	var out []PendingAttestation
	br := s.BlockRoot(c, epoch)
	for _, a := range s.matchingSource(c, epoch) {
		if a.Data.Target.Root == br {
			out = append(out, a)
		}
	}
	return out
}
func (s *State) matchingHead(c *Cfg, epoch uint64) []PendingAttestation {
	var out []PendingAttestation
	for _, a := range s.matchingTarget(c, epoch) {
		if a.Data.BeaconBlockRoot == s.BlockRootAtSlot(c, a.Data.Slot) {
			out = append(out, a)
		}
	}
	return out
}
func (s *State) unslashedAttesting(c *Cfg, atts []PendingAttestation) []uint64 {
	set := map[uint64]bool{}
	for i := range atts {
		for _, v := range s.AttestingIndices(c, &atts[i].Data, atts[i].AggregationBits) {
			set[v] = true
		}
	}
	var out []uint64
	for v := range set {
		if !s.Validators[v].Slashed {
			out = append(out, v)
		}
	}
	sort.Slice(out, func(i, j int) bool { return out[i] < out[j] })
	return out
}
func (s *State) attestingBalance(c *Cfg, atts []PendingAttestation) uint64 {
	return s.TotalBalance(c, s.unslashedAttesting(c, atts))
}

func (env *Env) justificationPhase0(s *State) {
	c := env.C
	if s.CurrentEpoch(c) <= 1 {
		return
	}
	prevT := s.attestingBalance(c, s.matchingTarget(c, s.PreviousEpoch(c)))
	curT := s.attestingBalance(c, s.matchingTarget(c, s.CurrentEpoch(c)))
	env.weighJustification(s, s.TotalActiveBalance(c), prevT, curT)
}

func (env *Env) weighJustification(s *State, total, prevT, curT uint64) {
	c := env.C
	prevE, curE := s.PreviousEpoch(c), s.CurrentEpoch(c)
	oldPrev, oldCur := s.PreviousJustifiedCheckpoint, s.CurrentJustifiedCheckpoint
	s.PreviousJustifiedCheckpoint = s.CurrentJustifiedCheckpoint
	b := s.JustificationBits
	s.JustificationBits = []bool{false, b[0], b[1], b[2]}
	if mul(prevT, 3) >= mul(total, 2) {
		s.CurrentJustifiedCheckpoint = Checkpoint{prevE, s.BlockRoot(c, prevE)}
		s.JustificationBits[1] = true
	}
	if mul(curT, 3) >= mul(total, 2) {
		s.CurrentJustifiedCheckpoint = Checkpoint{curE, s.BlockRoot(c, curE)}
		s.JustificationBits[0] = true
	}
	bb := s.JustificationBits
	if bb[1] && bb[2] && bb[3] && oldPrev.Epoch+3 == curE {
		s.FinalizedCheckpoint = oldPrev
	}
	if bb[1] && bb[2] && oldPrev.Epoch+2 == curE {
		s.FinalizedCheckpoint = oldPrev
	}
	if bb[0] && bb[1] && bb[2] && oldCur.Epoch+2 == curE {
		s.FinalizedCheckpoint = oldCur
	}
	if bb[0] && bb[1] && oldCur.Epoch+1 == curE {
		s.FinalizedCheckpoint = oldCur
	}
}

func (s *State) finalityDelay(c *Cfg) uint64 { return s.PreviousEpoch(c) - s.FinalizedCheckpoint.Epoch }
func (s *State) inLeak(c *Cfg) bool          { return s.finalityDelay(c) > c.MinEpochsToInactivityPenalty }

func (s *State) eligibleIndices(c *Cfg) []uint64 {
	prev := s.PreviousEpoch(c)
	var out []uint64
	for i := range s.Validators {
		v := &s.Validators[i]
		if IsActive(v, prev) || (v.Slashed && prev+1 < v.WithdrawableEpoch) {
			out = append(out, uint64(i))
		}
	}
	return out
}

func (s *State) baseRewardPhase0(c *Cfg, i uint64, total uint64) uint64 {
	return s.Validators[i].EffectiveBalance * c.BaseRewardFactor / isqrt(total) / BaseRewardsPerEpoch
}

func (env *Env) rewardsPhase0(s *State) {
	c := env.C
	if s.CurrentEpoch(c) == 0 {
		return
	}
	n := len(s.Validators)
	rewards := make([]uint64, n)
	penalties := make([]uint64, n)
	total := s.TotalActiveBalance(c)
	prev := s.PreviousEpoch(c)
	eligible := s.eligibleIndices(c)
	leak := s.inLeak(c)
	propReward := func(i uint64) uint64 { return s.baseRewardPhase0(c, i, total) / c.ProposerRewardQuotient }
	component := func(atts []PendingAttestation) {
		un := s.unslashedAttesting(c, atts)
		inSet := map[uint64]bool{}
		for _, v := range un {
			inSet[v] = true
		}
		attBal := s.TotalBalance(c, un)
		for _, i := range eligible {
			if inSet[i] {
				inc := c.EffectiveBalanceIncrement
				if leak {
					rewards[i] = add(rewards[i], s.baseRewardPhase0(c, i, total))
				} else {
					num := mul(s.baseRewardPhase0(c, i, total), attBal/inc)
					rewards[i] = add(rewards[i], num/(total/inc))
				}
			} else {
				penalties[i] = add(penalties[i], s.baseRewardPhase0(c, i, total))
			}
		}
	}
	src := s.matchingSource(c, prev)
	tgt := s.matchingTarget(c, prev)
	head := s.matchingHead(c, prev)
	component(src)
	component(tgt)
	component(head)
	// inclusion delay
	for _, i := range s.unslashedAttesting(c, src) {
		var best *PendingAttestation
		for k := range src {
			a := &src[k]
			in := false
			for _, v := range s.AttestingIndices(c, &a.Data, a.AggregationBits) {
				if v == i {
					in = true
					break
				}
			}
			if in && (best == nil || a.InclusionDelay < best.InclusionDelay) {
				best = a
			}
		}
		rewards[best.ProposerIndex] = add(rewards[best.ProposerIndex], propReward(i))
		maxAtt := s.baseRewardPhase0(c, i, total) - propReward(i)
		rewards[i] = add(rewards[i], maxAtt/best.InclusionDelay)
	}
	// inactivity
	if leak {
		tgtSet := map[uint64]bool{}
		for _, v := range s.unslashedAttesting(c, tgt) {
			tgtSet[v] = true
		}
		for _, i := range eligible {
			bp := mul(BaseRewardsPerEpoch, s.baseRewardPhase0(c, i, total)) - propReward(i)
			penalties[i] = add(penalties[i], bp)
			if !tgtSet[i] {
				penalties[i] = add(penalties[i], mul(s.Validators[i].EffectiveBalance, s.finalityDelay(c))/c.InactivityPenaltyQuotient)
			}
		}
	}
	for i := 0; i < n; i++ {
		s.IncreaseBalance(uint64(i), rewards[i])
		s.DecreaseBalance(uint64(i), penalties[i])
	}
}

// ---- altair accounting

func hasFlag(f uint8, idx uint) bool { return f&(1<<idx) != 0 }

func (s *State) unslashedParticipating(c *Cfg, flag uint, epoch uint64) []uint64 {
	var part []uint8
	if epoch == s.CurrentEpoch(c) {
		part = s.CurrentEpochParticipation
	} else if epoch == s.PreviousEpoch(c) {
		part = s.PreviousEpochParticipation
	} else {
		panic(specErr("get_unslashed_participating_indices: epoch not current/previous"))
	}
	var out []uint64
	for _, i := range s.ActiveIndices(epoch) {
		if hasFlag(part[i], flag) && !s.Validators[i].Slashed {
			out = append(out, i)
		}
	}
	return out
}

func (env *Env) justificationAltair(s *State) {
	c := env.C
	if s.CurrentEpoch(c) <= 1 {
		return
	}
	prevT := s.TotalBalance(c, s.unslashedParticipating(c, TimelyTargetFlagIndex, s.PreviousEpoch(c)))
	curT := s.TotalBalance(c, s.unslashedParticipating(c, TimelyTargetFlagIndex, s.CurrentEpoch(c)))
	env.weighJustification(s, s.TotalActiveBalance(c), prevT, curT)
}

func (env *Env) inactivityUpdates(s *State) {
	c := env.C
	if s.CurrentEpoch(c) == 0 {
		return
	}
	tgt := map[uint64]bool{}
	for _, i := range s.unslashedParticipating(c, TimelyTargetFlagIndex, s.PreviousEpoch(c)) {
		tgt[i] = true
	}
	leak := s.inLeak(c)
	for _, i := range s.eligibleIndices(c) {
		if tgt[i] {
			s.InactivityScores[i] -= min64(1, s.InactivityScores[i])
		} else {
			s.InactivityScores[i] = add(s.InactivityScores[i], c.InactivityScoreBias)
		}
		if !leak {
			s.InactivityScores[i] -= min64(c.InactivityScoreRecoveryRate, s.InactivityScores[i])
		}
	}
}

func (s *State) baseRewardPerIncrement(c *Cfg) uint64 {
	return c.EffectiveBalanceIncrement * c.BaseRewardFactor / isqrt(s.TotalActiveBalance(c))
}
func (s *State) baseRewardAltair(c *Cfg, i uint64) uint64 {
	return s.Validators[i].EffectiveBalance / c.EffectiveBalanceIncrement * s.baseRewardPerIncrement(c)
}

func (env *Env) rewardsAltair(s *State) {
	c := env.C
	if s.CurrentEpoch(c) == 0 {
		return
	}
	n := len(s.Validators)
	prev := s.PreviousEpoch(c)
	eligible := s.eligibleIndices(c)
	leak := s.inLeak(c)
	inc := c.EffectiveBalanceIncrement
	apply := func(rewards, penalties []uint64) {
		for i := 0; i < n; i++ {
			s.IncreaseBalance(uint64(i), rewards[i])
			s.DecreaseBalance(uint64(i), penalties[i])
		}
	}
	var deltas [][2][]uint64
	for flag := uint(0); flag < 3; flag++ {
		rewards := make([]uint64, n)
		penalties := make([]uint64, n)
		un := s.unslashedParticipating(c, flag, prev)
		set := map[uint64]bool{}
		for _, i := range un {
			set[i] = true
		}
		w := ParticipationFlagWeights[flag]
		partInc := s.TotalBalance(c, un) / inc
		activeInc := s.TotalActiveBalance(c) / inc
		for _, i := range eligible {
			base := s.baseRewardAltair(c, i)
			if set[i] {
				if !leak {
					num := mul(mul(base, w), partInc)
					rewards[i] = add(rewards[i], num/mul(activeInc, WeightDenominator))
				}
			} else if flag != TimelyHeadFlagIndex {
				penalties[i] = add(penalties[i], mul(base, w)/WeightDenominator)
			}
		}
		deltas = append(deltas, [2][]uint64{rewards, penalties})
	}
	// inactivity penalties
	{
		rewards := make([]uint64, n)
		penalties := make([]uint64, n)
		tgt := map[uint64]bool{}
		for _, i := range s.unslashedParticipating(c, TimelyTargetFlagIndex, prev) {
			tgt[i] = true
		}
		for _, i := range eligible {
			if !tgt[i] {
				num := mul(s.Validators[i].EffectiveBalance, s.InactivityScores[i])
				den := mul(c.InactivityScoreBias, s.inactivityPenaltyQuotient(c))
				penalties[i] = add(penalties[i], num/den)
			}
		}
		deltas = append(deltas, [2][]uint64{rewards, penalties})
	}
	// NOTE: all delta sets are computed on the pre-state, then applied one set after the other
	for _, d := range deltas {
		apply(d[0], d[1])
	}
}

// ---- shared sub-transitions

func (env *Env) registryUpdates(s *State) {
	c := env.C
	cur := s.CurrentEpoch(c)
	for i := range s.Validators {
		v := &s.Validators[i]
		if IsEligibleForActivationQueue(c, v) {
			v.ActivationEligibilityEpoch = add(cur, 1)
		}
		if IsActive(v, cur) && v.EffectiveBalance <= c.EjectionBalance {
			s.InitiateValidatorExit(c, uint64(i))
		}
	}
	var queue []uint64
	for i := range s.Validators {
		if IsEligibleForActivation(s, &s.Validators[i]) {
			queue = append(queue, uint64(i))
		}
	}
	sort.SliceStable(queue, func(a, b int) bool {
		va, vb := &s.Validators[queue[a]], &s.Validators[queue[b]]
		if va.ActivationEligibilityEpoch != vb.ActivationEligibilityEpoch {
			return va.ActivationEligibilityEpoch < vb.ActivationEligibilityEpoch
		}
		return queue[a] < queue[b]
	})
	lim := s.ActivationChurnLimit(c)
	for k, i := range queue {
		if uint64(k) >= lim {
			break
		}
		s.Validators[i].ActivationEpoch = add(add(cur, 1), c.MaxSeedLookahead)
	}
}

func (env *Env) slashings(s *State) {
	c := env.C
	epoch := s.CurrentEpoch(c)
	total := s.TotalActiveBalance(c)
	var sum uint64
	for _, x := range s.Slashings {
		sum = add(sum, x)
	}
	adj := min64(mul(sum, s.proportionalSlashingMultiplier(c)), total)
	inc := c.EffectiveBalanceIncrement
	for i := range s.Validators {
		v := &s.Validators[i]
		if v.Slashed && epoch+c.EpochsPerSlashingsVector/2 == v.WithdrawableEpoch {
			num := mul(v.EffectiveBalance/inc, adj)
			s.DecreaseBalance(uint64(i), num/total*inc)
		}
	}
}

func (env *Env) eth1DataReset(s *State) {
	c := env.C
	if (s.CurrentEpoch(c)+1)%c.EpochsPerEth1VotingPeriod == 0 {
		s.Eth1DataVotes = nil
	}
}

func (env *Env) effectiveBalanceUpdates(s *State) {
	c := env.C
	hi := c.EffectiveBalanceIncrement / c.HysteresisQuotient
	down := hi * c.HysteresisDownwardMultiplier
	up := hi * c.HysteresisUpwardMultiplier
	for i := range s.Validators {
		v := &s.Validators[i]
		b := s.Balances[i]
		if add(b, down) < v.EffectiveBalance || add(v.EffectiveBalance, up) < b {
			v.EffectiveBalance = min64(b-b%c.EffectiveBalanceIncrement, c.MaxEffectiveBalance)
		}
	}
}

func (env *Env) slashingsReset(s *State) {
	c := env.C
	s.Slashings[(s.CurrentEpoch(c)+1)%c.EpochsPerSlashingsVector] = 0
}

func (env *Env) randaoMixesReset(s *State) {
	c := env.C
	cur := s.CurrentEpoch(c)
	s.RandaoMixes[(cur+1)%c.EpochsPerHistoricalVector] = s.RandaoMix(c, cur)
}

func (env *Env) historicalUpdate(s *State) {
	c := env.C
	next := s.CurrentEpoch(c) + 1
	if next%(c.SlotsPerHistoricalRoot/c.SlotsPerEpoch) != 0 {
		return
	}
	if s.F >= Capella {
		type roots struct {
			R []Root `ssz:"vector,len=SLOTS_PER_HISTORICAL_ROOT"`
		}
		s.HistoricalSummaries = append(s.HistoricalSummaries, HistoricalSummary{
			BlockSummaryRoot: refssz.Root(&roots{s.BlockRoots}, c.Params()),
			StateSummaryRoot: refssz.Root(&roots{s.StateRoots}, c.Params()),
		})
		return
	}
	hb := HistoricalBatch{s.BlockRoots, s.StateRoots}
	s.HistoricalRoots = append(s.HistoricalRoots, refssz.Root(&hb, c.Params()))
}

func (env *Env) syncCommitteeUpdates(s *State) {
	c := env.C
	next := s.CurrentEpoch(c) + 1
	if next%c.EpochsPerSyncCommitteePeriod == 0 {
		s.CurrentSyncCommittee = s.NextSyncCommittee
		s.NextSyncCommittee = env.NextSyncCommittee(s)
	}
}

// get_next_sync_committee_indices
func (s *State) NextSyncCommitteeIndices(c *Cfg) []uint64 {
	epoch := s.CurrentEpoch(c) + 1
	active := s.ActiveIndices(epoch)
	n := uint64(len(active))
	if n == 0 {
		panic(specErr("no active validators for the sync committee"))
	}
	seed := s.Seed(c, epoch, DomainSyncCommittee)
	var out []uint64
	for i := uint64(0); uint64(len(out)) < c.SyncCommitteeSize; i++ {
		cand := active[ComputeShuffledIndex(c, i%n, n, seed)]
		rb := hash(append(append([]byte{}, seed[:]...), u64le(i/32)...))[i%32]
		if s.Validators[cand].EffectiveBalance*255 >= c.MaxEffectiveBalance*uint64(rb) {
			out = append(out, cand)
		}
	}
	return out
}

func (env *Env) NextSyncCommittee(s *State) SyncCommittee {
	idx := s.NextSyncCommitteeIndices(env.C)
	pks := make([]Pubkey, len(idx))
	for i, v := range idx {
		pks[i] = s.Validators[v].Pubkey
	}
	return SyncCommittee{Pubkeys: pks, AggregatePubkey: env.AggregatePubkeys(pks)}
}
