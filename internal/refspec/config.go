package refspec

import "verif/internal/refssz"

type ForkID int

const (
	Phase0 ForkID = iota
	Altair
	Bellatrix
	Capella
	Deneb
)

var ForkNames = []string{"phase0", "altair", "bellatrix", "capella", "deneb"}

const FarFutureEpoch = ^uint64(0)

// Cfg: every preset / config number the phase0…deneb specification uses. Filled by the harness.
type Cfg struct {
	// phase0 preset
	MaxCommitteesPerSlot, TargetCommitteeSize, MaxValidatorsPerCommittee, ShuffleRoundCount         uint64
	HysteresisQuotient, HysteresisDownwardMultiplier, HysteresisUpwardMultiplier                    uint64
	MinDepositAmount, MaxEffectiveBalance, EffectiveBalanceIncrement                                uint64
	MinAttestationInclusionDelay, SlotsPerEpoch, MinSeedLookahead, MaxSeedLookahead                 uint64
	EpochsPerEth1VotingPeriod, SlotsPerHistoricalRoot, MinEpochsToInactivityPenalty                 uint64
	EpochsPerHistoricalVector, EpochsPerSlashingsVector, HistoricalRootsLimit, ValidatorRegistryLimit uint64
	BaseRewardFactor, WhistleblowerRewardQuotient, ProposerRewardQuotient                           uint64
	InactivityPenaltyQuotient, MinSlashingPenaltyQuotient, ProportionalSlashingMultiplier           uint64
	MaxProposerSlashings, MaxAttesterSlashings, MaxAttestations, MaxDeposits, MaxVoluntaryExits     uint64
	// altair
	InactivityPenaltyQuotientAltair, MinSlashingPenaltyQuotientAltair, ProportionalSlashingMultiplierAltair uint64
	SyncCommitteeSize, EpochsPerSyncCommitteePeriod                                                       uint64
	InactivityScoreBias, InactivityScoreRecoveryRate                                                      uint64
	// bellatrix
	InactivityPenaltyQuotientBellatrix, MinSlashingPenaltyQuotientBellatrix, ProportionalSlashingMultiplierBellatrix uint64
	MaxBytesPerTransaction, MaxTransactionsPerPayload, BytesPerLogsBloom, MaxExtraDataBytes                       uint64
	// capella
	MaxBLSToExecutionChanges, MaxWithdrawalsPerPayload, MaxValidatorsPerWithdrawalsSweep uint64
	// deneb
	MaxBlobCommitmentsPerBlock, MaxBlobsPerBlock, MaxPerEpochActivationChurnLimit uint64
	// config
	MinGenesisActiveValidatorCount, MinGenesisTime, GenesisDelay uint64
	GenesisForkVersion                                           Version
	ForkVersions                                                 [5]Version // per ForkID
	ForkEpochs                                                   [5]uint64  // per ForkID ([0] = 0)
	SecondsPerSlot, MinValidatorWithdrawabilityDelay, ShardCommitteePeriod uint64
	EjectionBalance, MinPerEpochChurnLimit, ChurnLimitQuotient             uint64

	params refssz.Params
}

// spec-level constants
const (
	BaseRewardsPerEpoch       = 4
	DepositContractTreeDepth  = 32
	JustificationBitsLength   = 4
	TimelySourceFlagIndex     = 0
	TimelyTargetFlagIndex     = 1
	TimelyHeadFlagIndex       = 2
	TimelySourceWeight        = 14
	TimelyTargetWeight        = 26
	TimelyHeadWeight          = 14
	SyncRewardWeight          = 2
	ProposerWeight            = 8
	WeightDenominator         = 64
	BLSWithdrawalPrefix       = 0
	Eth1AddressWithdrawalPrefix = 1
)

var ParticipationFlagWeights = []uint64{TimelySourceWeight, TimelyTargetWeight, TimelyHeadWeight}

var (
	DomainBeaconProposer       = [4]byte{0, 0, 0, 0}
	DomainBeaconAttester       = [4]byte{1, 0, 0, 0}
	DomainRandao               = [4]byte{2, 0, 0, 0}
	DomainDeposit              = [4]byte{3, 0, 0, 0}
	DomainVoluntaryExit        = [4]byte{4, 0, 0, 0}
	DomainSelectionProof       = [4]byte{5, 0, 0, 0}
	DomainAggregateAndProof    = [4]byte{6, 0, 0, 0}
	DomainSyncCommittee        = [4]byte{7, 0, 0, 0}
	DomainSyncCommitteeSelectionProof = [4]byte{8, 0, 0, 0}
	DomainContributionAndProof = [4]byte{9, 0, 0, 0}
	DomainBLSToExecutionChange = [4]byte{10, 0, 0, 0}
)

// Params: the named constants used in the ssz tags of types.go.
func (c *Cfg) Params() refssz.Params {
	if c.params == nil {
		c.params = refssz.Params{
			"MAX_VALIDATORS_PER_COMMITTEE":     c.MaxValidatorsPerCommittee,
			"SLOTS_PER_HISTORICAL_ROOT":        c.SlotsPerHistoricalRoot,
			"HISTORICAL_ROOTS_LIMIT":           c.HistoricalRootsLimit,
			"ETH1_DATA_VOTES_LIMIT":            c.EpochsPerEth1VotingPeriod * c.SlotsPerEpoch,
			"VALIDATOR_REGISTRY_LIMIT":         c.ValidatorRegistryLimit,
			"EPOCHS_PER_HISTORICAL_VECTOR":     c.EpochsPerHistoricalVector,
			"EPOCHS_PER_SLASHINGS_VECTOR":      c.EpochsPerSlashingsVector,
			"PENDING_ATTESTATIONS_LIMIT":       c.MaxAttestations * c.SlotsPerEpoch,
			"MAX_PROPOSER_SLASHINGS":           c.MaxProposerSlashings,
			"MAX_ATTESTER_SLASHINGS":           c.MaxAttesterSlashings,
			"MAX_ATTESTATIONS":                 c.MaxAttestations,
			"MAX_DEPOSITS":                     c.MaxDeposits,
			"MAX_VOLUNTARY_EXITS":              c.MaxVoluntaryExits,
			"SYNC_COMMITTEE_SIZE":              c.SyncCommitteeSize,
			"BYTES_PER_LOGS_BLOOM":             c.BytesPerLogsBloom,
			"MAX_EXTRA_DATA_BYTES":             c.MaxExtraDataBytes,
			"MAX_TRANSACTIONS_PER_PAYLOAD":     c.MaxTransactionsPerPayload,
			"MAX_BYTES_PER_TRANSACTION":        c.MaxBytesPerTransaction,
			"MAX_WITHDRAWALS_PER_PAYLOAD":      c.MaxWithdrawalsPerPayload,
			"MAX_BLS_TO_EXECUTION_CHANGES":     c.MaxBLSToExecutionChanges,
			"MAX_BLOB_COMMITMENTS_PER_BLOCK":   c.MaxBlobCommitmentsPerBlock,
		}
	}
	return c.params
}

// ForkAtEpoch: the fork whose rules apply at the given epoch (later forks at the same epoch win).
func (c *Cfg) ForkAtEpoch(e uint64) ForkID {
	f := Phase0
	for i := Altair; i <= Deneb; i++ {
		if c.ForkEpochs[i] != FarFutureEpoch && e >= c.ForkEpochs[i] {
			f = i
		}
	}
	return f
}
