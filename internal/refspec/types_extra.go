package refspec

// Remaining specification containers that zrnt exports (validator / networking / light-client draft /
// electra), written from the specification. Used as schemas by C04/C05.

// ---------------- phase0 validator + networking

type AggregateAndProof struct {
	AggregatorIndex uint64
	Aggregate       Attestation
	SelectionProof  Signature
}

type SignedAggregateAndProof struct {
	Message   AggregateAndProof
	Signature Signature
}

type Status struct {
	ForkDigest     [4]byte
	FinalizedRoot  Root
	FinalizedEpoch uint64
	HeadRoot       Root
	HeadSlot       uint64
}

type MetaData struct {
	SeqNumber uint64
	Attnets   []bool `ssz:"bitvector,len=64"`
	Syncnets  []bool `ssz:"bitvector,len=4"`
}

type ENRForkID struct {
	ForkDigest      [4]byte
	NextForkVersion Version
	NextForkEpoch   uint64
}

// ---------------- altair validator / light client (as exported by zrnt)

type SyncCommitteeMessage struct {
	Slot            uint64
	BeaconBlockRoot Root
	ValidatorIndex  uint64
	Signature       Signature
}

type SyncCommitteeContribution struct {
	Slot              uint64
	BeaconBlockRoot   Root
	SubcommitteeIndex uint64
	AggregationBits   []bool `ssz:"bitvector,len=SYNC_SUBCOMMITTEE_SIZE"`
	Signature         Signature
}

type ContributionAndProof struct {
	AggregatorIndex uint64
	Contribution    SyncCommitteeContribution
	SelectionProof  Signature
}

type SignedContributionAndProof struct {
	Message   ContributionAndProof
	Signature Signature
}

type SyncAggregatorSelectionData struct {
	Slot              uint64
	SubcommitteeIndex uint64
}

type LightClientSnapshot struct {
	Header               BeaconBlockHeader
	CurrentSyncCommittee SyncCommittee
	NextSyncCommittee    SyncCommittee
}

type LightClientUpdate struct {
	AttestedHeader          BeaconBlockHeader
	NextSyncCommittee       SyncCommittee
	NextSyncCommitteeBranch []Root `ssz:"vector,len=5"`
	FinalizedHeader         BeaconBlockHeader
	FinalityBranch          []Root `ssz:"vector,len=6"`
	SyncAggregate           SyncAggregate
	SignatureSlot           uint64
}

// ---------------- electra

type AttestationElectra struct {
	AggregationBits []bool `ssz:"bitlist,limit=MAX_ATTESTING_INDICES_ELECTRA"`
	Data            AttestationData
	Signature       Signature
	CommitteeBits   []bool `ssz:"bitvector,len=MAX_COMMITTEES_PER_SLOT"`
}

type IndexedAttestationElectra struct {
	AttestingIndices []uint64 `ssz:"list,limit=MAX_ATTESTING_INDICES_ELECTRA"`
	Data             AttestationData
	Signature        Signature
}

type AttesterSlashingElectra struct {
	Attestation1 IndexedAttestationElectra
	Attestation2 IndexedAttestationElectra
}

type SingleAttestation struct {
	CommitteeIndex uint64
	AttesterIndex  uint64
	Data           AttestationData
	Signature      Signature
}

type AggregateAndProofElectra struct {
	AggregatorIndex uint64
	Aggregate       AttestationElectra
	SelectionProof  Signature
}

type SignedAggregateAndProofElectra struct {
	Message   AggregateAndProofElectra
	Signature Signature
}

type DepositRequest struct {
	Pubkey                Pubkey
	WithdrawalCredentials Bytes32
	Amount                uint64
	Signature             Signature
	Index                 uint64
}

type WithdrawalRequest struct {
	SourceAddress   Address
	ValidatorPubkey Pubkey
	Amount          uint64
}

type ConsolidationRequest struct {
	SourceAddress Address
	SourcePubkey  Pubkey
	TargetPubkey  Pubkey
}

type ExecutionRequests struct {
	Deposits       []DepositRequest       `ssz:"list,limit=MAX_DEPOSIT_REQUESTS_PER_PAYLOAD"`
	Withdrawals    []WithdrawalRequest    `ssz:"list,limit=MAX_WITHDRAWAL_REQUESTS_PER_PAYLOAD"`
	Consolidations []ConsolidationRequest `ssz:"list,limit=MAX_CONSOLIDATION_REQUESTS_PER_PAYLOAD"`
}

type PendingDeposit struct {
	Pubkey                Pubkey
	WithdrawalCredentials Bytes32
	Amount                uint64
	Signature             Signature
	Slot                  uint64
}

type PendingPartialWithdrawal struct {
	ValidatorIndex    uint64
	Amount            uint64
	WithdrawableEpoch uint64
}

type PendingConsolidation struct {
	SourceIndex uint64
	TargetIndex uint64
}

type BeaconBlockBodyElectra struct {
	RandaoReveal          Signature
	Eth1Data              Eth1Data
	Graffiti              Bytes32
	ProposerSlashings     []ProposerSlashing        `ssz:"list,limit=MAX_PROPOSER_SLASHINGS"`
	AttesterSlashings     []AttesterSlashingElectra `ssz:"list,limit=MAX_ATTESTER_SLASHINGS_ELECTRA"`
	Attestations          []AttestationElectra      `ssz:"list,limit=MAX_ATTESTATIONS_ELECTRA"`
	Deposits              []Deposit                 `ssz:"list,limit=MAX_DEPOSITS"`
	VoluntaryExits        []SignedVoluntaryExit     `ssz:"list,limit=MAX_VOLUNTARY_EXITS"`
	SyncAggregate         SyncAggregate
	ExecutionPayload      ExecutionPayloadDeneb
	BLSToExecutionChanges []SignedBLSToExecutionChange `ssz:"list,limit=MAX_BLS_TO_EXECUTION_CHANGES"`
	BlobKZGCommitments    []Pubkey                     `ssz:"list,limit=MAX_BLOB_COMMITMENTS_PER_BLOCK"`
	ExecutionRequests     ExecutionRequests
}

type BeaconBlockElectra struct {
	Slot          uint64
	ProposerIndex uint64
	ParentRoot    Root
	StateRoot     Root
	Body          BeaconBlockBodyElectra
}

type SignedBeaconBlockElectra struct {
	Message   BeaconBlockElectra
	Signature Signature
}

type BeaconStateElectra struct {
	GenesisTime                   uint64
	GenesisValidatorsRoot         Root
	Slot                          uint64
	Fork                          Fork
	LatestBlockHeader             BeaconBlockHeader
	BlockRoots                    []Root      `ssz:"vector,len=SLOTS_PER_HISTORICAL_ROOT"`
	StateRoots                    []Root      `ssz:"vector,len=SLOTS_PER_HISTORICAL_ROOT"`
	HistoricalRoots               []Root      `ssz:"list,limit=HISTORICAL_ROOTS_LIMIT"`
	Eth1Data                      Eth1Data
	Eth1DataVotes                 []Eth1Data  `ssz:"list,limit=ETH1_DATA_VOTES_LIMIT"`
	Eth1DepositIndex              uint64
	Validators                    []Validator `ssz:"list,limit=VALIDATOR_REGISTRY_LIMIT"`
	Balances                      []uint64    `ssz:"list,limit=VALIDATOR_REGISTRY_LIMIT"`
	RandaoMixes                   []Bytes32   `ssz:"vector,len=EPOCHS_PER_HISTORICAL_VECTOR"`
	Slashings                     []uint64    `ssz:"vector,len=EPOCHS_PER_SLASHINGS_VECTOR"`
	PreviousEpochParticipation    []uint8     `ssz:"list,limit=VALIDATOR_REGISTRY_LIMIT"`
	CurrentEpochParticipation     []uint8     `ssz:"list,limit=VALIDATOR_REGISTRY_LIMIT"`
	JustificationBits             []bool      `ssz:"bitvector,len=4"`
	PreviousJustifiedCheckpoint   Checkpoint
	CurrentJustifiedCheckpoint    Checkpoint
	FinalizedCheckpoint           Checkpoint
	InactivityScores              []uint64 `ssz:"list,limit=VALIDATOR_REGISTRY_LIMIT"`
	CurrentSyncCommittee          SyncCommittee
	NextSyncCommittee             SyncCommittee
	LatestExecutionPayloadHeader  ExecutionPayloadHeaderDeneb
	NextWithdrawalIndex           uint64
	NextWithdrawalValidatorIndex  uint64
	HistoricalSummaries           []HistoricalSummary `ssz:"list,limit=HISTORICAL_ROOTS_LIMIT"`
	DepositRequestsStartIndex     uint64
	DepositBalanceToConsume       uint64
	ExitBalanceToConsume          uint64
	EarliestExitEpoch             uint64
	ConsolidationBalanceToConsume uint64
	EarliestConsolidationEpoch    uint64
	PendingDeposits               []PendingDeposit           `ssz:"list,limit=PENDING_DEPOSITS_LIMIT"`
	PendingPartialWithdrawals     []PendingPartialWithdrawal `ssz:"list,limit=PENDING_PARTIAL_WITHDRAWALS_LIMIT"`
	PendingConsolidations         []PendingConsolidation     `ssz:"list,limit=PENDING_CONSOLIDATIONS_LIMIT"`
}

// "shallow" block bodies (execution payload replaced by its root), as used for block-body proofs
type BeaconBlockBodyShallowBellatrix struct {
	RandaoReveal         Signature
	Eth1Data             Eth1Data
	Graffiti             Bytes32
	ProposerSlashings    []ProposerSlashing    `ssz:"list,limit=MAX_PROPOSER_SLASHINGS"`
	AttesterSlashings    []AttesterSlashing    `ssz:"list,limit=MAX_ATTESTER_SLASHINGS"`
	Attestations         []Attestation         `ssz:"list,limit=MAX_ATTESTATIONS"`
	Deposits             []Deposit             `ssz:"list,limit=MAX_DEPOSITS"`
	VoluntaryExits       []SignedVoluntaryExit `ssz:"list,limit=MAX_VOLUNTARY_EXITS"`
	SyncAggregate        SyncAggregate
	ExecutionPayloadRoot Root
}
