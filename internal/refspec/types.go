// Package refspec: the consensus-specs containers (phase0 … deneb) and state transition, written
// from the specification (DESIGN.md Appendix C). Plain structs + refssz tags, no caches, no views.
// These structs are simultaneously "the specification's schema" for C04/C05.
package refspec

type Root = [32]byte
type Bytes32 = [32]byte
type Pubkey = [48]byte
type Signature = [96]byte
type Version = [4]byte
type Address = [20]byte
type Bloom []byte

// ---------------- phase0

type Fork struct {
	PreviousVersion Version
	CurrentVersion  Version
	Epoch           uint64
}

type ForkData struct {
	CurrentVersion        Version
	GenesisValidatorsRoot Root
}

type SigningData struct {
	ObjectRoot Root
	Domain     Bytes32
}

type Checkpoint struct {
	Epoch uint64
	Root  Root
}

type Validator struct {
	Pubkey                     Pubkey
	WithdrawalCredentials      Bytes32
	EffectiveBalance           uint64
	Slashed                    bool
	ActivationEligibilityEpoch uint64
	ActivationEpoch            uint64
	ExitEpoch                  uint64
	WithdrawableEpoch          uint64
}

type AttestationData struct {
	Slot            uint64
	Index           uint64
	BeaconBlockRoot Root
	Source          Checkpoint
	Target          Checkpoint
}

type IndexedAttestation struct {
	AttestingIndices []uint64 `ssz:"list,limit=MAX_VALIDATORS_PER_COMMITTEE"`
	Data             AttestationData
	Signature        Signature
}

type PendingAttestation struct {
	AggregationBits []bool `ssz:"bitlist,limit=MAX_VALIDATORS_PER_COMMITTEE"`
	Data            AttestationData
	InclusionDelay  uint64
	ProposerIndex   uint64
}

type Eth1Data struct {
	DepositRoot  Root
	DepositCount uint64
	BlockHash    Bytes32
}

type HistoricalBatch struct {
	BlockRoots []Root `ssz:"vector,len=SLOTS_PER_HISTORICAL_ROOT"`
	StateRoots []Root `ssz:"vector,len=SLOTS_PER_HISTORICAL_ROOT"`
}

type DepositMessage struct {
	Pubkey                Pubkey
	WithdrawalCredentials Bytes32
	Amount                uint64
}

type DepositData struct {
	Pubkey                Pubkey
	WithdrawalCredentials Bytes32
	Amount                uint64
	Signature             Signature
}

type BeaconBlockHeader struct {
	Slot          uint64
	ProposerIndex uint64
	ParentRoot    Root
	StateRoot     Root
	BodyRoot      Root
}

type SignedBeaconBlockHeader struct {
	Message   BeaconBlockHeader
	Signature Signature
}

type ProposerSlashing struct {
	SignedHeader1 SignedBeaconBlockHeader
	SignedHeader2 SignedBeaconBlockHeader
}

type AttesterSlashing struct {
	Attestation1 IndexedAttestation
	Attestation2 IndexedAttestation
}

type Attestation struct {
	AggregationBits []bool `ssz:"bitlist,limit=MAX_VALIDATORS_PER_COMMITTEE"`
	Data            AttestationData
	Signature       Signature
}

type Deposit struct {
	Proof []Root `ssz:"vector,len=33"`
	Data  DepositData
}

type VoluntaryExit struct {
	Epoch          uint64
	ValidatorIndex uint64
}

type SignedVoluntaryExit struct {
	Message   VoluntaryExit
	Signature Signature
}

type BeaconBlockBodyPhase0 struct {
	RandaoReveal      Signature
	Eth1Data          Eth1Data
	Graffiti          Bytes32
	ProposerSlashings []ProposerSlashing    `ssz:"list,limit=MAX_PROPOSER_SLASHINGS"`
	AttesterSlashings []AttesterSlashing    `ssz:"list,limit=MAX_ATTESTER_SLASHINGS"`
	Attestations      []Attestation         `ssz:"list,limit=MAX_ATTESTATIONS"`
	Deposits          []Deposit             `ssz:"list,limit=MAX_DEPOSITS"`
	VoluntaryExits    []SignedVoluntaryExit `ssz:"list,limit=MAX_VOLUNTARY_EXITS"`
}

type BeaconBlockPhase0 struct {
	Slot          uint64
	ProposerIndex uint64
	ParentRoot    Root
	StateRoot     Root
	Body          BeaconBlockBodyPhase0
}

type SignedBeaconBlockPhase0 struct {
	Message   BeaconBlockPhase0
	Signature Signature
}

type BeaconStatePhase0 struct {
	GenesisTime                 uint64
	GenesisValidatorsRoot       Root
	Slot                        uint64
	Fork                        Fork
	LatestBlockHeader           BeaconBlockHeader
	BlockRoots                  []Root               `ssz:"vector,len=SLOTS_PER_HISTORICAL_ROOT"`
	StateRoots                  []Root               `ssz:"vector,len=SLOTS_PER_HISTORICAL_ROOT"`
	HistoricalRoots             []Root               `ssz:"list,limit=HISTORICAL_ROOTS_LIMIT"`
	Eth1Data                    Eth1Data
	Eth1DataVotes               []Eth1Data           `ssz:"list,limit=ETH1_DATA_VOTES_LIMIT"`
	Eth1DepositIndex            uint64
	Validators                  []Validator          `ssz:"list,limit=VALIDATOR_REGISTRY_LIMIT"`
	Balances                    []uint64             `ssz:"list,limit=VALIDATOR_REGISTRY_LIMIT"`
	RandaoMixes                 []Bytes32            `ssz:"vector,len=EPOCHS_PER_HISTORICAL_VECTOR"`
	Slashings                   []uint64             `ssz:"vector,len=EPOCHS_PER_SLASHINGS_VECTOR"`
	PreviousEpochAttestations   []PendingAttestation `ssz:"list,limit=PENDING_ATTESTATIONS_LIMIT"`
	CurrentEpochAttestations    []PendingAttestation `ssz:"list,limit=PENDING_ATTESTATIONS_LIMIT"`
	JustificationBits           []bool               `ssz:"bitvector,len=4"`
	PreviousJustifiedCheckpoint Checkpoint
	CurrentJustifiedCheckpoint  Checkpoint
	FinalizedCheckpoint         Checkpoint
}

// ---------------- altair

type SyncAggregate struct {
	SyncCommitteeBits      []bool `ssz:"bitvector,len=SYNC_COMMITTEE_SIZE"`
	SyncCommitteeSignature Signature
}

type SyncCommittee struct {
	Pubkeys         []Pubkey `ssz:"vector,len=SYNC_COMMITTEE_SIZE"`
	AggregatePubkey Pubkey
}

type BeaconBlockBodyAltair struct {
	RandaoReveal      Signature
	Eth1Data          Eth1Data
	Graffiti          Bytes32
	ProposerSlashings []ProposerSlashing    `ssz:"list,limit=MAX_PROPOSER_SLASHINGS"`
	AttesterSlashings []AttesterSlashing    `ssz:"list,limit=MAX_ATTESTER_SLASHINGS"`
	Attestations      []Attestation         `ssz:"list,limit=MAX_ATTESTATIONS"`
	Deposits          []Deposit             `ssz:"list,limit=MAX_DEPOSITS"`
	VoluntaryExits    []SignedVoluntaryExit `ssz:"list,limit=MAX_VOLUNTARY_EXITS"`
	SyncAggregate     SyncAggregate
}

type BeaconBlockAltair struct {
	Slot          uint64
	ProposerIndex uint64
	ParentRoot    Root
	StateRoot     Root
	Body          BeaconBlockBodyAltair
}

type SignedBeaconBlockAltair struct {
	Message   BeaconBlockAltair
	Signature Signature
}

type BeaconStateAltair struct {
	GenesisTime                 uint64
	GenesisValidatorsRoot       Root
	Slot                        uint64
	Fork                        Fork
	LatestBlockHeader           BeaconBlockHeader
	BlockRoots                  []Root      `ssz:"vector,len=SLOTS_PER_HISTORICAL_ROOT"`
	StateRoots                  []Root      `ssz:"vector,len=SLOTS_PER_HISTORICAL_ROOT"`
	HistoricalRoots             []Root      `ssz:"list,limit=HISTORICAL_ROOTS_LIMIT"`
	Eth1Data                    Eth1Data
	Eth1DataVotes               []Eth1Data  `ssz:"list,limit=ETH1_DATA_VOTES_LIMIT"`
	Eth1DepositIndex            uint64
	Validators                  []Validator `ssz:"list,limit=VALIDATOR_REGISTRY_LIMIT"`
	Balances                    []uint64    `ssz:"list,limit=VALIDATOR_REGISTRY_LIMIT"`
	RandaoMixes                 []Bytes32   `ssz:"vector,len=EPOCHS_PER_HISTORICAL_VECTOR"`
	Slashings                   []uint64    `ssz:"vector,len=EPOCHS_PER_SLASHINGS_VECTOR"`
	PreviousEpochParticipation  []uint8     `ssz:"list,limit=VALIDATOR_REGISTRY_LIMIT"`
	CurrentEpochParticipation   []uint8     `ssz:"list,limit=VALIDATOR_REGISTRY_LIMIT"`
	JustificationBits           []bool      `ssz:"bitvector,len=4"`
	PreviousJustifiedCheckpoint Checkpoint
	CurrentJustifiedCheckpoint  Checkpoint
	FinalizedCheckpoint         Checkpoint
	InactivityScores            []uint64 `ssz:"list,limit=VALIDATOR_REGISTRY_LIMIT"`
	CurrentSyncCommittee        SyncCommittee
	NextSyncCommittee           SyncCommittee
}

// ---------------- bellatrix

type ExecutionPayloadBellatrix struct {
	ParentHash    Bytes32
	FeeRecipient  Address
	StateRoot     Bytes32
	ReceiptsRoot  Bytes32
	LogsBloom     []byte `ssz:"bytevector,len=BYTES_PER_LOGS_BLOOM"`
	PrevRandao    Bytes32
	BlockNumber   uint64
	GasLimit      uint64
	GasUsed       uint64
	Timestamp     uint64
	ExtraData     []byte `ssz:"bytelist,limit=MAX_EXTRA_DATA_BYTES"`
	BaseFeePerGas Bytes32 // uint256, little endian
	BlockHash     Bytes32
	Transactions  [][]byte `ssz:"list,limit=MAX_TRANSACTIONS_PER_PAYLOAD;bytelist,limit=MAX_BYTES_PER_TRANSACTION"`
}

type ExecutionPayloadHeaderBellatrix struct {
	ParentHash       Bytes32
	FeeRecipient     Address
	StateRoot        Bytes32
	ReceiptsRoot     Bytes32
	LogsBloom        []byte `ssz:"bytevector,len=BYTES_PER_LOGS_BLOOM"`
	PrevRandao       Bytes32
	BlockNumber      uint64
	GasLimit         uint64
	GasUsed          uint64
	Timestamp        uint64
	ExtraData        []byte `ssz:"bytelist,limit=MAX_EXTRA_DATA_BYTES"`
	BaseFeePerGas    Bytes32
	BlockHash        Bytes32
	TransactionsRoot Root
}

type BeaconBlockBodyBellatrix struct {
	RandaoReveal      Signature
	Eth1Data          Eth1Data
	Graffiti          Bytes32
	ProposerSlashings []ProposerSlashing    `ssz:"list,limit=MAX_PROPOSER_SLASHINGS"`
	AttesterSlashings []AttesterSlashing    `ssz:"list,limit=MAX_ATTESTER_SLASHINGS"`
	Attestations      []Attestation         `ssz:"list,limit=MAX_ATTESTATIONS"`
	Deposits          []Deposit             `ssz:"list,limit=MAX_DEPOSITS"`
	VoluntaryExits    []SignedVoluntaryExit `ssz:"list,limit=MAX_VOLUNTARY_EXITS"`
	SyncAggregate     SyncAggregate
	ExecutionPayload  ExecutionPayloadBellatrix
}

type BeaconBlockBellatrix struct {
	Slot          uint64
	ProposerIndex uint64
	ParentRoot    Root
	StateRoot     Root
	Body          BeaconBlockBodyBellatrix
}

type SignedBeaconBlockBellatrix struct {
	Message   BeaconBlockBellatrix
	Signature Signature
}

type BeaconStateBellatrix struct {
	GenesisTime                  uint64
	GenesisValidatorsRoot        Root
	Slot                         uint64
	Fork                         Fork
	LatestBlockHeader            BeaconBlockHeader
	BlockRoots                   []Root      `ssz:"vector,len=SLOTS_PER_HISTORICAL_ROOT"`
	StateRoots                   []Root      `ssz:"vector,len=SLOTS_PER_HISTORICAL_ROOT"`
	HistoricalRoots              []Root      `ssz:"list,limit=HISTORICAL_ROOTS_LIMIT"`
	Eth1Data                     Eth1Data
	Eth1DataVotes                []Eth1Data  `ssz:"list,limit=ETH1_DATA_VOTES_LIMIT"`
	Eth1DepositIndex             uint64
	Validators                   []Validator `ssz:"list,limit=VALIDATOR_REGISTRY_LIMIT"`
	Balances                     []uint64    `ssz:"list,limit=VALIDATOR_REGISTRY_LIMIT"`
	RandaoMixes                  []Bytes32   `ssz:"vector,len=EPOCHS_PER_HISTORICAL_VECTOR"`
	Slashings                    []uint64    `ssz:"vector,len=EPOCHS_PER_SLASHINGS_VECTOR"`
	PreviousEpochParticipation   []uint8     `ssz:"list,limit=VALIDATOR_REGISTRY_LIMIT"`
	CurrentEpochParticipation    []uint8     `ssz:"list,limit=VALIDATOR_REGISTRY_LIMIT"`
	JustificationBits            []bool      `ssz:"bitvector,len=4"`
	PreviousJustifiedCheckpoint  Checkpoint
	CurrentJustifiedCheckpoint   Checkpoint
	FinalizedCheckpoint          Checkpoint
	InactivityScores             []uint64 `ssz:"list,limit=VALIDATOR_REGISTRY_LIMIT"`
	CurrentSyncCommittee         SyncCommittee
	NextSyncCommittee            SyncCommittee
	LatestExecutionPayloadHeader ExecutionPayloadHeaderBellatrix
}

// ---------------- capella

type Withdrawal struct {
	Index          uint64
	ValidatorIndex uint64
	Address        Address
	Amount         uint64
}

type BLSToExecutionChange struct {
	ValidatorIndex     uint64
	FromBLSPubkey      Pubkey
	ToExecutionAddress Address
}

type SignedBLSToExecutionChange struct {
	Message   BLSToExecutionChange
	Signature Signature
}

type HistoricalSummary struct {
	BlockSummaryRoot Root
	StateSummaryRoot Root
}

type ExecutionPayloadCapella struct {
	ParentHash    Bytes32
	FeeRecipient  Address
	StateRoot     Bytes32
	ReceiptsRoot  Bytes32
	LogsBloom     []byte `ssz:"bytevector,len=BYTES_PER_LOGS_BLOOM"`
	PrevRandao    Bytes32
	BlockNumber   uint64
	GasLimit      uint64
	GasUsed       uint64
	Timestamp     uint64
	ExtraData     []byte `ssz:"bytelist,limit=MAX_EXTRA_DATA_BYTES"`
	BaseFeePerGas Bytes32
	BlockHash     Bytes32
	Transactions  [][]byte     `ssz:"list,limit=MAX_TRANSACTIONS_PER_PAYLOAD;bytelist,limit=MAX_BYTES_PER_TRANSACTION"`
	Withdrawals   []Withdrawal `ssz:"list,limit=MAX_WITHDRAWALS_PER_PAYLOAD"`
}

type ExecutionPayloadHeaderCapella struct {
	ParentHash       Bytes32
	FeeRecipient     Address
	StateRoot        Bytes32
	ReceiptsRoot     Bytes32
	LogsBloom        []byte `ssz:"bytevector,len=BYTES_PER_LOGS_BLOOM"`
	PrevRandao       Bytes32
	BlockNumber      uint64
	GasLimit         uint64
	GasUsed          uint64
	Timestamp        uint64
	ExtraData        []byte `ssz:"bytelist,limit=MAX_EXTRA_DATA_BYTES"`
	BaseFeePerGas    Bytes32
	BlockHash        Bytes32
	TransactionsRoot Root
	WithdrawalsRoot  Root
}

type BeaconBlockBodyCapella struct {
	RandaoReveal          Signature
	Eth1Data              Eth1Data
	Graffiti              Bytes32
	ProposerSlashings     []ProposerSlashing    `ssz:"list,limit=MAX_PROPOSER_SLASHINGS"`
	AttesterSlashings     []AttesterSlashing    `ssz:"list,limit=MAX_ATTESTER_SLASHINGS"`
	Attestations          []Attestation         `ssz:"list,limit=MAX_ATTESTATIONS"`
	Deposits              []Deposit             `ssz:"list,limit=MAX_DEPOSITS"`
	VoluntaryExits        []SignedVoluntaryExit `ssz:"list,limit=MAX_VOLUNTARY_EXITS"`
	SyncAggregate         SyncAggregate
	ExecutionPayload      ExecutionPayloadCapella
	BLSToExecutionChanges []SignedBLSToExecutionChange `ssz:"list,limit=MAX_BLS_TO_EXECUTION_CHANGES"`
}

type BeaconBlockCapella struct {
	Slot          uint64
	ProposerIndex uint64
	ParentRoot    Root
	StateRoot     Root
	Body          BeaconBlockBodyCapella
}

type SignedBeaconBlockCapella struct {
	Message   BeaconBlockCapella
	Signature Signature
}

type BeaconStateCapella struct {
	GenesisTime                  uint64
	GenesisValidatorsRoot        Root
	Slot                         uint64
	Fork                         Fork
	LatestBlockHeader            BeaconBlockHeader
	BlockRoots                   []Root      `ssz:"vector,len=SLOTS_PER_HISTORICAL_ROOT"`
	StateRoots                   []Root      `ssz:"vector,len=SLOTS_PER_HISTORICAL_ROOT"`
	HistoricalRoots              []Root      `ssz:"list,limit=HISTORICAL_ROOTS_LIMIT"`
	Eth1Data                     Eth1Data
	Eth1DataVotes                []Eth1Data  `ssz:"list,limit=ETH1_DATA_VOTES_LIMIT"`
	Eth1DepositIndex             uint64
	Validators                   []Validator `ssz:"list,limit=VALIDATOR_REGISTRY_LIMIT"`
	Balances                     []uint64    `ssz:"list,limit=VALIDATOR_REGISTRY_LIMIT"`
	RandaoMixes                  []Bytes32   `ssz:"vector,len=EPOCHS_PER_HISTORICAL_VECTOR"`
	Slashings                    []uint64    `ssz:"vector,len=EPOCHS_PER_SLASHINGS_VECTOR"`
	PreviousEpochParticipation   []uint8     `ssz:"list,limit=VALIDATOR_REGISTRY_LIMIT"`
	CurrentEpochParticipation    []uint8     `ssz:"list,limit=VALIDATOR_REGISTRY_LIMIT"`
	JustificationBits            []bool      `ssz:"bitvector,len=4"`
	PreviousJustifiedCheckpoint  Checkpoint
	CurrentJustifiedCheckpoint   Checkpoint
	FinalizedCheckpoint          Checkpoint
	InactivityScores             []uint64 `ssz:"list,limit=VALIDATOR_REGISTRY_LIMIT"`
	CurrentSyncCommittee         SyncCommittee
	NextSyncCommittee            SyncCommittee
	LatestExecutionPayloadHeader ExecutionPayloadHeaderCapella
	NextWithdrawalIndex          uint64
	NextWithdrawalValidatorIndex uint64
	HistoricalSummaries          []HistoricalSummary `ssz:"list,limit=HISTORICAL_ROOTS_LIMIT"`
}

// ---------------- deneb

type ExecutionPayloadDeneb struct {
	ParentHash    Bytes32
	FeeRecipient  Address
	StateRoot     Bytes32
	ReceiptsRoot  Bytes32
	LogsBloom     []byte `ssz:"bytevector,len=BYTES_PER_LOGS_BLOOM"`
	PrevRandao    Bytes32
	BlockNumber   uint64
	GasLimit      uint64
	GasUsed       uint64
	Timestamp     uint64
	ExtraData     []byte `ssz:"bytelist,limit=MAX_EXTRA_DATA_BYTES"`
	BaseFeePerGas Bytes32
	BlockHash     Bytes32
	Transactions  [][]byte     `ssz:"list,limit=MAX_TRANSACTIONS_PER_PAYLOAD;bytelist,limit=MAX_BYTES_PER_TRANSACTION"`
	Withdrawals   []Withdrawal `ssz:"list,limit=MAX_WITHDRAWALS_PER_PAYLOAD"`
	BlobGasUsed   uint64
	ExcessBlobGas uint64
}

type ExecutionPayloadHeaderDeneb struct {
	ParentHash       Bytes32
	FeeRecipient     Address
	StateRoot        Bytes32
	ReceiptsRoot     Bytes32
	LogsBloom        []byte `ssz:"bytevector,len=BYTES_PER_LOGS_BLOOM"`
	PrevRandao       Bytes32
	BlockNumber      uint64
	GasLimit         uint64
	GasUsed          uint64
	Timestamp        uint64
	ExtraData        []byte `ssz:"bytelist,limit=MAX_EXTRA_DATA_BYTES"`
	BaseFeePerGas    Bytes32
	BlockHash        Bytes32
	TransactionsRoot Root
	WithdrawalsRoot  Root
	BlobGasUsed      uint64
	ExcessBlobGas    uint64
}

type BeaconBlockBodyDeneb struct {
	RandaoReveal          Signature
	Eth1Data              Eth1Data
	Graffiti              Bytes32
	ProposerSlashings     []ProposerSlashing    `ssz:"list,limit=MAX_PROPOSER_SLASHINGS"`
	AttesterSlashings     []AttesterSlashing    `ssz:"list,limit=MAX_ATTESTER_SLASHINGS"`
	Attestations          []Attestation         `ssz:"list,limit=MAX_ATTESTATIONS"`
	Deposits              []Deposit             `ssz:"list,limit=MAX_DEPOSITS"`
	VoluntaryExits        []SignedVoluntaryExit `ssz:"list,limit=MAX_VOLUNTARY_EXITS"`
	SyncAggregate         SyncAggregate
	ExecutionPayload      ExecutionPayloadDeneb
	BLSToExecutionChanges []SignedBLSToExecutionChange `ssz:"list,limit=MAX_BLS_TO_EXECUTION_CHANGES"`
	BlobKZGCommitments    []Pubkey                     `ssz:"list,limit=MAX_BLOB_COMMITMENTS_PER_BLOCK"`
}

type BeaconBlockDeneb struct {
	Slot          uint64
	ProposerIndex uint64
	ParentRoot    Root
	StateRoot     Root
	Body          BeaconBlockBodyDeneb
}

type SignedBeaconBlockDeneb struct {
	Message   BeaconBlockDeneb
	Signature Signature
}

type BeaconStateDeneb struct {
	GenesisTime                  uint64
	GenesisValidatorsRoot        Root
	Slot                         uint64
	Fork                         Fork
	LatestBlockHeader            BeaconBlockHeader
	BlockRoots                   []Root      `ssz:"vector,len=SLOTS_PER_HISTORICAL_ROOT"`
	StateRoots                   []Root      `ssz:"vector,len=SLOTS_PER_HISTORICAL_ROOT"`
	HistoricalRoots              []Root      `ssz:"list,limit=HISTORICAL_ROOTS_LIMIT"`
	Eth1Data                     Eth1Data
	Eth1DataVotes                []Eth1Data  `ssz:"list,limit=ETH1_DATA_VOTES_LIMIT"`
	Eth1DepositIndex             uint64
	Validators                   []Validator `ssz:"list,limit=VALIDATOR_REGISTRY_LIMIT"`
	Balances                     []uint64    `ssz:"list,limit=VALIDATOR_REGISTRY_LIMIT"`
	RandaoMixes                  []Bytes32   `ssz:"vector,len=EPOCHS_PER_HISTORICAL_VECTOR"`
	Slashings                    []uint64    `ssz:"vector,len=EPOCHS_PER_SLASHINGS_VECTOR"`
	PreviousEpochParticipation   []uint8     `ssz:"list,limit=VALIDATOR_REGISTRY_LIMIT"`
	CurrentEpochParticipation    []uint8     `ssz:"list,limit=VALIDATOR_REGISTRY_LIMIT"`
	JustificationBits            []bool      `ssz:"bitvector,len=4"`
	PreviousJustifiedCheckpoint  Checkpoint
	CurrentJustifiedCheckpoint   Checkpoint
	FinalizedCheckpoint          Checkpoint
	InactivityScores             []uint64 `ssz:"list,limit=VALIDATOR_REGISTRY_LIMIT"`
	CurrentSyncCommittee         SyncCommittee
	NextSyncCommittee            SyncCommittee
	LatestExecutionPayloadHeader ExecutionPayloadHeaderDeneb
	NextWithdrawalIndex          uint64
	NextWithdrawalValidatorIndex uint64
	HistoricalSummaries          []HistoricalSummary `ssz:"list,limit=HISTORICAL_ROOTS_LIMIT"`
}
