package refspec

import (
	"verif/internal/refssz"
)

// ---------------------------------------------------------------- upgrades (in place)

func (env *Env) UpgradeToAltair(s *State) {
	c := env.C
	epoch := s.CurrentEpoch(c)
	prevAtts := s.PreviousEpochAttestations
	pre := *s // shallow copy for reading committees with phase0 content
	s.F = Altair
	s.Fork = Fork{PreviousVersion: s.Fork.CurrentVersion, CurrentVersion: c.ForkVersions[Altair], Epoch: epoch}
	n := len(s.Validators)
	s.PreviousEpochParticipation = make([]uint8, n)
	s.CurrentEpochParticipation = make([]uint8, n)
	s.InactivityScores = make([]uint64, n)
	s.PreviousEpochAttestations = nil
	s.CurrentEpochAttestations = nil
	// translate_participation(post, pre.previous_epoch_attestations)
	for i := range prevAtts {
		a := &prevAtts[i]
		flags := env.participationFlagIndices(s, &a.Data, a.InclusionDelay)
		for _, vi := range pre.AttestingIndices(c, &a.Data, a.AggregationBits) {
			for _, f := range flags {
				s.PreviousEpochParticipation[vi] |= 1 << f
			}
		}
	}
	// Fill in sync committees. Note: a duplicate committee is assigned for the current and next committee at the fork boundary
	sc := env.NextSyncCommittee(s)
	s.CurrentSyncCommittee = sc
	s.NextSyncCommittee = SyncCommittee{Pubkeys: append([]Pubkey{}, sc.Pubkeys...), AggregatePubkey: sc.AggregatePubkey}
}

func (env *Env) UpgradeToBellatrix(s *State) {
	c := env.C
	s.F = Bellatrix
	s.Fork = Fork{PreviousVersion: s.Fork.CurrentVersion, CurrentVersion: c.ForkVersions[Bellatrix], Epoch: s.CurrentEpoch(c)}
	s.LatestExecutionPayloadHeader = DefaultPayloadHeader(c)
}

func (env *Env) UpgradeToCapella(s *State) {
	c := env.C
	s.F = Capella
	s.Fork = Fork{PreviousVersion: s.Fork.CurrentVersion, CurrentVersion: c.ForkVersions[Capella], Epoch: s.CurrentEpoch(c)}
	s.LatestExecutionPayloadHeader.WithdrawalsRoot = Root{}
	s.NextWithdrawalIndex = 0
	s.NextWithdrawalValidatorIndex = 0
	s.HistoricalSummaries = nil
}

func (env *Env) UpgradeToDeneb(s *State) {
	c := env.C
	s.F = Deneb
	s.Fork = Fork{PreviousVersion: s.Fork.CurrentVersion, CurrentVersion: c.ForkVersions[Deneb], Epoch: s.CurrentEpoch(c)}
	s.LatestExecutionPayloadHeader.BlobGasUsed = 0
	s.LatestExecutionPayloadHeader.ExcessBlobGas = 0
}

// ---------------------------------------------------------------- genesis

// depositListRoot: hash_tree_root(List[DepositData, 2**DEPOSIT_CONTRACT_TREE_DEPTH](leaves[:n])).
func depositListRoot(datas []DepositData) Root {
	type dl struct {
		D []DepositData `ssz:"list,limit=4294967296"`
	}
	return refssz.Root(&dl{datas}, nil)
}

// InitializeBeaconStateFromEth1: phase0 initialize_beacon_state_from_eth1. Deposit proofs are
// checked against the incrementally built deposit list root, as in the specification.
func (env *Env) InitializeBeaconStateFromEth1(eth1BlockHash Bytes32, eth1Timestamp uint64, deposits []Deposit) (st *State, err error) {
	defer func() {
		if r := recover(); r != nil {
			switch e := r.(type) {
			case specErr:
				err = e
			case overflowErr:
				err = e
			default:
				panic(r)
			}
		}
	}()
	c := env.C
	s := &State{F: Phase0}
	s.GenesisTime = add(eth1Timestamp, c.GenesisDelay)
	s.Fork = Fork{c.GenesisForkVersion, c.GenesisForkVersion, 0}
	s.Eth1Data = Eth1Data{BlockHash: eth1BlockHash, DepositCount: uint64(len(deposits))}
	emptyBody := Block{F: Phase0}
	s.LatestBlockHeader = BeaconBlockHeader{BodyRoot: emptyBody.BodyRoot(c)}
	s.BlockRoots = make([]Root, c.SlotsPerHistoricalRoot)
	s.StateRoots = make([]Root, c.SlotsPerHistoricalRoot)
	s.RandaoMixes = make([]Bytes32, c.EpochsPerHistoricalVector)
	for i := range s.RandaoMixes {
		s.RandaoMixes[i] = eth1BlockHash
	}
	s.Slashings = make([]uint64, c.EpochsPerSlashingsVector)
	s.JustificationBits = make([]bool, 4)
	var leaves []DepositData
	for i := range deposits {
		leaves = append(leaves, deposits[i].Data)
		s.Eth1Data.DepositRoot = depositListRoot(leaves)
		env.ProcessDeposit(s, &deposits[i])
	}
	for i := range s.Validators {
		v := &s.Validators[i]
		b := s.Balances[i]
		v.EffectiveBalance = min64(b-b%c.EffectiveBalanceIncrement, c.MaxEffectiveBalance)
		if v.EffectiveBalance == c.MaxEffectiveBalance {
			v.ActivationEligibilityEpoch = 0
			v.ActivationEpoch = 0
		}
	}
	type vl struct {
		V []Validator `ssz:"list,limit=VALIDATOR_REGISTRY_LIMIT"`
	}
	s.GenesisValidatorsRoot = refssz.Root(&vl{s.Validators}, c.Params())
	return s, nil
}

func (env *Env) IsValidGenesisState(s *State) bool {
	c := env.C
	if s.GenesisTime < c.MinGenesisTime {
		return false
	}
	return uint64(len(s.ActiveIndices(0))) >= c.MinGenesisActiveValidatorCount
}
