// Package seqx: explicit-state breadth-first explorer over operation sequences on a REAL object
// stepped in lock-step with a reference model.
//
//   - a state is identified by the operation path that reaches it; real objects are never cloned:
//     a successor is produced by replaying the path on a fresh instance and applying one more op;
//   - states are merged on Key() = canonical dump of (model state, complete private state of the
//     real object); because the key is the whole state, merged states have identical futures;
//   - every transition applies the op to the real code and to the model, compares the results and
//     then evaluates all read-only observations/invariants in the NEW state;
//   - a path that produced a violation (or a listed known finding) is not extended.
package seqx

import (
	"crypto/sha256"
	"encoding/json"
	"fmt"
	"runtime"
	"sync"
	"sync/atomic"

	"verif/internal/core"
)

type Finding struct {
	Sig string
	Msg string
}

type Instance interface {
	// Enabled returns the finite menu of operations offered in the current state, simplest first.
	// It must be a deterministic function of the (model) state.
	Enabled() []fmt.Stringer
	// Apply runs op on the real object and the model. If observe is set it also evaluates every
	// observation/invariant in the new state. outcome is a short summary of what the real object
	// returned (used to count distinct outcomes, i.e. to detect a vacuous alphabet).
	Apply(op fmt.Stringer, observe bool) (findings []Finding, outcome string)
	Key() string
}

type Harness interface {
	Name() string
	Fresh() Instance
}

type Stats struct {
	States, Transitions, Traces, Deduped int64
	MaxDepth                             int
	DepthCompleted                       int
	Outcomes                             int
	PerDepthStates                       []int64
}

type item struct{ path []fmt.Stringer }

// Workers overrides the number of exploring goroutines (0 = number of CPUs).
var Workers = 0

// Explore runs the BFS up to maxDepth. Returns stats; violations are reported to run.
func Explore(run *core.Run, h Harness, maxDepth int) Stats {
	workers := runtime.NumCPU()
	if Workers > 0 {
		workers = Workers
	}
	var st Stats
	seen := &sync.Map{}
	outcomes := &sync.Map{}
	var nOut int64
	root := h.Fresh()
	k := sha(root.Key())
	seen.Store(k, struct{}{})
	st.States = 1
	st.PerDepthStates = []int64{1}
	frontier := []item{{}}
	for depth := 1; depth <= maxDepth && len(frontier) > 0; depth++ {
		var next []item
		var nmu sync.Mutex
		var idx int64 = -1
		var wg sync.WaitGroup
		var trans, traces, dedup, newStates int64
		expired := int32(0)
		for w := 0; w < workers; w++ {
			wg.Add(1)
			go func() {
				defer wg.Done()
				var local []item
				for {
					i := atomic.AddInt64(&idx, 1)
					if i >= int64(len(frontier)) {
						break
					}
					if run.Expired() {
						atomic.StoreInt32(&expired, 1)
						break
					}
					it := frontier[i]
					// learn the menu size in this state
					base := h.Fresh()
					replay(base, it.path)
					menu := base.Enabled()
					n := len(menu)
					for j := 0; j < n; j++ {
						inst := h.Fresh()
						replay(inst, it.path)
						op := menu[j]
						fs, out := inst.Apply(op, true)
						atomic.AddInt64(&trans, 1)
						atomic.AddInt64(&traces, 1)
						if _, loaded := outcomes.LoadOrStore(out, struct{}{}); !loaded {
							atomic.AddInt64(&nOut, 1)
						}
						if len(fs) > 0 {
							for _, f := range fs {
								run.Report(f.Sig, f.Msg, map[string]interface{}{
									"engine": "seqx", "harness": h.Name(), "ops": describe(it.path, op)})
							}
							continue
						}
						key := sha(inst.Key())
						if _, loaded := seen.LoadOrStore(key, struct{}{}); loaded {
							atomic.AddInt64(&dedup, 1)
							continue
						}
						atomic.AddInt64(&newStates, 1)
						np := make([]fmt.Stringer, len(it.path)+1)
						copy(np, it.path)
						np[len(it.path)] = op
						local = append(local, item{np})
						if newStates%5000 == 1 {
							run.Sample(6, map[string]interface{}{"harness": h.Name(), "ops": describe(it.path, op), "outcome": out})
						}
					}
				}
				nmu.Lock()
				next = append(next, local...)
				nmu.Unlock()
			}()
		}
		wg.Wait()
		st.Transitions += trans
		st.Traces += traces
		st.Deduped += dedup
		st.States += newStates
		st.PerDepthStates = append(st.PerDepthStates, newStates)
		if newStates > 0 {
			st.MaxDepth = depth
		}
		if expired != 0 {
			run.CapHit(fmt.Sprintf("%s: time budget hit inside depth %d (depth %d completed)", h.Name(), depth, depth-1))
			break
		}
		st.DepthCompleted = depth
		frontier = next
	}
	st.Outcomes = int(nOut)
	return st
}

func replay(inst Instance, path []fmt.Stringer) {
	for _, op := range path {
		inst.Apply(op, false)
	}
}

func describe(path []fmt.Stringer, last fmt.Stringer) []string {
	var out []string
	for _, op := range path {
		out = append(out, op.String())
	}
	if last != nil {
		out = append(out, last.String())
	}
	return out
}

func sha(s string) [16]byte {
	h := sha256.Sum256([]byte(s))
	var k [16]byte
	copy(k[:], h[:16])
	return k
}

func (s Stats) JSON() string {
	b, _ := json.Marshal(s)
	return string(b)
}

// ReplayOps runs a list of op names (as printed by describe) on a fresh instance with full
// observation and returns all findings: the stand-alone re-execution of a replay file.
func ReplayOps(h Harness, names []string) ([]Finding, error) {
	inst := h.Fresh()
	var all []Finding
	for _, n := range names {
		var op fmt.Stringer
		for _, o := range inst.Enabled() {
			if o.String() == n {
				op = o
				break
			}
		}
		if op == nil {
			return all, fmt.Errorf("op %q not in the menu of the current state", n)
		}
		fs, _ := inst.Apply(op, true)
		all = append(all, fs...)
	}
	return all, nil
}
