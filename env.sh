# source me: offline Go environment for every /verif command
export GOFLAGS=-mod=mod GOPROXY=off GOSUMDB=off GOTOOLCHAIN=local
export CGO_ENABLED=${CGO_ENABLED:-1}
