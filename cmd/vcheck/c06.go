package main

import (
	"time"

	"verif/internal/core"
	"verif/internal/shufx"
)

func init() { commands["c06"] = func(a []string) { runC06() } }

func runC06() {
	run := core.NewRun("C06", "exploration")
	run.SetDeadline(core.Budget(240*time.Second, 25*time.Minute))
	shufx.Run(run, run.Tier == "thorough")
	run.Set("exhaustive", false)
	run.Assume("reference = verbatim transliteration of compute_shuffled_index (internal/shufx) over crypto/sha256 or the owned hash",
		"the owned hash is installed through the package variables hashing.Hash and hashing.GetHashFn (the reference is given the same function)")
	run.Finish()
}
