// vcheck: one binary, one sub-command per property (c01 … c20) plus `replay`.
package main

import (
	"fmt"
	"os"
	"strings"
	"verif/internal/core"
)

var commands = map[string]func(args []string){}

func main() {
	if len(os.Args) < 2 {
		fmt.Fprintln(os.Stderr, "usage: vcheck <c01..c20|replay> [args]")
		os.Exit(2)
	}
	cmd := strings.ToLower(os.Args[1])
	f, ok := commands[cmd]
	if !ok {
		fmt.Fprintf(os.Stderr, "unknown command %q\n", cmd)
		os.Exit(2)
	}
	f(os.Args[2:])
}

func coreOnFinish() { core.OnFinish = func() { stopProfile() } }
