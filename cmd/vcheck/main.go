// vcheck: one binary, one sub-command per property (c01 … c20) plus `replay`.
package main

import (
	"encoding/json"
	"fmt"
	"os"
	"strings"
	"verif/internal/core"
)

var commands = map[string]func(args []string){}

// replayers: property id -> function re-executing a replay file without the explorer.
var replayers = map[string]func(args []string){}

func init() {
	commands["replay"] = func(args []string) {
		if len(args) < 1 {
			fmt.Fprintln(os.Stderr, "usage: vcheck replay <file>")
			os.Exit(2)
		}
		b, err := os.ReadFile(args[0])
		if err != nil {
			fmt.Fprintln(os.Stderr, err)
			os.Exit(2)
		}
		var hdr struct{ Property string }
		json.Unmarshal(b, &hdr)
		f, ok := replayers[hdr.Property]
		if !ok {
			fmt.Fprintf(os.Stderr, "no replayer for property %q\n", hdr.Property)
			os.Exit(2)
		}
		f(args)
	}
}

func main() {
	if len(os.Args) < 2 {
		fmt.Fprintln(os.Stderr, "usage: vcheck <c01..c20|replay> [args]")
		os.Exit(2)
	}
	cmd := strings.ToLower(os.Args[1])
	f, ok := commands[cmd]
	if !ok {
		fmt.Fprintf(os.Stderr, "unknown command %q\n", cmd)
		os.Exit(2)
	}
	f(os.Args[2:])
}

func coreOnFinish() { core.OnFinish = func() { stopProfile() } }
