package main

import (
	"os"
	"runtime/pprof"
)

func init() {
	if p := os.Getenv("VERIF_CPUPROFILE"); p != "" {
		f, _ := os.Create(p)
		pprof.StartCPUProfile(f)
		stopProfile = func() { pprof.StopCPUProfile(); f.Close() }
	}
}

var stopProfile = func() {}

func init() { coreOnFinish() }
