package main

import (
	"fmt"
	"os"
	"sync"
	"time"

	"verif/internal/chainh"
	"verif/internal/chainx"
	"verif/internal/core"
)

func init() {
	commands["c01"] = func(a []string) { runChain("C01") }
	commands["c02"] = func(a []string) { runChain("C02") }
	commands["c07"] = func(a []string) { runChain("C07") }
	commands["c08"] = func(a []string) { runChain("C08") }
}

func runChain(prop string) {
	run := core.NewRun(prop, "model_checking")
	run.SetDeadline(core.Budget(240*time.Second, 25*time.Minute))
	var st chainx.Stats
	per := map[string]interface{}{}
	scs := chainh.Scenarios(run.Tier)
	if prop == "C02" {
		scs = chainh.SlotScenarios(run.Tier)
	}
	// the synthetic (non-initial-state) parts run first: they are cheap and must not depend on what the history
	// exploration leaves of the budget
	var syn chainh.SynthStats
	if prop == "C01" {
		// non-initial states: one default block on synthetic registries (every fork; balances above and below the
		// effective balances, execution addresses on every fifth validator)
		chainh.SyntheticRegistriesFor(run, chainh.T4(chainh.AllForks), run.Tier == "thorough", &syn, "C01")
		fmt.Fprintf(os.Stderr, "C01 blocks on synthetic registries: states=%d blocks=%d\n", syn.States, syn.Transitions)
		run.Set("synthetic_registry_states", syn.States)
	}
	if prop == "C08" {
		// non-initial states: the context carried through two epoch transitions from synthetic registries (effective
		// balances changing a lot at the boundary) vs a from-scratch context
		chainh.SyntheticRegistriesFor(run, chainh.T4(chainh.AllForks), run.Tier == "thorough", &syn, "C08")
		fmt.Fprintf(os.Stderr, "C08 synthetic registries: states=%d slot-transitions=%d\n", syn.States, syn.Transitions)
		run.Set("synthetic_registry_states", syn.States)
	}
	if prop == "C07" {
		// part (b): synthetic registries (states no short chain reaches)
		var wg sync.WaitGroup
		for _, p := range []*chainh.Preset{chainh.T4(chainh.AllForks), chainh.TSync32(chainh.AllForks)} {
			wg.Add(1)
			go func(p *chainh.Preset) { defer wg.Done(); chainh.SyntheticRegistries(run, p, run.Tier == "thorough", &syn) }(p)
		}
		wg.Wait()
		fmt.Fprintf(os.Stderr, "C07 synthetic registries: states=%d slot-transitions=%d skipped=%d\n", syn.States, syn.Transitions, syn.Skipped)
		run.Set("synthetic_registry_states", syn.States)
		run.Set("synthetic_slot_transitions", syn.Transitions)
	}
	if prop == "C02" {
		// synthetic epoch-processing inputs (states no short chain reaches), one epoch transition each
		chainh.SyntheticEpochs(run, chainh.T4(chainh.AllForks), run.Tier == "thorough", &syn)
		fmt.Fprintf(os.Stderr, "C02 synthetic epochs: states=%d\n", syn.States)
		run.Set("synthetic_epoch_states", syn.States)
	}
	for _, sc := range scs {
		before := st
		opt := chainx.Options{Property: prop, K: 1, PerSlot: prop == "C02"}
		adapt := func(h func(*chainh.Node, uint64) []chainh.HookFinding) chainx.Hook {
			return func(n *chainh.Node, slot uint64, _ bool) []chainx.Finding {
				var out []chainx.Finding
				for _, f := range h(n, slot) {
					out = append(out, chainx.Finding{Sig: f.Sig, Msg: f.Msg})
				}
				return out
			}
		}
		switch prop {
		case "C07":
			opt.Hooks = []chainx.Hook{adapt(chainh.CommitteeHook)}
			opt.OnlyHooks = true
		case "C08":
			opt.Hooks = []chainx.Hook{adapt(chainh.ContextHook)}
			opt.OnlyHooks = true
			opt.Differential = true
		}
		if run.Tier == "thorough" && (sc.Name == "healthy/all-forks" || prop == "C02") {
			opt.K = 2
			if prop == "C01" {
				sc2 := *sc
				sc2.Menu = chainh.SmallMenu
				sc2.Name += "/k2-small-menu"
				// k<=1 on the full menu first, then k<=2 on the interacting sub-menu
				o1 := opt
				o1.K = 1
				chainx.Explore(run, sc, o1, &st)
				sc = &sc2
			}
		}
		chainx.Explore(run, sc, opt, &st)
		per[sc.Name] = map[string]int64{"histories": st.Histories - before.Histories, "transitions": st.Transitions - before.Transitions, "k_completed": int64(st.KDone)}
		fmt.Fprintf(os.Stderr, "%s %s: %+v\n", prop, sc.Name, per[sc.Name])
		if run.Expired() {
			break
		}
	}
	run.Set("states", st.States+syn.States)
	run.Set("transitions", st.Transitions+syn.Transitions)
	run.Set("traces_validated_against_impl", st.Histories+syn.States)
	run.Set("block_transitions", st.Blocks)
	run.Set("menu_entries_not_applicable", st.Skipped)
	run.Set("distinct_choices_taken", st.Outcomes)
	run.Set("per_scenario", per)
	run.Set("engine", "chainx (deviation-bounded exhaustive exploration of beacon-chain histories; every step executed on zrnt and on the reference specification model and compared byte for byte)")
	run.Assume("reference transition internal/refspec (phase0..deneb, written from the specification, no caches) and refssz are the trusted base",
		"tiny presets (4 slots/epoch, 16 validators, forks at epochs 1-4 and variants); real BLS on the zrnt side, symbolic signature table on the reference side",
		"histories: all histories of N slots with at most k deviations from the base scenario; deviations from the per-slot menu")
	run.Finish()
}
