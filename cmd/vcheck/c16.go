package main

import (
	"encoding/json"
	"fmt"
	"os"
	"time"

	"verif/internal/core"
	"verif/internal/pkx"
	"verif/internal/seqx"
)

func init() {
	commands["c16"] = func(a []string) { runC16() }
	replayers["C16"] = replayC16
}

func c16Harnesses(tier string) []*pkx.Harness {
	return []*pkx.Harness{
		{NameS: "chains", NKeys: 4, MaxLen: 4},
		{NameS: "arbitrary", NKeys: 3, MaxLen: 3, Arbitrary: true},
	}
}

func runC16() {
	run := core.NewRun("C16", "model_checking")
	run.SetDeadline(core.Budget(120*time.Second, 20*time.Minute))
	seqx.Workers = 1 // the non-termination budget of the lock shim is per process
	depth := map[string][2]int{"chains": {5, 7}, "arbitrary": {4, 5}}
	ti := 0
	if run.Tier == "thorough" {
		ti = 1
	}
	var tot seqx.Stats
	per := map[string]interface{}{}
	for _, h := range c16Harnesses(run.Tier) {
		st := seqx.Explore(run, h, depth[h.NameS][ti])
		per[h.NameS] = st
		tot.States += st.States
		tot.Transitions += st.Transitions
		tot.Traces += st.Traces
		tot.Outcomes += st.Outcomes
		if st.MaxDepth > tot.MaxDepth {
			tot.MaxDepth = st.MaxDepth
		}
		fmt.Fprintf(os.Stderr, "C16 %s: %s\n", h.NameS, st.JSON())
	}
	run.Set("states", tot.States)
	run.Set("transitions", tot.Transitions)
	run.Set("traces_validated_against_impl", tot.Traces)
	run.Set("distinct_outcomes", tot.Outcomes)
	run.Set("max_depth", tot.MaxDepth)
	run.Set("per_scenario", per)
	run.Set("engine", "seqx (explicit-state BFS over AddValidator sequences on real PubkeyCache handles, lock-step with per-handle history lists; after every step every live handle answers every lookup)")
	run.Assume("reference model refcache = explicit history list per handle (internal/pkx)",
		"4 keys, histories up to length 4; a duplicate key at an earlier index (never produced by deposit processing) only asserts termination/no panic/other handles undisturbed",
		"non-termination is observed deterministically as > 20000 lock acquisitions inside one call (sync shim), not by wall clock")
	run.Finish()
}

func replayC16(args []string) {
	b, _ := os.ReadFile(args[0])
	var rf struct {
		Replay struct {
			Harness string
			Ops     []string
		}
	}
	json.Unmarshal(b, &rf)
	seqx.Workers = 1
	for _, h := range c16Harnesses("quick") {
		if h.NameS != rf.Replay.Harness {
			continue
		}
		fs, err := seqx.ReplayOps(h, rf.Replay.Ops)
		if err != nil {
			fmt.Println("replay error:", err)
			os.Exit(2)
		}
		for _, f := range fs {
			fmt.Printf("%s\n  %s\n", f.Sig, f.Msg)
		}
		if len(fs) > 0 {
			os.Exit(1)
		}
		fmt.Println("replay: no violation")
		return
	}
	os.Exit(2)
}
