package main

import (
	"fmt"
	"os"
	"strings"
	"time"

	"github.com/protolambda/zrnt/eth2/gossipval"

	"verif/internal/chainh"
	"verif/internal/core"
)

func init() { commands["c12"] = func(a []string) { runC12() } }

func runC12() {
	run := core.NewRun("C12", "exploration")
	run.SetDeadline(core.Budget(200*time.Second, 25*time.Minute))
	lasts := []uint64{18, 10, 14, 6, 3}
	if run.Tier == "thorough" {
		lasts = []uint64{18, 10, 6, 14, 22, 19, 21, 3}
	}
	var evals, refused, accepted, followups, views int64
	perTopic := map[string]int64{}
	outcomes := map[string]int64{}
	type viewSpec struct {
		last uint64
		agg  bool
		s32  bool
	}
	var specs []viewSpec
	for _, l := range lasts {
		specs = append(specs, viewSpec{l, false, false})
	}
	// committees and sync subcommittees of 32: aggregator selection (modulo 2) really selects
	specs = append(specs, viewSpec{10, true, false})
	// 32 sync seats for 16 validators: every validator sits in two different subcommittees
	specs = append(specs, viewSpec{10, false, true})
	if run.Tier == "thorough" {
		specs = append(specs, viewSpec{18, true, false}, viewSpec{18, false, true})
	}
	for _, vs := range specs {
		last := vs.last
		w := chainh.NewWorld(chainh.T4(chainh.AllForks), 1, 24)
		if vs.agg {
			w = chainh.NewWorld(chainh.TAgg(chainh.AllForks), 1, 130)
		}
		if vs.s32 {
			w = chainh.NewWorld(chainh.TSync32(chainh.AllForks), 1, 24)
		}
		std, err := chainh.BuildStd(w, last)
		if err != nil {
			fmt.Fprintf(os.Stderr, "C12: cannot build the chain view (last=%d): %v\n", last, err)
			os.Exit(2)
		}
		std.Thorough = run.Tier == "thorough"
		for _, headKind := range []string{"main", "near-fork"} {
			if headKind == "near-fork" {
				if run.Tier != "thorough" {
					continue
				}
				std.Head, std.NearFork = std.NearFork, std.Head
				std.V.SetHead(std.Head.Root)
			}
			views++
			var cases []chainh.P2PCase
			cases = append(cases, std.BlockCases()...)
			cases = append(cases, std.AttestationCases()...)
			cases = append(cases, std.AggregateCases()...)
			cases = append(cases, std.OperationCases()...)
			cases = append(cases, std.SyncCases()...)
			fmt.Fprintf(os.Stderr, "C12 view preset=%s last=%d head=%s fin-epoch=%d: %d cases\n", w.P.Name, last, headKind, std.V.Fin.Epoch, len(cases))
			for _, cs := range cases {
				v := std.V.Session(cs.NowSlot, cs.OffsetMs)
				for _, k := range cs.Premark {
					v.Seen[k] = true
				}
				id := fmt.Sprintf("%s/last=%d/head=%s/%s/%s", w.P.Name, last, headKind, cs.Topic, cs.Name)
				sigBase := "C12/" + cs.Topic + "/" + cs.Name
				if i := strings.Index(cs.Name, "clock sweep:"); i >= 0 {
					// one root cause = one report: all clock positions of a sweep share a signature per (expected, got)
					sigBase = "C12/" + cs.Topic + "/" + cs.Name[:i] + "clock-sweep"
				}
				res := safeRun(cs.Run, v)
				evals++
				perTopic[cs.Topic]++
				got := res.Result.String()
				if res.Panic != "" {
					got = "PANIC"
				}
				outcomes[cs.Topic+":"+cs.Expect+"->"+got]++
				rep := map[string]interface{}{"view": map[string]interface{}{"last_slot": last, "head": headKind}, "topic": cs.Topic, "case": cs.Name, "now_slot": cs.NowSlot, "offset_ms": cs.OffsetMs, "premarked": cs.Premark, "expected": cs.Expect, "got": got, "err": res.ErrText, "marks": v.Marks}
				if got != "ACCEPT" && perTopic[cs.Topic]%7 == 3 {
					run.Sample(16, map[string]interface{}{"view_last_slot": last, "head": headKind, "topic": cs.Topic, "case": cs.Name, "clock": fmt.Sprintf("slot %d + %dms", cs.NowSlot, cs.OffsetMs), "expected": cs.Expect, "got": got, "reason": res.ErrText})
				}
				bad := ""
				switch {
				case res.Panic != "":
					bad = "panic: " + res.Panic
				case cs.Expect == chainh.ExpAccept && got != "ACCEPT":
					bad = "a message satisfying every condition was not accepted"
				case cs.Expect == chainh.ExpNotAccept && got == "ACCEPT":
					bad = "a message violating a condition was accepted"
				case cs.Expect == chainh.ExpIgnore && got != "IGNORE":
					bad = "a timing-class failure did not yield IGNORE"
				}
				if bad != "" {
					run.Report(sigBase+"/verdict/"+cs.Expect+"->"+got, fmt.Sprintf("%s: expected %s, got %s (%s) — %s", id, cs.Expect, got, res.ErrText, bad), rep)
				}
				if got == "ACCEPT" {
					accepted++
					if len(v.Marks) == 0 {
						run.Report(sigBase+"/no-mark-on-accept", id+": accepted without marking the seen-cache", rep)
					}
				} else {
					refused++
					if len(v.Marks) != 0 {
						run.Report(sigBase+"/mark-on-refusal", fmt.Sprintf("%s: seen-cache marked %v although the message was refused (%s)", id, v.Marks, got), rep)
					}
					// a refused message must not suppress a later valid one (same session, honest clock)
					if cs.Honest != nil && len(cs.Premark) == 0 && res.Panic == "" {
						v.NowSlot, v.OffsetMs = std.Head.Slot+1, 0
						v.Marks = nil
						r2 := safeRun(cs.Honest, v)
						followups++
						evals++
						if r2.Result != gossipval.ACCEPT {
							rep["followup"] = r2.Result.String() + ": " + r2.ErrText
							run.Report(sigBase+"/suppressed-later-valid", fmt.Sprintf("%s: after the refused message the honest message is %s (%s)", id, r2.Result, r2.ErrText), rep)
						}
					}
				}
				if run.Expired() {
					break
				}
			}
		}
	}
	var nontrivial int64
	for k, n := range outcomes {
		if !strings.Contains(k, "ACCEPT->ACCEPT") {
			nontrivial += n
		}
	}
	run.Set("evaluations", evals)
	run.Set("distinct_nontrivial", nontrivial)
	run.Set("accepted", accepted)
	run.Set("refused", refused)
	run.Set("followup_honest_after_refusal", followups)
	run.Set("cases_per_topic", perTopic)
	run.Set("outcome_table", outcomes)
	run.Set("chain_views", views)
	run.Set("rule", "per chain view (real zrnt states/contexts built by real transitions over the T4 all-forks preset: main chain with a gap slot, a branch conflicting with finality, a sibling of the head; head on either sibling) and per topic: the honest message and every single-condition corruption from the condition table (written from the networking specification), each at its clock position (incl. +-500/501 ms around the disparity limit) and seen-cache content; expectation ACCEPT / not-ACCEPT / IGNORE comes from the table, verdict and Mark* calls from zrnt; after each refusal the honest message is validated on the same session")
	run.Set("exhaustive", !run.Expired())
	run.Assume("signatures are real BLS; the chain backend answers ancestry from an explicit block tree and domains from the reference computation",
		"conditions the validators leave to the caller by design (parent/voted block 'passes validation' = is in the view and not flagged bad) are represented by IsBadBlock")
	run.Finish()
}

type p2pRes struct {
	gossipval.GossipValidatorResult
	ErrText string
	Panic   string
}

func safeRun(f func(v *chainh.View) gossipval.GossipValidatorResult, v *chainh.View) (out p2pRes) {
	defer func() {
		if r := recover(); r != nil {
			out.Panic = fmt.Sprint(r)
		}
	}()
	out.GossipValidatorResult = f(v)
	if out.Err != nil {
		out.ErrText = out.Err.Error()
	}
	return
}
