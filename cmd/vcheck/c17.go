package main

import (
	"bufio"
	"bytes"
	"fmt"
	"os"
	"os/exec"
	"strings"
	"time"

	"verif/internal/concx"
	"verif/internal/core"
	"verif/internal/schedx"
)

func init() {
	commands["c17"] = func(a []string) { runC17() }
	commands["c17child"] = c17child
}

func c17bound(tier string) (int, int64) {
	if tier == "thorough" {
		return 3, 400000
	}
	return 2, 60000
}

// c17child <harness index>: run by the race-instrumented binary; announces every schedule before
// executing it so that the parent can attribute a race report (process death, exit code 66).
func c17child(args []string) {
	var idx int
	fmt.Sscan(args[0], &idx)
	hs := concx.All()
	h := hs[idx]
	schedx.Install()
	bound, max := c17bound(core.Tier())
	w := bufio.NewWriter(os.Stdout)
	st, viols := schedx.Explore(h, bound, max/4, func(prefix []int) {
		fmt.Fprintf(w, "EXEC %v\n", prefix)
		w.Flush()
	}, nil)
	fmt.Fprintf(w, "DONE schedules=%d bound=%d capped=%v violations=%d\n", st.Schedules, st.BoundDone, st.Capped, len(viols))
	w.Flush()
}

func runC17() {
	run := core.NewRun("C17", "model_checking")
	run.SetDeadline(core.Budget(170*time.Second, 25*time.Minute))
	schedx.Install()
	bound, max := c17bound(run.Tier)
	hs := concx.All()
	var schedules, points, raceSchedules int64
	per := map[string]interface{}{}
	distinct := 0
	for i, h := range hs {
		st, viols := schedx.Explore(h, bound, max, nil, run.Expired)
		schedules += st.Schedules
		points += st.Points
		distinct += len(st.Outcomes)
		info := map[string]interface{}{"schedules": st.Schedules, "scheduling_points": st.Points, "distinct_outcomes": len(st.Outcomes), "preemption_bound_completed": st.BoundDone, "capped": st.Capped}
		for _, v := range viols {
			run.Report("C17/"+v.Kind+"/"+h.Name, fmt.Sprintf("harness %s, schedule %v: %s", h.Name, v.Schedule, v.Msg),
				map[string]interface{}{"engine": "schedx", "harness": h.Name, "harness_index": i, "schedule": v.Schedule, "history": v.History})
		}
		if st.Capped {
			run.CapHit(fmt.Sprintf("%s: schedule cap/time budget (bound %d not completed)", h.Name, bound))
		}
		if len(st.Outcomes) == 1 && st.Schedules > 10 {
			info["note"] = "single outcome"
		}
		// race pass: the same exploration in the -race build with the happens-before-free hand-off
		if rb := os.Getenv("VERIF_RACE_BIN"); rb != "" && !run.Expired() {
			n, report, last := racePass(rb, i)
			raceSchedules += n
			info["race_schedules"] = n
			if report != "" {
				run.Report("C17/data-race/"+h.Name, fmt.Sprintf("harness %s, schedule %s: the race detector (hand-off without happens-before edges: only the program's own locks order accesses) reports:\n%s", h.Name, last, report),
					map[string]interface{}{"engine": "schedx -race", "harness": h.Name, "harness_index": i, "schedule": last})
			}
		}
		per[h.Name] = info
		fmt.Fprintf(os.Stderr, "C17 %s: %v\n", h.Name, info)
		if i%4 == 0 {
			var ops [][]string
			for _, th := range h.Threads {
				var names []string
				for _, o := range th {
					names = append(names, o.Name)
				}
				ops = append(ops, names)
			}
			run.Sample(8, map[string]interface{}{"harness": h.Name, "threads": ops})
		}
	}
	if os.Getenv("VERIF_RACE_BIN") == "" {
		run.CapHit("race-instrumented binary not available: the data-race clause was not checked in this run")
	}
	run.Set("states", int64(distinct))
	run.Set("transitions", points)
	run.Set("traces_validated_against_impl", schedules)
	run.Set("schedules", schedules)
	run.Set("race_pass_schedules", raceSchedules)
	run.Set("preemption_bound", bound)
	run.Set("per_harness", per)
	run.Set("engine", "schedx: controlled cooperative scheduler + stateless DFS over interleavings of the real components (scheduling points at every shim lock operation and at operation boundaries), iterative preemption bounding; per schedule deadlock check + brute-force linearizability against the same object run sequentially; second pass in a -race build with a hand-off that creates no happens-before edge")
	run.Assume("states = distinct observed outcome vectors; transitions = scheduling points executed; traces = complete schedules executed on the real code",
		"RWMutex readers are enabled whenever no writer holds the lock (Go's writer preference is not modelled: a superset of the real schedules for safety properties)",
		"unsynchronised code has no scheduling points inside: its races are found by the -race pass, not by the linearizability oracle")
	run.Finish()
}

func racePass(bin string, idx int) (n int64, report string, last string) {
	cmd := exec.Command(bin, "c17child", fmt.Sprint(idx))
	cmd.Env = append(os.Environ(), "GORACE=halt_on_error=1 exitcode=66", "GOMAXPROCS=1")
	var out, errb bytes.Buffer
	cmd.Stdout, cmd.Stderr = &out, &errb
	err := cmd.Run()
	sc := bufio.NewScanner(&out)
	sc.Buffer(make([]byte, 1<<20), 1<<24)
	for sc.Scan() {
		l := sc.Text()
		if strings.HasPrefix(l, "EXEC ") {
			n++
			last = l[5:]
		}
	}
	if err != nil {
		msg := errb.String()
		if i := strings.Index(msg, "WARNING: DATA RACE"); i >= 0 {
			msg = msg[i:]
			// keep the two access stacks, trimmed
			lines := strings.Split(msg, "\n")
			var keep []string
			for _, l := range lines {
				if strings.Contains(l, "/verif/internal/schedx") || strings.Contains(l, "runtime.") {
					continue
				}
				keep = append(keep, l)
				if len(keep) > 28 {
					break
				}
			}
			return n, strings.Join(keep, "\n"), last
		}
		return n, "race child failed: " + err.Error() + "\n" + msg, last
	}
	return n, "", last
}
