package main

import (
	"time"

	"verif/internal/chainh"
	"verif/internal/core"
)

func init() { commands["c13"] = func(a []string) { runC13() } }

func runC13() {
	run := core.NewRun("C13", "exploration")
	run.SetDeadline(core.Budget(150*time.Second, 25*time.Minute))
	L := 3
	if run.Tier == "thorough" {
		L = 4
	}
	// first a preset whose history vectors have lengths that are not powers of two (short sequences), then T4
	odd := chainh.T4(chainh.AllForks)
	odd.Name, odd.OddVectors = "T4-odd-vectors", true
	e0, n0 := chainh.GenesisCheck(run, odd, 1)
	p := chainh.T4(chainh.AllForks)
	e, n := chainh.GenesisCheck(run, p, L)
	e, n = e+e0, n+n0
	run.Set("evaluations", e)
	run.Set("distinct_nontrivial", n)
	run.Set("max_sequence_length", L)
	run.Set("rule", "every sequence of length <= L over a 14-entry deposit alphabet (new validator with amounts on both sides of every threshold: 1 increment +-1 Gwei, MAX-1 Gwei, MAX-1 increment, MAX, MAX+1 increment, 2 MAX; invalid proof-of-possession; pubkey that is not a curve point; top-ups of the first / the latest key with valid or invalid signature, pushing across MAX; same key with other credentials), appended to or inserted into a base of SLOTS_PER_EPOCH valid deposits, each deposit with a real Merkle proof against the incremental deposit root built by an independent deposit-tree implementation, x 3 eth1 timestamps around MIN_GENESIS_TIME; compared: state bytes and root, returned context vs from-scratch context, committees/proposers vs the specification, IsValidGenesisState on both sides of the active-validator threshold; plus KickStartState on 6 validator sets. non-trivial = the sequence is non-empty.")
	run.Set("exhaustive", true)
	run.Assume("reference initialize_beacon_state_from_eth1 / is_valid_genesis_state in internal/refspec; real BLS proof-of-possession signatures",
		"zrnt documents that it refuses fewer validators than SLOTS_PER_EPOCH: for such lists nothing is compared", "T4 preset; sequences of length <= 1 also under a preset with 9 randao mixes / 12 block roots / 5 slashings entries")
	run.Finish()
}
