package main

import (
	"encoding/json"
	"fmt"
	"os"
	"time"

	"verif/internal/core"
	"verif/internal/fcx"
	"verif/internal/seqx"
)

func init() {
	commands["c09"] = func(a []string) { runFC("C09") }
	commands["c10"] = func(a []string) { runFC("C10") }
	commands["c11"] = func(a []string) { runFC("C11") }
	replayers["C09"], replayers["C10"], replayers["C11"] = replayFC, replayFC, replayFC
}

var fcDepth = map[string]map[string][2]int{ // property -> scenario -> depth (quick, thorough)
	"C09": {"growth": {4, 5}, "votes": {4, 5}, "justify": {3, 4}, "justify-gap": {3, 4}},
	"C10": {"justify": {3, 4}, "justify-gap": {3, 4}, "justify-latefork": {2, 3}, "growth": {4, 5}},
	"C11": {"growth": {4, 5}, "justify": {3, 4}, "justify-gap": {3, 4}},
}

func runFC(prop string) {
	run := core.NewRun(prop, "model_checking")
	run.SetDeadline(core.Budget(200*time.Second, 25*time.Minute))
	ti := 0
	if run.Tier == "thorough" {
		ti = 1
	}
	sinks := []string{"accept"}
	if prop == "C10" {
		sinks = []string{"accept", "nil", "fail0", "fail1", "fail2"}
	}
	var tot seqx.Stats
	per := map[string]interface{}{}
	// iterate the bound over ALL (sink behaviour, scenario) pairs: first every pair to depth 2, then every pair to its
	// full depth — a pair late in the list is never left unexplored because an earlier one used up the budget.
	type pair struct {
		h     fcx.H
		name  string
		depth int
	}
	var pairs []pair
	for _, sink := range sinks {
		for _, sc := range fcx.Scenarios(prop, run.Tier, sink) {
			if sink != "accept" && sc.Name != "justify" && sc.Name != "justify-gap" {
				continue
			}
			h := fcx.H{S: sc}
			d := fcDepth[prop][sc.Name][ti]
			if sink != "accept" && d > 3 {
				d = 3
			}
			name := sc.Name + "/" + sink
			sc.Name = name
			for _, f := range h.CheckPrefix() {
				run.Report(f.Sig, "scenario prefix: "+f.Msg, map[string]interface{}{"engine": "seqx", "harness": name, "ops": []string{}})
			}
			pairs = append(pairs, pair{h, name, d})
		}
	}
	last := map[string]seqx.Stats{}
	for pass, bound := range []int{2, 99} {
		for _, p := range pairs {
			d := p.depth
			if d > bound {
				d = bound
			}
			if pass == 1 && d <= 2 {
				continue // already complete
			}
			if run.Expired() {
				run.CapHit(fmt.Sprintf("%s: time budget used up before depth %d (depth 2 completed)", p.name, d))
				continue
			}
			st := seqx.Explore(run, p.h, d)
			last[p.name] = st
			per[p.name] = st
			fmt.Fprintf(os.Stderr, "%s %s (bound %d): %s\n", prop, p.name, d, st.JSON())
		}
	}
	for _, st := range last {
		tot.States += st.States
		tot.Transitions += st.Transitions
		tot.Traces += st.Traces
		tot.Outcomes += st.Outcomes
		if st.MaxDepth > tot.MaxDepth {
			tot.MaxDepth = st.MaxDepth
		}
	}
	run.Set("states", tot.States)
	run.Set("transitions", tot.Transitions)
	run.Set("traces_validated_against_impl", tot.Traces)
	run.Set("distinct_outcomes", tot.Outcomes)
	run.Set("max_depth", tot.MaxDepth)
	run.Set("per_scenario", per)
	run.Set("engine", "seqx (explicit-state BFS over operation sequences on the real ProtoForkChoice, lock-step with the reffc model)")
	run.Assume("reference model reffc (internal/fcx/model.go) written from the property statements and the doc comments of eth2/forkchoice",
		"spec with SLOTS_PER_EPOCH=2; roots from a pool of 6 names; 2-3 validators",
		"every explored path is executed on the real code: traces validated = traces explored")
	run.Finish()
}

// replay-fc <file>: re-executes a replay file without the explorer.
func replayFC(args []string) {
	b, err := os.ReadFile(args[0])
	if err != nil {
		fmt.Println(err)
		os.Exit(2)
	}
	var rf struct {
		Property string
		Replay   struct {
			Harness string
			Ops     []string
		}
	}
	if err := json.Unmarshal(b, &rf); err != nil {
		fmt.Println(err)
		os.Exit(2)
	}
	var scn, sink string
	for i := 0; i < len(rf.Replay.Harness); i++ {
		if rf.Replay.Harness[i] == '/' {
			scn, sink = rf.Replay.Harness[:i], rf.Replay.Harness[i+1:]
		}
	}
	for _, sc := range fcx.Scenarios(rf.Property, "quick", sink) {
		if sc.Name != scn {
			continue
		}
		fs, err := seqx.ReplayOps(fcx.H{S: sc}, rf.Replay.Ops)
		if err != nil {
			fmt.Println("replay error:", err)
			os.Exit(2)
		}
		for _, f := range fs {
			fmt.Printf("%s\n  %s\n", f.Sig, f.Msg)
		}
		if len(fs) > 0 {
			os.Exit(1)
		}
		fmt.Println("replay: no violation")
		return
	}
	fmt.Println("scenario not found")
	os.Exit(2)
}
