package main

import (
	"time"

	"verif/internal/core"
	"verif/internal/forkx"
)

func init() { commands["c14"] = func(a []string) { runC14() } }

func runC14() {
	run := core.NewRun("C14", "exploration")
	run.SetDeadline(core.Budget(150*time.Second, 25*time.Minute))
	e1, n1 := forkx.Lookups(run)
	e2, n2 := forkx.Chains(run)
	e3, n3 := forkx.Constants(run)
	e4, n4 := forkx.Envelopes(run, sszPresets(run.Tier)[:3])
	e3, n3 = e3+e4, n3+n4
	run.Set("evaluations", e1+e2+e3)
	run.Set("distinct_nontrivial", n1+n2+n3)
	run.Set("parts", map[string]int64{"lookup_cases": e1, "chain_steps_and_blocks": e2, "constants": e3})
	run.Set("rule", "(a) every non-decreasing assignment of {altair..fulu} to epochs {1,2,3,4,5,never} (462 schedules, equal and never-activated tails included) x epochs 0..7 x first/last slot x 2 genesis validators roots: Spec.ForkVersion, ForkDecoder.ForkDigest (vs an independent ForkData root), BlockAllocator package; non-trivial = epoch after the first upgrade. (b) every phase0..deneb schedule over {1,2,3,4,never} (70 schedules): a real chain advanced slot by slot for 22 slots, full state vs the reference after every slot, dynamic state type and state.Fork() vs the schedule; two real blocks per fork: SignedBeaconBlock->Envelope->SignedBeaconBlock byte round trip, root and signature preserved, VerifySignature accepts the signature under the slot's version and refuses one under each of the 6 other versions (with either digest). (c) every key of configs.Mainnet and configs.Minimal against a pinned table of the published values (reviewed one by one), plus 30 spec-level Go constants.")
	run.Set("exhaustive", true)
	run.Sample(5, map[string]interface{}{"schedule": []string{"1", "2", "2", "never", "never", "never"}, "epoch": 2, "expected_fork": "capella"})
	run.Sample(5, map[string]interface{}{"constant": "mainnet/CAPELLA_FORK_VERSION", "published": "0x03000000"})
	run.Assume("pinned constant table internal/forkx/refconsts.json: generated from the tree at the reviewed baseline and compared by eye against the published mainnet/minimal presets and configs (phase0..electra, networking); fulu/eip values are pinned at the reviewed baseline",
		"electra/fulu have no transition in this library: only look-up functions are compared there; fulu has no block type")
	run.Finish()
}
