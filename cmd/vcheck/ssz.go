package main

import (
	"fmt"
	"os"
	"sort"
	"sync"
	"sync/atomic"
	"time"

	"github.com/protolambda/zrnt/eth2/configs"
	"github.com/protolambda/ztyp/view"

	"verif/internal/chainh"
	"verif/internal/chainx"
	"verif/internal/core"
	"verif/internal/statex"
	"verif/internal/sszx"
)

func init() {
	commands["c04"] = func(a []string) { runSSZ("C04") }
	commands["c05"] = func(a []string) { runC05() }
}

func sszPresets(tier string) []sszx.Preset {
	t4 := chainh.T4(chainh.AllForks).Spec()
	odd := *t4
	// limits that are not powers of two
	odd.MAX_VALIDATORS_PER_COMMITTEE, odd.MAX_ATTESTATIONS, odd.MAX_DEPOSITS = 37, 5, 3
	odd.HISTORICAL_ROOTS_LIMIT, odd.VALIDATOR_REGISTRY_LIMIT = 100, 1000
	odd.SLOTS_PER_HISTORICAL_ROOT, odd.EPOCHS_PER_HISTORICAL_VECTOR, odd.EPOCHS_PER_SLASHINGS_VECTOR = 12, 9, 5
	odd.SYNC_COMMITTEE_SIZE = view.Uint64View(12)
	odd.MAX_WITHDRAWALS_PER_PAYLOAD, odd.MAX_BLS_TO_EXECUTION_CHANGES, odd.MAX_BLOB_COMMITMENTS_PER_BLOCK = 3, 3, 6
	odd.MAX_TRANSACTIONS_PER_PAYLOAD, odd.MAX_BYTES_PER_TRANSACTION = 5, 70
	odd.MAX_COMMITTEES_PER_SLOT = 3
	odd.PENDING_DEPOSITS_LIMIT, odd.PENDING_PARTIAL_WITHDRAWALS_LIMIT, odd.PENDING_CONSOLIDATIONS_LIMIT = 11, 7, 5
	odd.MAX_DEPOSIT_REQUESTS_PER_PAYLOAD, odd.MAX_WITHDRAWAL_REQUESTS_PER_PAYLOAD, odd.MAX_CONSOLIDATION_REQUESTS_PER_PAYLOAD = 3, 3, 1
	return []sszx.Preset{{Name: "T4", Spec: t4}, {Name: "odd-limits", Spec: &odd}, {Name: "minimal", Spec: configs.Minimal}, {Name: "mainnet", Spec: configs.Mainnet}}
}

func runSSZ(prop string) {
	run := core.NewRun(prop, "exploration")
	run.SetDeadline(core.Budget(240*time.Second, 25*time.Minute))
	var st sszx.Stats
	presets := sszPresets(run.Tier)
	pairsBelow := 25
	if run.Tier == "thorough" {
		pairsBelow = 60
	}
	sszx.CheckAll(run, prop, presets, pairsBelow, 64, &st)
	if prop == "C04" {
		sszx.LimitExcess(run, presets, &st)
	}
	var dyn statex.Stats
	if prop == "C05" {
		depth := 2
		if run.Tier == "thorough" {
			depth = 3
		}
		for _, ps := range presets[:2] {
			w := statex.NewWorld(ps.Spec, sszx.ParamsOf(ps.Spec))
			statex.Sequences(run, w, ps.Name, depth, &dyn)
		}
		// (c) the states that real transitions produce, many of them at the same time (16 workers each advancing its own
		// states): bytes and cached root of every state reached vs the specification — roots computed inside the
		// transition (state_roots, block_roots, header) are part of the content
		var cst chainx.Stats
		for _, sc := range chainh.Scenarios(run.Tier) {
			if sc.Name != "healthy/all-forks" {
				continue
			}
			c := *sc
			c.Menu = chainh.SmallMenu
			chainx.Explore(run, &c, chainx.Options{Property: "C05", K: 1}, &cst)
		}
		run.Set("chain_states_compared", cst.States)
		run.Set("chain_histories", cst.Histories)
		dyn.Evals += cst.Transitions
		dyn.NonTrivial += cst.States
		run.Set("dynamic_root_queries", dyn.Evals)
		run.Set("dynamic_sequences_completed", dyn.NonTrivial)
		run.Set("dynamic_rule", "every sequence of <= depth mutations (setters, element writes, appends, resets, subtree replacements; ~60 per fork) on the tree-backed state of each of the 6 forks, x every pattern of intermediate HashTreeRoot queries x root cached or not before the first mutation: cached root = root of the same content built from scratch = SSZ root, and content = model")
	}
	var uncovered []string
	for k, why := range sszx.NotInRegistry {
		uncovered = append(uncovered, k+": "+why)
	}
	sort.Strings(uncovered)
	var pn []string
	for _, p := range presets {
		pn = append(pn, p.Name)
	}
	run.Set("evaluations", st.Values+st.InvalidTried+dyn.Evals)
	run.Set("distinct_nontrivial", st.NonZero+st.InvalidRef+dyn.NonTrivial)
	run.Set("types_in_registry", st.Types)
	run.Set("types_not_in_registry", uncovered)
	run.Set("presets", pn)
	run.Set("valid_values", st.Values)
	run.Set("malformed_encodings_tried", st.InvalidTried)
	run.Set("malformed_per_reference_decoder", st.InvalidRef)
	run.Set("view_roots_compared", st.ViewRoots)
	run.Set("text_round_trips", st.TextTrips)
	run.Set("rule", "per (type, preset): the zero value, every single deviation (each leaf set to 1 / max / a position-unique pattern; each list length 1, 2, limit if <= 64; each bitlist length 1,7,8,9,limit with all-0 and all-1 bits), every pair of deviations for types with few leaves, and three 'all leaves distinct' values; bytes come from the independent reference codec (refssz) over the specification schema; zrnt must decode them, re-encode identically, report ByteLength/FixedLength, JSON and YAML round-trip, and (C05) give the schema's hash-tree-root from the struct form and from the tree-view form. Malformed inputs: every proper prefix, offset fields rewritten to {0, -1, +1, len, len+1, max}, limit+1 elements: where the strict reference decoder refuses, zrnt must refuse. non-trivial = non-zero values + malformed inputs the reference refuses.")
	run.Set("exhaustive", true)
	run.Sample(6, map[string]interface{}{"type": "phase0.Attestation", "preset": "odd-limits", "value": ".AggregationBits.len#3+.Data.Slot"})
	run.Sample(6, map[string]interface{}{"type": "deneb.BeaconState", "preset": "T4", "value": "distinct/2"})
	run.Assume("refssz + the refspec structs (the specification's schema, written from the specification, not derived from zrnt's field lists) are the trusted base")
	run.Finish()
}

func runC05() { runSSZ("C05") }

func init() { commands["c15"] = func(a []string) { runC15() } }

func runC15() {
	run := core.NewRun("C15", "model_checking")
	run.SetDeadline(core.Budget(240*time.Second, 25*time.Minute))
	var st statex.Stats
	depth := 2
	if run.Tier == "thorough" {
		depth = 3
	}
	var pn []string
	for _, ps := range sszPresets(run.Tier)[:3] {
		w := statex.NewWorld(ps.Spec, sszx.ParamsOf(ps.Spec))
		statex.Accessors(run, w, ps.Name, &st)
		if ps.Name != "minimal" || run.Tier == "thorough" {
			statex.Copies(run, w, ps.Name, depth, &st)
		}
		pn = append(pn, ps.Name)
	}
	// (c) sibling copies advanced by real transitions (CopyState + Clone like a client)
	var ist chainh.IndepStats
	var wg sync.WaitGroup
	for i, sc := range chainh.Scenarios(run.Tier) {
		if run.Tier != "thorough" && i != 0 && sc.Name != "deposits/all-forks" && sc.Name != "mass-ejection/all-forks" {
			continue
		}
		wg.Add(1)
		go func(sc *chainh.Scenario) { // each scenario has its own world: nothing is shared between the goroutines
			defer wg.Done()
			chainh.SiblingIndependence(run, sc, &ist)
			fmt.Fprintf(os.Stderr, "C15 sibling copies %s done: branches=%d checks=%d (cumulative)\n", sc.Name, atomic.LoadInt64(&ist.Branches), atomic.LoadInt64(&ist.Checks))
		}(sc)
	}
	wg.Wait()
	run.Set("sibling_copy_branches", ist.Branches)
	run.Set("sibling_copy_checks", ist.Checks)
	run.Set("states", st.NonTrivial+ist.Checks)
	run.Set("transitions", st.Evals+ist.Branches)
	run.Set("traces_validated_against_impl", st.NonTrivial+ist.Branches)
	run.Set("presets", pn)
	run.Set("accessors_in_table", len(statex.AllOps()))
	run.Set("engine", "accessor table x 6 fork state types on the all-leaves-distinct state (each setter: bytes == model edited by field NAME; all getters vs the model) + exhaustive sequences (depth bound) of mutations over {state0, state1 = Copy(state0), state2 = Copy(state1)} with every live state compared with its never-shared twin after every step; + at every state of the base chain histories: two copies (CopyState + Clone), one advanced by each menu deviation and two epoch transitions, original and sibling re-checked (state bytes, cached root, whole context vs from-scratch), then vice versa")
	run.Sample(5, map[string]interface{}{"fork": "capella", "steps": []string{"state1.SetSlot", "state2 = Copy(state1)", "state0.Validators[2].SetExitEpoch"}})
	run.Assume("model = the fork's reference struct (refspec) edited by field name; refssz encodes it", "3 validators, lists of 3, T4 / odd-limits / minimal presets")
	run.Finish()
}
