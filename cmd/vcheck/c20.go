package main

import (
	"encoding/json"
	"fmt"
	"os"
	"time"

	"verif/internal/core"
	"verif/internal/poolx"
	"verif/internal/seqx"
)

func init() {
	commands["c20"] = func(a []string) { runC20() }
	replayers["C20"] = replayC20
}

func c20Harnesses() []seqx.Harness {
	return []seqx.Harness{poolx.AttHarness{}, poolx.MiscHarness{}, poolx.SyncHarness{}}
}

func runC20() {
	run := core.NewRun("C20", "model_checking")
	run.SetDeadline(core.Budget(150*time.Second, 25*time.Minute))
	depth := map[string][2]int{"attestation-pool": {4, 5}, "exit+slashing-pools": {5, 7}, "sync-committee-pool": {4, 5}}
	ti := 0
	if run.Tier == "thorough" {
		ti = 1
	}
	var tot seqx.Stats
	per := map[string]interface{}{}
	for _, h := range c20Harnesses() {
		st := seqx.Explore(run, h, depth[h.Name()][ti])
		per[h.Name()] = st
		tot.States += st.States
		tot.Transitions += st.Transitions
		tot.Traces += st.Traces
		tot.Outcomes += st.Outcomes
		if st.MaxDepth > tot.MaxDepth {
			tot.MaxDepth = st.MaxDepth
		}
		fmt.Fprintf(os.Stderr, "C20 %s: %s\n", h.Name(), st.JSON())
	}
	run.Set("states", tot.States)
	run.Set("transitions", tot.Transitions)
	run.Set("traces_validated_against_impl", tot.Traces)
	run.Set("distinct_outcomes", tot.Outcomes)
	run.Set("max_depth", tot.MaxDepth)
	run.Set("per_scenario", per)
	run.Set("engine", "seqx (explicit-state BFS over add/query/prune/reset sequences on the real pools, lock-step with multiset models)")
	run.Assume("reference model refpool (internal/poolx): lists of handed-in and accepted items; retention of aggregates asserted as participant coverage",
		"committees of 3, 4 attestation data variants (two in the same target epoch), 3 exits/slashings variants, sync slots 0..4",
		"'stored' is read as 'add returned nil'; an add that returns an error may store nothing")
	run.Finish()
}

func replayC20(args []string) {
	b, _ := os.ReadFile(args[0])
	var rf struct {
		Replay struct {
			Harness string
			Ops     []string
		}
	}
	json.Unmarshal(b, &rf)
	for _, h := range c20Harnesses() {
		if h.Name() != rf.Replay.Harness {
			continue
		}
		fs, err := seqx.ReplayOps(h, rf.Replay.Ops)
		if err != nil {
			fmt.Println("replay error:", err)
			os.Exit(2)
		}
		for _, f := range fs {
			fmt.Printf("%s\n  %s\n", f.Sig, f.Msg)
		}
		if len(fs) > 0 {
			os.Exit(1)
		}
		fmt.Println("replay: no violation")
		return
	}
	os.Exit(2)
}
