package main

import (
	"time"

	"verif/internal/core"
	"verif/internal/numx"
)

func init() { commands["c19"] = func(a []string) { runC19() } }

func runC19() {
	run := core.NewRun("C19", "exploration")
	run.SetDeadline(core.Budget(150*time.Second, 25*time.Minute))
	th := run.Tier == "thorough"
	e1, n1 := numx.Isqrt(run, th)
	e2, n2 := numx.PowerOfTwo(run, th)
	e3, n3 := numx.Conversions(run)
	md := 6
	if th {
		md = 9
	}
	e4, n4 := numx.Merkle(run, md)
	run.Set("evaluations", e1+e2+e3+e4)
	run.Set("distinct_nontrivial", n1+n2+n3+n4)
	run.Set("per_function", map[string]interface{}{
		"IntegerSquareroot": map[string]int64{"evaluations": e1, "edge_cases": n1},
		"IsPowerOfTwo/NextPowerOfTwo": map[string]int64{"evaluations": e2, "edge_cases": n2},
		"TimeToSlot/TimeAtSlot/EpochStartSlot/SlotToEpoch/ComputeActivationExitEpoch/GetChurnLimit/CommitteeCount/CheckSlotSpan": map[string]int64{"evaluations": e3, "representable_cases": n3},
		"VerifyMerkleBranch": map[string]int64{"evaluations": e4, "cases": n4},
	})
	run.Set("rule", "IntegerSquareroot: every n below 2^30 (quick) / 2^32 (thorough), both edges k^2-1, k^2, k^2+2k of every step of the floor function for k < 2^25 and k >= 2^32-2^25 (quick) / every k < 2^32 (thorough), 2^16 values below 2^64-1, 2^10 values around every 2^j; result checked by r^2 <= n < (r+1)^2 in 128-bit arithmetic. Power-of-two helpers: every n < 2^22 / 2^26 and 2^j +-{0..3}. Conversion helpers: full products over a 36-value structured set (0,1,2, small, 2^31, 2^32+-1, 2^63+-1, 2^64-2, 2^64-1, around the largest representable argument) x parameter sets, against exact 128-bit arithmetic: exact value when representable, error result otherwise, never a wrapped value. VerifyMerkleBranch: every index of every full tree up to the depth bound: true branch accepted, every single corruption rejected; depth-33 deposit shape on an index grid. distinct_nontrivial counts edge/representable/corruption cases (not plain dense-range points).")
	run.Set("exhaustive", false)
	run.Set("explanation", "structured exhaustive sub-domains of the 2^64 argument spaces; not every 64-bit point")
	run.Sample(10, map[string]interface{}{"fn": "IntegerSquareroot", "n": []string{"0", "1", "4294967295^2-1", "4294967295^2", "18446744073709551615"}})
	run.Sample(10, map[string]interface{}{"fn": "TimeAtSlot", "slot": "max representable +-2", "genesis": "V", "SECONDS_PER_SLOT": []uint64{1, 2, 6, 12}})
	run.Sample(10, map[string]interface{}{"fn": "VerifyMerkleBranch", "depth": md, "corruptions": "branch node bit flips, index bit flips, swapped nodes, leaf, root, depth+-1"})
	run.Assume("reference = 128-bit arithmetic with math/bits and crypto/sha256 (internal/numx)", "NextPowerOfTwo(0) is pinned to 0 by the repository's own test table and not claimed", "len(branch) < depth is outside the documented domain of VerifyMerkleBranch")
	run.Finish()
}
