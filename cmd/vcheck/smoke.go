package main

import (
	"context"
	"fmt"
	"time"

	"verif/internal/chainh"
)

func init() {
	commands["smoke"] = func(a []string) {
		w := chainh.NewWorld(chainh.T4(chainh.AllForks), 0, 24)
		t0 := time.Now()
		n, err := w.Genesis()
		if err != nil {
			fmt.Println("genesis:", err)
			return
		}
		fmt.Println("genesis diff:", n.Diff(), time.Since(t0))
		ctx := context.Background()
		n2 := n.Branch()
		if r := n2.StepSlots(ctx, 24); r.Mismatch != "" {
			fmt.Println("SLOTS:", r.Mismatch)
		} else {
			fmt.Println("24 empty slots ok", time.Since(t0))
		}
		for s := uint64(1); s <= 24; s++ {
			r := n.StepBlock(ctx, s, &chainh.Plan{Name: "default"})
			if r.Mismatch != "" {
				fmt.Println("BLOCK:", r.Mismatch)
				return
			}
		}
		fmt.Println("24 default blocks ok", time.Since(t0), "finalized epoch", n.Ref.FinalizedCheckpoint.Epoch)
	}
}
