package main

import (
	"context"
	"fmt"

	"verif/internal/chainh"
)

func init() {
	commands["smoke2"] = func(a []string) {
		w := chainh.NewWorld(chainh.T4(chainh.AllForks), 0, 24)
		n, _ := w.Genesis()
		ctx := context.Background()
		for s := uint64(1); s <= 23; s++ {
			r := n.StepBlock(ctx, s, &chainh.Plan{Name: "default"})
			if r.Mismatch != "" {
				fmt.Println("BLOCK:", r.Mismatch)
				return
			}
		}
		n.StepSlots(ctx, 24)
		fmt.Println("diff at 24:", n.Diff())
		for i, pk := range n.Ref.CurrentSyncCommittee.Pubkeys {
			fmt.Printf("%d ref %x real %x idx %d\n", i, pk[:4], n.EPC.CurrentSyncCommittee.CachedPubkeys[i].Compressed[:4], n.EPC.CurrentSyncCommittee.Indices[i])
		}
	}
}
