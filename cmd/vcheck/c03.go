package main

import (
	"fmt"
	"os"
	"sort"
	"time"

	"verif/internal/chainh"
	"verif/internal/core"
)

func init() { commands["c03"] = func(a []string) { runC03() } }

func runC03() {
	run := core.NewRun("C03", "model_checking")
	run.SetDeadline(core.Budget(160*time.Second, 25*time.Minute))
	var st chainh.RejectStats
	scs := chainh.Scenarios(run.Tier)
	for i, sc := range scs {
		stride := uint64(1)
		if run.Tier != "thorough" && i > 0 {
			stride = 3
		}
		chainh.RejectCheck(run, sc, &st, stride)
		fmt.Fprintf(os.Stderr, "C03 %s: cases=%d rejected=%d still-valid=%d not-encodable=%d\n", sc.Name, st.Cases, st.Rejected, st.StillValid, st.NotEncodable)
		if run.Expired() {
			break
		}
	}
	per := map[string]int64{}
	var names []string
	st.PerMutator.Range(func(k, v interface{}) bool {
		per[k.(string)] = *v.(*int64)
		names = append(names, k.(string))
		return true
	})
	sort.Strings(names)
	var unused []string
	for _, m := range chainh.Mutators() {
		if per[m.Name] == 0 {
			unused = append(unused, m.Name)
		}
	}
	run.Set("states", int64(len(scs))*24)
	run.Set("transitions", st.Cases)
	run.Set("traces_validated_against_impl", st.Cases)
	run.Set("rejected_by_specification", st.Rejected)
	run.Set("still_valid_variants", st.StillValid)
	run.Set("mutators_total", len(chainh.Mutators()))
	run.Set("mutators_exercised", len(names))
	run.Set("mutators_never_applicable", unused)
	run.Set("cases_per_mutator", per)
	run.Set("engine", "chainx spine + enumx: every single-rule corruption (mutator table written rule by rule from the specification, incl. signature replays under every other domain type / fork version / chain) of every base block at every state of the base histories, in two forms; the reference model decides accept/reject, zrnt must agree and never panic")
	run.Sample(6, map[string]interface{}{"slot": 13, "base_block": "slashing+exit+attester-slashing", "corruption": "exit/signature-domain-type-1", "form": "b:re-signed,no-validate"})
	run.Sample(6, map[string]interface{}{"slot": 21, "base_block": "default", "corruption": "payload/withdrawal-amount-plus-1", "form": "a:original-signature,validate"})
	run.Assume("reference transition decides validity; form (b) runs with validateResult=false so that the rule under test is the only thing that can reject",
		"blocks that cannot be SSZ-encoded at all (list over its type limit) are covered by C04's decode checks, not here")
	run.Finish()
}
