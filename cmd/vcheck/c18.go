package main

import (
	"fmt"
	"os"
	"strings"
	"time"

	"verif/internal/chainh"
	"verif/internal/core"
)

func init() { commands["c18"] = func(a []string) { runC18() } }

func runC18() {
	run := core.NewRun("C18", "fault_enumeration")
	run.SetDeadline(core.Budget(160*time.Second, 25*time.Minute))
	var st chainh.FaultStats
	menu := func(n *chainh.Node, slot uint64) []chainh.Choice {
		keep := map[string]bool{"skip": true, "atts:none": true, "exits(3)": true, "payload:txs": true, "blobs:1": true, "blobs:max": true, "slashing+exit+attester-slashing": true, "atts:delay-2": true}
		var out []chainh.Choice
		for _, c := range chainh.FullMenu(n, slot) {
			if keep[c.String()] || strings.HasPrefix(c.String(), "bls-change") || strings.HasPrefix(c.String(), "payload:none") || strings.HasPrefix(c.String(), "payload:merge") {
				out = append(out, c)
			}
		}
		return out
	}
	scs := chainh.Scenarios(run.Tier)
	empty := &chainh.Scenario{Name: "no-blocks/all-forks", Preset: chainh.T4(chainh.AllForks), Slots: 24, NKeys: 24, Default: func(uint64) chainh.Choice { return chainh.Choice{Skip: true} }}
	for i, sc := range append([]*chainh.Scenario{scs[0], empty}, scs[1:]...) {
		m := menu
		if i > 1 && run.Tier != "thorough" {
			m = nil // quick: deviations only on the first scenario; default histories of the others
		}
		chainh.FaultCheck(run, sc, m, &st)
		fmt.Fprintf(os.Stderr, "C18 %s: transitions=%d runs=%d cancel-points=%d engine-faults=%d\n", sc.Name, st.Transitions, st.Runs, st.CancelPoints, st.EngineFaults)
		if run.Expired() {
			break
		}
	}
	run.Set("evaluations", st.Runs)
	run.Set("distinct_nontrivial", st.CancelPoints+st.EngineFaults)
	run.Set("base_transitions", st.Transitions)
	run.Set("cancellation_points", st.CancelPoints)
	run.Set("engine_verdict_vectors", st.EngineFaults)
	run.Set("poll_sites_reached", st.SiteList())
	run.Set("rule", "for every transition (block via StateTransition, or slot advance via ProcessSlots) of the base histories and their one-deviation variants: one counting run (counting context, recording engine) to learn the P context polls and E engine calls; then one execution per poll index i with the context cancelled from poll i on (must return an error, no panic) and one per non-trivial engine verdict vector in {valid, invalid, error}^E (must return an error); the undisturbed instrumented run must give the plain post-state; recorded engine arguments must be the block's payload (root), versioned hashes 0x01||sha256(commitment)[1:] in commitment order, parent beacon block root = block.parent_root. evaluations = executions of the real transition; distinct_nontrivial = injected faults.")
	run.Set("exhaustive", true)
	run.Sample(5, map[string]interface{}{"transition": "block at slot 21 (deneb, blobs:max)", "faults": "cancel at poll 0..P-1; engine vectors over [blockhash versionedhashes notify]"})
	run.Assume("a cancellation is modelled as Err() != nil from poll i on (Done() closed at the same moment); cancellation after the last poll of a transition cannot be observed by any caller and is not claimed",
		"chain harness + reference model as in C01")
	run.Finish()
}
