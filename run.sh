#!/bin/bash
# run.sh <property id> [quick|thorough]   — rebuilds from /repo's current working tree, runs the check.
set -u
cd /verif
. ./env.sh
id=$(echo "$1" | tr 'A-Z' 'a-z')
if [ "$id" != replay ]; then export VERIF_TIER=${2:-${VERIF_TIER:-quick}}; fi
mkdir -p .build
python3 tools/genoverlay.py .build/overlay || { echo "overlay generation failed"; exit 2; }
if ! go build -overlay .build/overlay/overlay.json -o .build/vcheck ./cmd/vcheck 2> .build/build.log; then
  cat .build/build.log
  echo "BUILD FAILED (check cannot run)"; exit 2
fi
if [ "$id" = replay ]; then exec .build/vcheck replay "$2"; fi
exec .build/vcheck "$id"
