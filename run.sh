#!/bin/bash
# run.sh <property id> [quick|thorough]   — rebuilds from /repo's current working tree, runs the check.
# run.sh replay <file>                    — re-executes a replay file without the explorer.
set -u
export VERIF_ROOT="$(cd "$(dirname "$0")" && pwd)"
cd "$VERIF_ROOT"
. ./env.sh
id=$(echo "$1" | tr 'A-Z' 'a-z')
if [ "$id" != replay ]; then export VERIF_TIER=${2:-${VERIF_TIER:-quick}}; fi
# per-invocation build directory: concurrent invocations never share generated files
B=".build/run.$$"
mkdir -p "$B"
trap 'rm -rf "$B"' EXIT
# VERIF_REPO (only set by tools/seedrun.sh): build against a scratch worktree of /repo carrying a seeded change.
MODFILE=""
if [ -n "${VERIF_REPO:-}" ] && [ "$VERIF_REPO" != /repo ]; then
  sed "s#=> /repo#=> $VERIF_REPO#" go.mod > "$B/go.mod"; cp go.sum "$B/go.sum"; MODFILE="-modfile=$B/go.mod"
fi
python3 tools/genoverlay.py "$B/overlay" 2> "$B/gen.log" || { cat "$B/gen.log"; echo "overlay generation failed"; exit 2; }
if ! go build $MODFILE -overlay "$B/overlay/overlay.json" -o "$B/vcheck" ./cmd/vcheck 2> "$B/build.log"; then
  cat "$B/build.log"
  echo "BUILD FAILED (check cannot run)"; exit 2
fi
if [ "$id" = c17 ]; then
  # second, race-instrumented build of the same binary for the data-race pass
  if go build $MODFILE -race -overlay "$B/overlay/overlay.json" -o "$B/vcheck-race" ./cmd/vcheck 2> "$B/build-race.log"; then
    export VERIF_RACE_BIN="$VERIF_ROOT/$B/vcheck-race"
  else
    cat "$B/build-race.log"; echo "race build failed: data-race clause will not be checked"
  fi
fi
if [ "$id" = replay ]; then "$B/vcheck" replay "$2"; exit $?; fi
"$B/vcheck" "$id"
exit $?
