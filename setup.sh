#!/bin/bash
# Build the framework offline from files on disk (also warms the Go build cache).
set -e
cd "$(dirname "$0")"
. ./env.sh
mkdir -p .build evidence replays
python3 tools/genoverlay.py .build/overlay
go build -overlay .build/overlay/overlay.json -o .build/vcheck ./cmd/vcheck
# warm the cache of the race-instrumented variant used by the C17 data-race pass
go build -race -overlay .build/overlay/overlay.json -o .build/vcheck-race ./cmd/vcheck || echo "race build unavailable"
echo "setup ok"
